"""Print the prompt for a fresh mutation sub-agent for property Cxx (only the property text, nothing from /verif)."""
import json, sys
pid = sys.argv[1]
n = sys.argv[2] if len(sys.argv) > 2 else '2'
p = next(json.loads(l) for l in open('/verif/properties.jsonl') if json.loads(l)['id'] == pid)
wt = '/tmp/mut_%s' % pid.lower()
print(f"""You are helping to test a verification effort for the Python library jedi (davidhalter/jedi; pure Python static analysis: completion, goto, inference, refactoring, built on the parso parser). Your job: write {n} DIFFERENT small, realistic code changes ("seeded defects") to jedi that each BREAK the semantic property below, while jedi still imports and the existing test suite still passes. Think of plausible mistakes a maintainer could make during a refactoring or an optimisation (an off-by-one, a dropped de-duplication, a cache keyed on the wrong thing, a missing finally, a condition weakened, a swapped order, two sites that each look fine alone) — NOT sabotage that ordinary use would expose at once. Prefer changes that need something specific to manifest: a particular input shape, a multi-step sequence of operations, an unusual but legal input, a particular interleaving/crash point, or two cooperating sites.

THE PROPERTY (id {pid}): {p['title']}
Statement: {p['statement']}
Quantified over: {p['quantifier']['text']}
Code that is meant to make it hold (anchors): files {', '.join(p['anchors']['files'])}; mechanisms: {'; '.join(m['name'] + ' [' + m['where'] + ']' for m in p['anchors']['mechanism'])}
Observable at: {'; '.join(p['anchors'].get('observe_at') or [])}

WORKING RULES
- Work ONLY in your own scratch git worktree: create it with `git -C /repo worktree add --detach {wt} HEAD` (if it already exists, remove it first with `git -C /repo worktree remove --force {wt}`). Never edit /repo itself, never read or touch /verif (you must stay independent of the verification machinery).
- jedi is not installed; run it from your worktree with `cd /tmp && PYTHONPATH={wt} /venv/bin/python your_script.py`. IMPORTANT environment facts: the typeshed stub submodule is EMPTY in this repository, so many builtin-related features do not work or crash even on the unchanged tree (e.g. completing after a list/dict/tuple value, anything touching None/True/False literals, `import os; os.`, attribute completion after a class object `Class.`). Build your demonstrations from user-defined classes/functions, int/str literals, and modules you create yourself in temp directories; check first that your demo PASSES on the unchanged worktree.
- Every bash command prints a conda WARNING line; ignore it. The machine is heavily loaded: be patient, avoid needless reruns, do not start background jobs.
- For each change i (1..{n}) produce in /tmp/mut_out_{pid.lower()}/m<i>/ : `patch.diff` (output of `git -C {wt} diff`, must apply to /repo's HEAD with `git apply`), `demo.py` (a small self-contained program run as `cd /tmp && PYTHONPATH=<repo dir> /venv/bin/python demo.py <repo dir>`, exit code 0 = property holds on that tree, exit code 1 = property violated, printing what it observed; it must exit 0 on the unchanged tree and 1 with your patch), and `meta.json` with keys: property, title (one line), what_breaks (2-3 sentences), needs_to_manifest (what specific input/sequence/condition is needed), files_touched, tests_run (what you ran and the result).
- The existing tests must still pass with each patch: run at least the relevant stable subset, e.g. `cd {wt} && /venv/bin/python -m pytest -q -p no:cacheprovider test/test_api/test_project.py test/test_api/test_interpreter.py test/test_inference/test_imports.py test/test_inference/test_sys_path.py test/test_api/test_environment.py test/test_inference/test_mixed.py jedi/ 2>&1 | tail -5` — note that MANY tests fail on the unchanged tree in this sandbox (missing typeshed); what matters is that your patch does not turn a passing test into a failing one: compare the set of failed test ids before and after your patch (`-rf` lists them) for the files you touch and the subset above.
- Reset the worktree between changes (`git -C {wt} checkout -- .`). When done, remove the worktree: `git -C /repo worktree remove --force {wt}`.
- Make the changes genuinely different from each other (different mechanism / different file where possible).

Final answer: for each change, one short paragraph (what, why it breaks the property, what it needs to manifest, demo result before/after, test result). Do not paste file contents.""")
