#!/bin/bash
# seedbatch.sh <dir>...  : baseline + detection for each seeded defect directory, sequentially
cd /verif
for d in "$@"; do
  echo "=== $d $(date)"
  python3 tools/seedtest.py baseline $d 2>&1 | grep -v conda
  python3 tools/seedtest.py check $d 2>&1 | grep -v conda
done
