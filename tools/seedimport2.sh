#!/bin/bash
# seedimport2.sh C07 : import the second campaign /tmp/mutb_out_c07/m{1,2} as seeded/C07-m{3,4}, verify, start baseline+detection
P=$1; p=$(echo $P | tr A-Z a-z); cd /verif
dirs=""
for i in 1 2; do
  m=/tmp/mutb_out_$p/m$i
  [ -f $m/patch.diff ] || continue
  d=seeded/$P-m$((i+2)); mkdir -p $d; cp $m/patch.diff $m/demo.py $m/meta.json $d/ 2>/dev/null
  python3 tools/seedtest.py verify $d 2>&1 | grep -v conda | tail -3
  dirs="$dirs $d"
done
nohup tools/seedbatch.sh $dirs > /tmp/seed2_$P.log 2>&1 &
echo "batch started for$dirs"
