"""Run the repository's pinned test suite and compare with /root/.vp/BASELINE.json stable_pass."""
import json, subprocess, sys, os, tempfile, xml.etree.ElementTree as ET
b = json.load(open('/root/.vp/BASELINE.json'))
f = tempfile.mktemp(suffix='.xml')
cmd = b['cmd'].replace('<file>', f)
env = dict(os.environ); env.pop('JEDI_VERIF', None)
subprocess.run(cmd, shell=True, env=env, stdout=subprocess.DEVNULL, stderr=subprocess.DEVNULL)
passed = set()
for tc in ET.parse(f).getroot().iter('testcase'):
    if not any(c.tag in ('failure', 'error', 'skipped') for c in tc):
        passed.add(tc.get('classname') + '::' + tc.get('name'))
os.unlink(f)
want = set(b['stable_pass'])
missing = sorted(want - passed)
print('stable_pass', len(want), 'passed now', len(passed), 'missing', len(missing))
for m in missing[:20]:
    print('  MISSING', m)
sys.exit(1 if missing else 0)
