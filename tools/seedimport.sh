#!/bin/bash
# seedimport.sh C07 : import /tmp/mut_out_c07/m*/ into seeded/, verify the demos, start baseline+detection in the background
P=$1; p=$(echo $P | tr A-Z a-z); cd /verif
dirs=""
for m in /tmp/mut_out_$p/m*; do
  [ -f $m/patch.diff ] || continue
  d=seeded/$P-$(basename $m); mkdir -p $d; cp $m/patch.diff $m/demo.py $m/meta.json $d/ 2>/dev/null
  python3 tools/seedtest.py verify $d 2>&1 | grep -v conda | tail -3
  dirs="$dirs $d"
done
nohup tools/seedbatch.sh $dirs > /tmp/seed_$P.log 2>&1 &
echo "batch started for$dirs"
