"""Validate and run a seeded defect.

  seedtest.py verify <dir>        dir holds patch.diff, demo.py, meta.json: checks in a scratch
                                  worktree that the demo passes without and fails with the patch
  seedtest.py check <dir> [pids]  applies the patch to /repo, runs ./check for the property in
                                  meta.json (or the given ids), restores /repo, prints the outcome
"""
import json
import os
import subprocess
import sys
import tempfile

REPO = '/repo'


def sh(cmd, **kw):
    return subprocess.run(cmd, shell=True, text=True, capture_output=True, **kw)


def verify(d):
    wt = tempfile.mkdtemp(prefix='seedwt_')
    os.rmdir(wt)
    r = sh('git -C %s worktree add --detach %s HEAD' % (REPO, wt))
    try:
        def demo():
            p = sh('cd /tmp && PYTHONPATH=%s PYTHONDONTWRITEBYTECODE=1 /venv/bin/python %s/demo.py %s' % (wt, d, wt), timeout=1800)
            return p.returncode, (p.stdout + p.stderr)[-600:]
        before = demo()
        a = sh('git -C %s apply %s/patch.diff' % (wt, d))
        if a.returncode != 0:
            print('PATCH DOES NOT APPLY', a.stderr[-300:])
            return 2
        imp = sh('cd /tmp && PYTHONPATH=%s /venv/bin/python -c "import jedi"' % wt)
        after = demo()
        print('demo before patch: exit', before[0], '| after patch: exit', after[0], '| import ok:', imp.returncode == 0)
        if before[0] != 0 or after[0] == 0:
            print('BEFORE:', before[1])
            print('AFTER:', after[1])
        return 0 if (before[0] == 0 and after[0] != 0 and imp.returncode == 0) else 1
    finally:
        sh('git -C %s worktree remove --force %s' % (REPO, wt))


def check(d, pids):
    meta = json.load(open(os.path.join(d, 'meta.json')))
    pids = pids or [meta['property']]
    # While other checks may be running against /repo, the patched tree is a scratch worktree
    # and the check is pointed at it with JEDI_REPO (the check imports jedi from $JEDI_REPO).
    wt = tempfile.mkdtemp(prefix='seedwt_')
    os.rmdir(wt)
    sh('git -C %s worktree add --detach %s HEAD' % (REPO, wt))
    a = sh('git -C %s apply %s/patch.diff' % (wt, d))
    if a.returncode != 0:
        print('PATCH DOES NOT APPLY', a.stderr[-300:])
        sh('git -C %s worktree remove --force %s' % (REPO, wt))
        return 2
    res = {}
    try:
        for pid in pids:
            ev = '/verif/evidence/%s.json' % pid
            keep = open(ev).read() if os.path.exists(ev) else None
            p = sh('cd /verif && JEDI_REPO=%s ./check %s --tier quick' % (wt, pid), timeout=10800)
            if keep is not None:      # evidence must describe runs against /repo itself
                open(ev, 'w').write(keep)
            lines = [l for l in p.stdout.split('\n') if l.startswith('VIOLATION')]
            res[pid] = dict(exit=p.returncode, violations=len(lines), first=lines[:2])
            print(pid, 'exit', p.returncode, 'violations', len(lines), lines[:2])
    finally:
        sh('git -C %s worktree remove --force %s' % (REPO, wt))
    with open(os.path.join(d, 'detected.json'), 'w') as f:
        json.dump(res, f, indent=1)
    return 0


def baseline(d):
    """the pinned stable tests must still pass with the patch applied"""
    b = json.load(open('/root/.vp/BASELINE.json'))
    wt = tempfile.mkdtemp(prefix='seedwt_')
    os.rmdir(wt)
    sh('git -C %s worktree add --detach %s HEAD' % (REPO, wt))
    try:
        a = sh('git -C %s apply %s/patch.diff' % (wt, d))
        if a.returncode != 0:
            print('PATCH DOES NOT APPLY')
            return 2
        xml = tempfile.mktemp(suffix='.xml')
        cmd = b['cmd'].replace('cd /repo', 'cd ' + wt).replace('<file>', xml)
        env = dict(os.environ)
        env.pop('JEDI_VERIF', None)
        subprocess.run(cmd, shell=True, env=env, stdout=subprocess.DEVNULL, stderr=subprocess.DEVNULL)
        import xml.etree.ElementTree as ET
        passed = set()
        for tc in ET.parse(xml).getroot().iter('testcase'):
            if not any(c.tag in ('failure', 'error', 'skipped') for c in tc):
                passed.add(tc.get('classname') + '::' + tc.get('name'))
        os.unlink(xml)
        missing = sorted(set(b['stable_pass']) - passed)
        # test ids embed the checkout path in a few parametrised tests: compare modulo the path
        missing = [m for m in missing if wt not in m and '/repo' not in m]
        print('baseline: stable', len(b['stable_pass']), 'missing with patch', len(missing), missing[:5])
        with open(os.path.join(d, 'baseline.json'), 'w') as f:
            json.dump(dict(stable=len(b['stable_pass']), missing=missing), f, indent=1)
        return 0 if not missing else 1
    finally:
        sh('git -C %s worktree remove --force %s' % (REPO, wt))


if __name__ == '__main__':
    if sys.argv[1] == 'baseline':
        sys.exit(baseline(os.path.abspath(sys.argv[2])))
    if sys.argv[1] == 'verify':
        sys.exit(verify(os.path.abspath(sys.argv[2])))
    sys.exit(check(os.path.abspath(sys.argv[2]), sys.argv[3:]))
