"""Regenerate /verif/MANIFEST.json from the table below (kept valid at all times)."""
import json
import os

V = os.path.dirname(os.path.dirname(os.path.abspath(__file__)))

# pid -> (technique, level text, level note)
CHECKS = {
    'C04': ('Coq proof of match/filter/sort model + vm_compute correspondence with helpers.match, filter_names, Script.complete',
            'Theorems (9, closed under the global context) about a Gallina transcription of _start_match/_fuzzy_match/filter_names/'
            'the completion sort/Completion._complete: fuzzy = subsequence, prefix = startswith, complete is the missing suffix, '
            'prefix length = fragment length, no duplicate (name, complete) pair, result is the stable sort by the documented key of the '
            'filtered names, nothing matching is dropped.  Tied to /repo on every run by evaluating the model with vm_compute on the '
            'inputs captured from the real functions (exhaustive small alphabet, stub name lists, whole ordered Script.complete lists) '
            'and by checking the property clauses directly on every result; attribute completeness is checked against dir() of the executed program.',
            'Coq kernel + vm_compute; str.lower supplied by CPython as an oracle; which names reach filter_names is engine behaviour covered only '
            'by the differential/oracle streams (partial there).'),
    'C03': ('Coq proof that jedi\'s filter-chain lookup lands in Python\'s scope on a scope-tree language + vm_compute correspondence with Script.goto and CPython',
            'Theorems (9, closed): on a scope-tree language (module/def/lambda/comprehension/class scopes; assignment, parameter, for and comprehension '
            'targets; global/nonlocal) a Gallina transcription of jedi\'s outward context walk (position limit dropped after a function, class bodies '
            'skipped for methods, comprehension contexts ignoring the limit, global statements merged at module level) is proved, for chains of ANY depth, '
            'to return only bindings of the same identifier that write exactly the scope a Gallina model of Python\'s scoping (LEGB, class LOAD_NAME rule, '
            'global/nonlocal) reads, inside a decidable fragment; to find every local inside it; and to return exactly the last binding before the use for '
            'straight-line code. Five _refuted theorems give a witness for each excluded shape (F1..F5), so the fragment is tight. Both models are tied to '
            'reality on every run: each generated program is executed by CPython with unique values per binding (the value read at a use IS the binding Python took) '
            'and Script.goto is asked at every executed use; Coq evaluates both models on the same programs and must reproduce both observations; the property '
            'itself is checked directly on goto\'s answers and deviations are accepted only when they are one of the five listed shapes AND predicted by the model.',
            'Coq kernel + vm_compute; pretty-printer from the scope tree to Python text and the position table are harness code; if/else/try reachability '
            '(flow analysis) and import/with/except/walrus binders are outside the modelled language (partial there).'),
    'C01': ('Coq proof of the position contract (validate_line_column + split_lines) + vm_compute correspondence; totality explored differentially over all query methods',
            'Theorems (5, closed): a Gallina transcription of parso.split_lines(keepends) and of validate_line_column accepts a position iff it lies inside the text '
            '(existing line, column within the line without its terminator), rejects everything else with ValueError, never yields an out-of-range index downstream, '
            'accepts the default position for every text, and the line table concatenates back to the text for any mixture of \\n, \\r\\n, \\r, form feeds. '
            'Tied to /repo per run: the real wrapper and the real line table are compared with the model in Coq on generated texts/positions, and the API-level outcome '
            '(ValueError vs normal) of all position-taking Script methods is compared with the model\'s prediction. Totality of the engine is NOT a theorem: it is explored by calling '
            'every query method and every documented attribute of the returned objects on corpus snippets, prefixes, single-token edits and token soups; any exception other '
            'than the contract\'s ValueError is a failing input (crash classes caused by the absent typeshed are listed known findings matched by exception type + call site).',
            'Coq kernel + vm_compute; the inference engine is not modelled (partial: exploration only for totality); typeshed stubs are absent from this tree.'),
    'C19': ('Coq proof of the project walk with .gitignore/ignored-folder pruning against a declarative ignore spec + vm_compute correspondence with recurse_find_python_folders_and_files and Project.search',
            'Theorems (8, closed): a Gallina transcription of gitignored_paths / expand_relative_ignore_paths / recurse_find_python_folders_and_files over os.walk (the two accumulating ignore sets threaded through the whole walk), '
            'proved sound and complete w.r.t. a declarative spec (an item is hidden iff a .gitignore at or above it names it, or a folder base name is in the fixed list, or it lies below such a folder) for all well-formed trees; '
            'refutations for the two pre-fix variants; the 30/2000 file limits; Script.search as a filter of get_names; first-wins de-duplication. Tied to /repo per run: generated on-disk trees, the ordered real walk output compared with the model in Coq; '
            'gitignore parsing, relative expansion, limits, dedupe and search-string splitting driven directly; Project.search/complete_search compared with the known content of the trees.',
            'Coq kernel + vm_compute; os.walk order supplied from os.scandir; the composition inside Project._search_func, dotted search and stub conversion are oracle-only (partial there).'),
    'C20': ('Coq proof of sys.path composition and settings save/load on a Gallina transcription of Project + vm_compute correspondence with Project/_get_sys_path/get_sys_path and import resolution',
            'Theorems (22, closed): the composed path has no duplicates, starts with the project directory when smart_sys_path is on, keeps the base entries as an order-preserving sublist, appends added_sys_path then buildout then the '
            'script\'s ancestor directories strictly inside the project (deepest last), contains nothing else; an import resolves to the first entry on the composed path that holds the module; save/load round-trips the five settings and the path '
            '(conditions stated; refutation witnesses for the relative-Path cases). Tied to /repo per run: 600 generated configurations x flag combinations through the real Project/get_sys_path, 400 save/load round trips, '
            '240 project trees with same-named modules under several entries queried through goto/infer/completion, all compared with the model in Coq and with independent oracles (CPython PathFinder).',
            'Coq kernel + vm_compute; get_default_project discovery is not modelled; paths with .. or // are modelled lexically.'),
    'C07': ('Coq proof of the tree refactorer, a verified unified-diff applier, the path-rename algebra and the apply file-system effect + vm_compute correspondence on every produced refactoring',
            'Theorems (15, closed): refactor with an empty map is the identity; everything outside the outermost mapped nodes is byte-identical (decomposition theorem); the diff preamble only adds a final newline; '
            'a verified applier accepts exactly the hunk lists that transform old into new (sound, complete, functional, mismatching context rejected); changed-file keys and to_path algebra; the FS after apply equals the announced contents under the announced names. '
            'Tied to /repo per run: ~1400 rename/inline/extract requests on corpus and generated sources (LF/CRLF/CR/mixed, with/without final newline, unicode, form feeds, multi-file projects), 45% applied in scratch dirs: every real diff is parsed and run through the verified applier in Coq, '
            'the real parso tree + captured node map are serialised into the model and compared with get_new_code(), directory snapshots before/after construction and after apply(), exception contract (RefactoringError / ValueError only).',
            'Coq kernel + vm_compute; difflib is not trusted (diffs are re-applied by the verified applier); parso\'s RefactoringNormalizer is modelled; under load only the first wave of Coq file cases is evaluated within the time box.'),
    'C15': ('Coq proof of the four give-up guards as state machines (bounds for traces of any length) + vm_compute correspondence with the real guard objects and traced queries on cyclic programs',
            'Theorems (14, closed): transcriptions of ExecutionRecursionDetector.push/pop (order of checks, builtins/typing exemptions, refused pushes occupying the stack), execution_allowed, _memoize_default, the generator cache and _limit_value_infers; '
            'for any well-bracketed event trace: accepted non-builtin executions <= 200 total, <= 6 per definition, nesting <= 15, <= 2 per definition on the stack; statement stack duplicate-free; a memoised body is entered at most once per key and re-entry returns the default; '
            'accepted node inferences <= 300*S + 30000*S_b, hence total work <= 1 + b*(300*S + 30000*S_b) for fan-out b (linear in program size); refutations for builtins (no depth bound) and for memoisation without default. '
            'The limits are read from /repo with ast on every run and must equal the constants the theorems are instantiated with. Tied to /repo per run: the real guard objects driven with exhaustive-small and random op sequences vs the model in Coq; '
            'queries on generated cyclic definition graphs (22 edge kinds, import cycles) under a watchdog with the guards wrapped to record the event trace, which the model must accept; scaling families n<=64 checked against the linear bound.',
            'Coq kernel + vm_compute; recursion outside the four guards (deep definition chains, the get_filters cycle) is invisible to the model and is found only by the query stream (two listed known findings).'),
    'C05': ('Coq proofs: rename = exact splice (+ round trip), alpha-renaming preserves every resolution on the scope-tree language, soundness/non-transitivity of the reference-merging loop + vm_compute correspondence with get_references/rename and execution of old vs renamed programs',
            'Theorems (9, closed): (text) the renamed file is the old one with exactly the value bytes of the selected leaves replaced, and renaming back restores it byte for byte; (semantics) on the C03 scope-tree language, renaming variable (x, scope) to a fresh name '
            'leaves the scope of EVERY use and binding unchanged and renames exactly that variable\'s occurrences, for chains of any depth (side condition: no global/nonlocal for x, no class-body read before the class binds it; the latter shown necessary by a capture witness); '
            '(search) the candidate-merging loop of find_references invents nothing and keeps its start set, but is not transitively closed (witness). Tied to /repo per run on generated executable programs: Script.get_references from every occurrence vs the Coq specification '
            '(same identifier and same Python variable), same answer from every member (partition), Script.rename output vs the Coq splice model on the real leaves, rename back = original bytes, old and renamed program executed (same trace). '
            'A Gallina transcription of find_references itself predicts the reported set on every generated program (a listed deviation class - identifier outside the C03 fragment, late-bound use, rebound parameter - is accepted only when the observed set IS the predicted one); an oracle-only multi-module stream (import components across 2-4 modules: same set from every member, rename + execution of old vs new project, rename back) with three listed classes, each accepted only when the reported set equals what the proved merge loop returns on the captured inputs.',
            'Coq kernel + vm_compute; the scope-tree model is single-module (the multi-module stream is oracle-only; file renames are C07\'s); the scope-tree printer is harness code.'),
    'C11': ('Coq proof that calculate_index is the preferred binding target of a relational model of Python argument binding; kinds, to_string round trip, docstring assembly + vm_compute correspondence with get_signatures and inspect',
            'Theorems (15, closed): get_kind equals the kind Python assigns for every valid parameter list without __ names (refutation for the __x convention); re-reading the / and * markers of to_string recovers names and kinds and the rendering is grammatical; '
            'calc_index = preferred target for well-formed signatures and star-free argument prefixes, sound and complete w.r.t. a Python-faithful relational Target (refutation: rebinding into **kw where Python raises); starred prefixes: partial statements and a refutation; docstring assembly. '
            'Tied to /repo per run: all parameter lists over five kinds x default/annotation up to 4 parameters x call prefixes with the cursor in every slot x {function, method, classmethod, staticmethod, class, pass-through wrapper}: '
            'Signature.index/.bracket_start/.params/.to_string() and the captured scanner output vs the model in Coq (~23k cases) and vs inspect.signature, real calls of a probe function (binds iff no TypeError), inspect.getdoc, ast re-parsing.',
            'Coq kernel + vm_compute; call detection in broken code and process_params for wrappers are oracle-only (partial there).'),
    'C14': ('Coq proof over all fault schedules of the request/reply protocol state machine with crash points + vm_compute correspondence through a fault-injecting proxy helper',
            'Theorems (9, closed): for every fault schedule and every op list — at most one helper death per op, a death fails exactly that op with InternalError, a stale Script fails with InternalError and no new death, a raising helper function is relayed and is not a crash; '
            'any op on a non-stale Script that meets no fault returns the fault-free answer; a Script created after a crash gets a live helper of the next generation; helpers are started only to replace dead ones; helper-side states = queued deletions + live used ids (no leak, even with id re-use); '
            'every observed death went through cleanup (no zombies, pipes closed); refutation for the pre-fix truncated-reply handling. Tied to /repo per run with no source hook: the Environment\'s executable is harness/c14_proxy.py, which relays the real helper\'s pipes frame by frame and '
            'injects the scheduled fault (kill before/after relaying, truncated reply, at every request index of several scenarios, up to 3 consecutive crashes, create/drop cycles); the Gallina check_case must reproduce every per-op observation and the whole wire log.',
            'Coq kernel + vm_compute; asynchronous exceptions inside _send and OS-level pipe behaviour are outside the model; hang detection is a watchdog.'),
    'C17': ('Coq proof of position arithmetic (split_lines, leaf start = offset of its text, line code, definition ranges, name enumeration) + vm_compute check of the consistency hypothesis on real parso trees and of every reported position',
            'Theorems (16, closed): concat(split_lines s) = s, the exact shape and count of lines, and equality of the model with the algorithm parso actually runs; in a consistent tree the code lines sliced at a leaf\'s recorded (line, col) give its value (exactly, for identifiers), '
            'get_line_code returns exactly that line, the definition range encloses the name, and get_names is a permutation of the selected name leaves sorted by position, each exactly once, definitions-only = the is_definition leaves; refutation for BOM-prefixed buffers. '
            'Tied to /repo per run: real parso trees (corpus windows + generated sources in LF/CRLF/CR/mixed/no-final-newline, tabs, form feeds, unicode, continuations) are serialised and `consistent` is evaluated in Coq on each (the hypothesis parso must meet); '
            'every Name/Completion/Signature returned by the query methods that points into the buffer or a project file is checked (text at position, range encloses, get_line_code), get_names vs tokenize, is_definition vs ast binding contexts.',
            'Coq kernel + vm_compute; parso\'s is_definition/get_definition are modelled, not verified.'),
    'C10': ('Coq proof that jedi\'s import walk agrees with a model of importlib on every file system and sys.path, level rewriting = _resolve_name, dotted-name round trip + four-corner vm_compute correspondence (jedi, CPython, both models)',
            'Theorems (14, closed): the relative-level rewrite equals importlib._resolve_name for 1 <= level <= |package| (beyond: characterised, no agreement claimed); import_module_by_names returns the same file / namespace directories / nothing as a model of _find_and_load on every FS and sys.path, also with jedi\'s module cache; '
            'whole import / from-import / star-import statements resolve alike under three hypotheses, each shown necessary by a witness; transform_path_to_dotted characterised and its round trip proved; refutation for the pre-fix string-prefix rule. '
            'Tied to /repo per run: generated directory trees (modules, packages, namespace dirs, clashes, several roots) x importing files x import forms: Script.infer/goto(follow_imports) vs the jedi model, real CPython imports in a subprocess vs the importlib model, jedi vs CPython directly, and the derived dotted name of every file.',
            'Coq kernel + vm_compute; .pyi stubs in the walk, pkgutil-style namespaces, __all__ and path-less scripts are outside the model.'),
    'C18': ('Coq proof that get_context is the innermost enclosing definition, parent() chains are the lexical nesting and full_name is the qualname, on definition trees of any depth + vm_compute correspondence at every position of generated and corpus files',
            'Theorems (12, closed): on a well-formed file of any nesting depth a Gallina transcription of Script.get_context (leaf lookup, previous-leaf adjustment, header special case, create_context header rule, column loop) returns the innermost def/class whose extent contains the position '
            '(strict body reading and header/extent reading stated separately, with three refutation witnesses showing the column, async and lambda-in-class provisos are necessary); iterating parent() visits exactly the lexically enclosing defs/classes then the module; '
            'qualified names = module names ++ __qualname__ when all enclosing scopes are classes (refutation for function-local definitions). Tied to /repo per run: the definition tree with extents is extracted with ast (independent of parso) from generated programs and corpus files, '
            'get_context at every (line, column) / every token, parent() chains of all get_names(all_scopes=True), full_name vs module.__name__ + obj.__qualname__ after importing the generated project; all compared with the model in Coq and with the ast oracle.',
            'Coq kernel + vm_compute; proofs work on the flattened preorder scope table of the tree; corpus module dotted names are taken from jedi as model input.'),
    'C02': ('Coq proof that a set-valued abstract evaluator written the way jedi infers is sound (and exact without conditionals) w.r.t. a big-step semantics of a core language, that jedi\'s argument binding equals Python\'s, MRO agreement on single inheritance + vm_compute correspondence with Script.infer and CPython execution',
            'Theorems (6, closed): for ALL programs of a core language (assignments, tuples, constant indexing, conditionals on opaque inputs, defs with defaults/*args/keyword-only/**kwargs, calls, classes) eval p = Some v implies tag(v) is in ainfer p (soundness), and ainfer = [tag v] when no conditional is involved (exactness); a line-by-line transcription of get_executed_param_names_and_issues returns the binding of Python\'s call binding whenever Python binds (hypothesis shown necessary by a witness); '
            'jedi\'s depth-first MRO = C3 on every single-inheritance hierarchy, refuted on the diamond. Tied to /repo per run: generated core-language programs executed by CPython (type() of every use = ground truth) and queried with Script.infer at every use; Coq evaluates both evaluators on the same programs and must reproduce both; binding matrix vs inspect.Signature.bind and real calls; class hierarchies vs type.__mro__; a model-free differential stream (execute vs infer) over the documented feature list. '
            'Deviations are accepted only under classifiers computed from the program (diamond MRO with the model-predicted wrong definer, starred targets, except-as binding, super().__init__ arguments).',
            'Coq kernel + vm_compute; the engine beyond the core language (decorators, generators, closures, properties, comprehensions, imports) is covered by the model-free differential stream only (partial there); builtin return types are unknown without typeshed.'),
    'C06': ('Coq proof of inline\'s parenthesisation rule against a derivation-relation model of the expression grammar, the substitution lemma for extract-then-inline and meaning preservation + vm_compute correspondence with inline/extract_variable and compile()/execution of old vs new programs',
            'Theorems (14, closed): the grammar (as a derivation relation over token lists with explicit parentheses nodes) derives exactly the prints of well-formed trees; replacing a name token by ( rhs ) is always derivable in the same slot and denotes e[x := r]; jedi\'s present rule (_INLINE_NEEDS_PARENTHESES + tuple + trailer cases) writes a text that derives the inlined tree in the same slot and means e[x := r] for every tree, every test-level right-hand side and every parent type except dictorsetmaker (refutation witness {**x}: open finding); '
            'the pre-fix rule refuted (1 if a else 2 if b else 3 evaluates differently) and shown sound above expr level; substitution lemma, inline meaning preservation, extract-then-inline identity modulo parentheses, a name fits every slot, inline_text is a token splice. Tied to /repo per run: an exhaustive slot x right-hand-side matrix (~1400 tiny programs) and seeded executable programs through inline / extract_variable / extract_function: every result must be RefactoringError or compile; '
            'under ast-decided side conditions old and new program are executed (same trace); per rewritten line Coq checks inline_text new_rule = the tokens jedi wrote, parents = real parent types, wf of the inlined tree, is_extraction for extract_variable; extract then inline round trip.',
            'Coq kernel + vm_compute; selection normalisation and extract_function (inputs/outputs/insertion) are oracle-only (partial there: 20 listed findings with input-computed classifiers).'),
    'C08': ('Coq proof over all edit/query/tick/evict histories of the cache-keying state machine (parser cache, version-keyed derived caches, per-Script memo, time-limited signature cache) + vm_compute correspondence and history-vs-fresh-process differential on edit sessions',
            'Theorems (11, closed): every derived-cache entry reachable through the cache item currently stored under a key was computed from the tree stored under it; with version keying, per-Script memo and the proviso reparse = parse, after ANY history the answer to every query equals the one-Script answer (history independence) for derived data and for signatures whose key holds a Match object; a time-cache hit returns a value computed for the same path/text component/bracket position less than the validity ago; path-less buffers are never time-cached; fresh after the validity; '
            'refutations: the REAL key degenerates for multi-line calls (open finding, predicted by the model), and the variants keyed by path / shared memo / textual key / without the proviso are history dependent. Tied to /repo per run: edit sessions of 1..30 steps (20 edit kinds; with path, on disk, path-less, two buffers) run in ONE process with an explicit clock, every query answer after every step compared with a fresh process on the same text; the cache keys/hits observed by wrapping the stores are compared with the model in Coq; parso proviso checked per step.',
            'Coq kernel + vm_compute; parser and engine are abstract section variables of the model; queries that crash on both sides with a stack overflow on one side (typeshed-less K1 cycle) are counted, not compared.'),
    'C09': ('Coq proof over all file-system histories with explicit mtimes of the parso/importlib cache-validation state machine (fresh under monotone time from any valid state; stale only when one of three computed flags fires) + vm_compute correspondence with real jedi under controlled mtimes across processes',
            'Theorems (8, closed): for every history of writes, deletes, renames, module<->package swaps, queries, helper restarts and process restarts, if time is strictly monotone the answers equal the specification run (= a run from empty caches), from the initial or any valid bounded state; without any timestamp assumption an answer not flagged by one of the three classifier rules (same-or-older mtime, mtime not after pickle, directory mtime unchanged) equals the specified one; three computed staleness witnesses; the module cache must be per Script (shared variant refuted). '
            'Tied to /repo per run: generated histories driven against real jedi with os.utime-controlled mtimes, long-lived helper, new processes sharing the cache directory; every answer compared with C09_DiskCache.run in Coq (including the predicted stale answers, which are the three listed known findings).',
            'Coq kernel + vm_compute; parso pickle format and importlib FileFinder are modelled, not verified; time granularity is explicit input.'),
    'C12': ('Coq proof of the import-routing decision table and of the sys.path swap/restore of the helper for every request sequence and exit + per-run static enumeration (ast) of every import/exec site in /repo/jedi against the table and sentinel projects',
            'Theorems (11, closed): with load_unsafe_extensions off every directory searched by a compiled import lies in the environment path (never a project directory); the table executes iff auto-import name or source-less module, a module with source is parsed; after load_module/get_module_info sys.path is restored for ANY effect of the call and any exit (return, ImportError, Exception, BaseException), and the import sees exactly the argument; for every request sequence the routing can produce the final sys.path is unchanged and only environment directories are searched; refutations: flag on searches the project, restore without finally leaks; the executing sites are exactly the two modelled __import__s. '
            'Tied to /repo per run: every call of __import__/import_module/exec/eval/compile/spec loaders in /repo/jedi is enumerated with ast and must be a site of the table (new sites fail the check); sentinel projects whose modules record execution on import are queried through every API method with the flag off/on, subprocess and interpreter environments; sys.path of the helper observed before/after each request and compared with the model in Coq.',
            'Coq kernel + vm_compute; the static enumeration is syntactic (dynamic getattr-based imports would be missed); project.json opt-in from the analysed tree is a listed open finding.'),
    'C13': ('Coq proof on an object-graph heap model that getattr_static + is_allowed_getattr + the safe compiled filter run no user descriptor/hook under stated hypotheses (each shown necessary), safe item/iteration rule, dir coverage + vm_compute correspondence on generated live object graphs with hook counters',
            'Theorems (14, closed): _check_class = _PyType_Lookup (no metaclass shadowing __dict__); for instances getattr_static = (a, False) and no user __getattribute__ implies getattr runs no hook and returns a; for class objects only under meta_harmless (refutation: property on the metaclass - open finding); the safe-mode filter yields only empty/annotation names for non-allowed descriptors and whatever name it hands out, inferring it runs no Python __get__; py__simple_getitem__/py__iter__list touch the live object only for the six exact builtin container types; refutations for iter()/bool() probes and the isinstance-based getitem_all_values (open findings); values() covers dir() exactly; static hits are in dir. '
            'Tied to /repo per run: generated live object graphs (descriptors with/without __set__/__delete__, properties, slots, metaclasses, dynamic classes, builtin subclasses, instance dict shadows) with call counters on every hook: getattr_static, is_allowed_getattr, CompiledValueFilter (both modes), DirectObjectAccess item/iter/dir and Interpreter completions compared with the model in Coq; any counter hit in safe mode is a failing input.',
            'Coq kernel + vm_compute; C-level slots of builtin types are axiomatised in the heap encoding (what the types are is read from the live objects); __annotations__ is not queried (lazily materialised by CPython).'),
    'C16': ('Coq proof that infer/goto/get_references outputs are functions of the result set (sort key injective on well-formed names), completion order characterised (independent iff no key ties), transient engine flags restored on every exit, memo semantics + vm_compute correspondence and differential runs across PYTHONHASHSEED, heap perturbation and query permutations',
            'Theorems (24, closed): equal sort keys imply equal names (well-formed, one state; refuted at (0,0)/None); infer output is the same list for any two enumerations of the same set under coherence, identity fields determined without it (survivor payload refuted: open finding); get_references is a sorted permutation and a function of the multiset; goto set-equal; signatures order is enumeration order (refuted: open finding); completion = stable sort of survivors, order independent iff no ties (two refutations: open findings); all transients restored for every nesting and raise point; trace replay; memo default survives an exception and memo ignores flow mode (refutations: open findings). '
            'Tied to /repo per run: the same queries on generated and corpus programs in subprocesses under several PYTHONHASHSEEDs, allocator perturbation, reversed set iteration of the inferred value sets and permuted query order; sort keys and de-duplication captured from the real functions compared with the model in Coq; engine flags (flow analysis, is_analysis, dynamic params depth, recursion detectors) snapshotted before/after every query including raising ones.',
            'Coq kernel + vm_compute; where a hash order could enter outside the modelled sort/dedupe sites is explored only by the differential stream (partial there).'),
}

# second tie (round 2): the anchored function itself is translated from /repo on every run and proved equal to the model
TIE = {
    'C01': ('validate_line_column\'s wrapper', 'gen_validate_eq'),
    'C04': ('_start_match/_fuzzy_match/match, Completion._complete and get_completion_prefix_length', 'gen_start_match_eq, gen_fuzzy_match_eq, gen_match_eq, gen_complete_eq, gen_prefix_length_eq'),
    'C06': ('the constants EXPRESSION_PARTS/_INLINE_NEEDS_PARENTHESES', 'gen_rule_is_new_rule, gen_expression_parts_is_model, gen_rule_names_are_modelled'),
    'C11': ('CallDetails.calculate_index', 'gen_calculate_index_eq'),
    'C15': ('the four limits of recursion.py', 'gen_limits_are_documented_limits'),
    'C19': ('the constants _IGNORE_FOLDERS/_OPENED_FILE_LIMIT/_PARSED_FILE_LIMIT', 'gen_ignore_folders_and_limits'),
    'C20': ('_remove_duplicates_from_path', 'gen_remove_duplicates_eq'),
}

NOT_YET = {
}


def main():
    props = [json.loads(l) for l in open(os.path.join(V, 'properties.jsonl'))]
    checks, na = [], []
    for p in props:
        pid = p['id']
        if pid in CHECKS:
            tech, text, note = CHECKS[pid]
            if pid in TIE:
                what, ths = TIE[pid]
                text += (' Translator tie (also per run): harness/pytrans.py re-reads %s from /repo with ast, emits a Gallina definition, and the '
                         'committed GenProofs theorem(s) %s prove it equal to the model for ALL inputs (closed); a changed function breaks '
                         'the proof or is refused by the fail-closed translator, and the streams then search for the failing input.' % (what, ths))
                tech += ' + per-run translation of the anchored function to Gallina with a machine-checked equivalence to the model'
                note += ' Trusted in addition: the translator and coq/Base/PyPrims.v (compared with CPython on every run).'
            checks.append(dict(
                property_id=pid,
                quick_cmd='./check %s --tier quick' % pid,
                thorough_cmd='./check %s --tier thorough' % pid,
                evidence_file='/verif/evidence/%s.json' % pid,
                replay_cmd_template='./check %s --replay {path}' % pid,
                engine='coq-model+correspondence',
                level_claimed=dict(category='proof', text=text, design_ref='§' + pid),
                level_note=note,
                technique=tech))
        else:
            na.append(dict(property_id=pid, reason=NOT_YET.get(pid, 'check not built yet in this round (planned: see DESIGN.md §%s); not claimed until its check runs green on the unchanged tree' % pid)))
    m = dict(
        version=1,
        setup_cmd='./setup.sh',
        hooks=dict(guard='JEDI_VERIF', enable='no source hooks: checks import jedi from /repo with PYTHONPATH=/repo and wrap internals inside the harness process',
                   baseline_off_cmd='cd /repo && /venv/bin/python -m pytest -ra -q -p no:cacheprovider --timeout=900 --continue-on-collection-errors',
                   source_commits=[], add_only=True),
        engines=[dict(name='coq-model+correspondence', path='/verif/coq + /verif/harness',
                      serves_properties=[c['property_id'] for c in checks],
                      kind_free_text='Coq 8.16.1 development (Base/Model/Proofs/Props) + Python harness evaluating the model by vm_compute against the real jedi')],
        checks=checks,
        notes='Technique family: machine-checked proof in Coq 8.16.1 with hand-written models tied to /repo by per-run correspondence checks. See DESIGN.md.',
        not_applicable=na)
    with open(os.path.join(V, 'MANIFEST.json'), 'w') as f:
        json.dump(m, f, indent=1, ensure_ascii=False)
        f.write('\n')


if __name__ == '__main__':
    main()
