#!/bin/bash
# Run the upstream suite with the in-process interpreter environment (more tests can run
# in this sandbox that way) and print the sorted list of passed test ids.  Usage: widesuite.sh <repo dir> <out file>
cd "$1" && JEDI_TEST_ENVIRONMENT=interpreter /venv/bin/python -m pytest -q -p no:cacheprovider --timeout=900 --continue-on-collection-errors -rA 2>/dev/null | grep '^PASSED' | sort > "$2"
wc -l "$2"
