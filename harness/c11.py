"""C11 — signatures and docstrings mirror the definition; index locates the argument.

Streams
  grammar   every child sequence over {name, *name, **name, *, /} up to length 5: valid_children
            (model grammar) vs compile(); py_sig (model of Python's kinds) vs inspect.signature
  calc      CallDetails.calculate_index driven directly with stub parameter names and arbitrary
            argument triples (starred, key None, ill-ordered kinds) vs the transcribed calc_index
  sigs      every parameter list <= 4 over the five kinds x {default, annotation} (+ sampled up to 6)
            x callable forms through Script.get_signatures at `f(`: names, kinds, parameter strings,
            to_string vs inspect.signature / ast; get_kind and to_string models vs the real output
  index     parameter lists <= 4 (exhaustive for plain functions, sampled for the other forms and up
            to 6 parameters) x call prefixes of positional/keyword/starred arguments <= 3 (<= 5
            sampled) x cursor forms x layouts: .index/.bracket_start/_list_arguments() vs
            (a) calc_index on the captured triples, (b) the generator's intent triples,
            (c) CPython: inspect.Signature.bind_partial decides where the typed argument can bind;
            the specification `preferred` is evaluated on the intent and compared with CPython too
  wrapper   **kwargs pass-through wrappers: a call binds against the reported signature iff it runs
            without TypeError; *args pass-through (crashes without typeshed: known finding)
  doc       docstring shapes x {function, class, method}: docstring(raw=True) vs inspect.getdoc,
            docstring() vs the docstring model applied to the signature lines
"""
import ast
import inspect
import itertools
import json
import os
import resource
import time

import common
from common import g_str, g_bool, g_list, g_opt, g_N, g_nat

IMPORTS = 'From JV Require Import Base.Str Model.C11_Signature.\n'

FP = [('jedi/api/helpers.py', 'CallDetails.calculate_index'), ('jedi/api/helpers.py', '_iter_arguments'),
      ('jedi/api/helpers.py', 'get_signature_details'), ('jedi/api/helpers.py', '_get_signature_details_from_error_node'),
      ('jedi/api/classes.py', 'Signature.index'), ('jedi/api/classes.py', 'Signature.bracket_start'),
      ('jedi/api/classes.py', 'BaseSignature.params'), ('jedi/api/classes.py', 'BaseName.docstring'),
      ('jedi/api/classes.py', 'BaseName._get_docstring_signature'),
      ('jedi/inference/signature.py', '_SignatureMixin.to_string'), ('jedi/inference/signature.py', 'TreeSignature.get_param_names'),
      ('jedi/inference/signature.py', 'TreeSignature.bind'),
      ('jedi/inference/names.py', '_ActualTreeParamName.get_kind'), ('jedi/inference/names.py', 'BaseTreeParamName.to_string'),
      ('jedi/inference/names.py', 'BaseTreeParamName.get_public_name'), ('jedi/inference/names.py', 'TreeNameDefinition.py__doc__'),
      ('jedi/inference/star_args.py', 'process_params'), ('jedi/inference/star_args.py', '_remove_given_params'),
      ('jedi/parser_utils.py', 'clean_scope_docstring'), ('jedi/parser_utils.py', 'safe_literal_eval')]

KINDS = ['PO', 'PK', 'VP', 'KO', 'VK']
PO, PK, VP, KO, VK = range(5)
NAMES = ['a', 'ab', 'b', 'c', 'ac', 'd']

DEFS = '''
Definition opt_nat_eqb (a b : option nat) : bool :=
  match a, b with Some x, Some y => Nat.eqb x y | None, None => true | _, _ => false end.
(* monomorphic constructors: case files elaborate without unification variables *)
Definition P_ (n : str) (k : kind) : param := mkParam n k.
Definition A_ (sc : N) (k : option str) (he : bool) : arg := (sc, k, he).
Definition SS (s : str) : option str := Some s.
Definition NS : option str := None.
Definition SN (n : nat) : option nat := Some n.
Definition NN : option nat := None.
Definition E_ : str := nil.
Definition NP : list param := nil.
Definition NA : list arg := nil.
Definition NC : list child := nil.
Definition NR : list rparam := nil.
Definition NL : list str := nil.
Definition C_ (sc : N) (n : str) : child := CParam sc n.
Definition R_ (n : str) (k : kind) (a d : option str) : rparam := mkR n k a d.
Inductive tcase :=
| TG (cs : list child) (v : bool) (ps : list param)
| TI (ps : list param) (args : list arg) (o : option nat)
| TK (cs : list child) (k : nat) (ps : list param)
| TY (cs : list child) (ps : list param)
| TS (f : str) (rps : list rparam) (ret : option str) (s : str)
| TP (ps : list param) (args : list arg) (o : option nat)
| TD (sigs : list str) (raw full : str).
Definition run_case (c : tcase) : bool :=
  match c with
  | TG cs v ps => Bool.eqb (valid_children cs) v &&
                  (negb v || (params_eqb (py_sig cs) ps && params_eqb (jedi_sig cs) ps))
  | TI ps args o => opt_nat_eqb (calc_index ps args) o
  | TK cs k ps => params_eqb (skipn k (jedi_sig cs)) ps
  | TY cs ps => valid_children cs && params_eqb (py_sig cs) ps
  | TS f rps ret s => str_eqb (to_string f rps ret) s
  | TP ps args o => rebinding ps args || opt_nat_eqb (preferred ps args) o
  | TD sigs raw full => str_eqb (docstring (docstring_signature sigs) raw false) full &&
                        str_eqb (docstring (docstring_signature sigs) raw true) raw
  end.
(* flat wire format (a case is a list of fields, a field a list of numbers): elaborates ~4x faster *)
Definition kind_of_N (n : N) : kind :=
  match n with 0 => PO | 1 => PK | 2 => VP | 3 => KO | _ => VK end%N.
Definition dec_param (f : list N) : param := mkParam (tl f) (kind_of_N (hd 0%N f)).
Definition dec_opt (f : list N) : option str :=
  match f with nil => None | h :: s => if N.eqb h 0 then None else Some s end.
Definition dec_arg (f : list N) : arg :=
  match f with
  | sc :: he :: key => (sc, dec_opt key, negb (N.eqb he 0))
  | _ => no_arg
  end.
Definition dec_child (f : list N) : child :=
  match f with
  | c :: sc :: name => if N.eqb c 0 then CParam sc name else if N.eqb c 1 then CStar else if N.eqb c 2 then CSlash else COther
  | _ => COther
  end.
Fixpoint dec_rparams (n : nat) (fs : list (list N)) : list rparam :=
  match n with
  | O => nil
  | S n' => match fs with
            | a :: b :: c :: rest => mkR (tl a) (kind_of_N (hd 0%N a)) (dec_opt b) (dec_opt c) :: dec_rparams n' rest
            | _ => nil
            end
  end.
Definition dec_case (c : list (list N)) : option tcase :=
  match c with
  | (tag :: n1 :: n2 :: oh :: ov :: _) :: rest =>
      let a := N.to_nat n1 in
      let b := N.to_nat n2 in
      let o := if N.eqb oh 0 then None else Some (N.to_nat ov) in
      let f1 := firstn a rest in
      let f2 := firstn b (skipn a rest) in
      match tag with
      | 0 => Some (TG (map dec_child f1) (negb (N.eqb oh 0)) (map dec_param f2))
      | 1 => Some (TI (map dec_param f1) (map dec_arg f2) o)
      | 2 => Some (TK (map dec_child f1) (N.to_nat ov) (map dec_param f2))
      | 3 => Some (TY (map dec_child f1) (map dec_param f2))
      | 4 => match rest with
             | fname :: ret :: obs :: rps => Some (TS fname (dec_rparams a rps) (dec_opt ret) obs)
             | _ => None
             end
      | 5 => Some (TP (map dec_param f1) (map dec_arg f2) o)
      | 6 => match rest with
             | raw :: full :: sigs => Some (TD (firstn a sigs) raw full)
             | _ => None
             end
      | _ => None
      end%N
  | _ => None
  end.
Definition run_flat (c : list (list N)) : bool :=
  match dec_case c with Some t => run_case t | None => false end.
'''

WHAT = dict(
    TG='specification side: valid_children/py_sig (model of the parameter grammar and of the kinds Python assigns) disagree '
       'with compile()/inspect.signature, or jedi_sig differs from inspect on a dunder-free list',
    TIc='correspondence calc_index: CallDetails.calculate_index (called directly with stub parameter names) differs from the transcription',
    TI='correspondence calc_index: Signature.index differs from calc_index(parameters as seen by calculate_index, captured _list_arguments())',
    TK='correspondence get_kind/get_public_name: reported (name, kind) differ from jedi_sig(parso children of the definition)',
    TY='specification side: py_sig(parso children) differs from inspect.signature of the executed definition',
    TS='correspondence to_string: Signature.to_string() differs from the transcription',
    TP='specification side: preferred(parameters, typed prefix) differs from the target CPython (bind_partial) prefers',
    TD='correspondence docstring: docstring() differs from the assembly of signature lines and raw docstring')
SHOW = dict(
    TG="(valid_children {0}, py_sig {0}, jedi_sig {0})", TI="calc_index {0} {1}", TIc="calc_index {0} {1}",
    TK="skipn {1} (jedi_sig {0})", TY="(valid_children {0}, py_sig {0})", TS="to_string {0} {1} {2}",
    TP="(preferred {0} {1}, rebinding {0} {1})", TD="docstring (docstring_signature {0}) {1} false")


class CoqCases:
    """cases are kept as Python data: `flat()` gives the wire format evaluated in bulk, `show()` the
    structured Gallina term used when a failing case is printed"""
    def __init__(self):
        self.items = []     # (tag, data tuple, meta)
        self.seen = set()

    def add(self, tag, data, meta):
        key = (tag, repr(data))
        if key in self.seen:
            return
        self.seen.add(key)
        self.items.append((tag, data, meta))


def _f(nums):
    return '[' + ';'.join(str(int(x)) for x in nums) + ']'


def _fs(s):
    return [ord(c) for c in s]


def _fopt(s):
    return [0] if s is None else [1] + _fs(s)


def _fparams(ps):
    return [_f([p[1]] + _fs(p[0])) for p in ps]


def _fargs(args):
    return [_f([a[0], 1 if a[2] else 0] + _fopt(a[1])) for a in args]


def _fchildren(cs):
    out = []
    for c in cs:
        if c[0] == 'P':
            out.append(_f([0, c[1]] + _fs(c[2])))
        else:
            out.append(_f([{'*': 1, '/': 2, 'o': 3}[c[0]], 0]))
    return out


def flat(tag, d):
    if tag == 'TG':
        cs, v, ps = d
        fields = [_f([0, len(cs), len(ps), 1 if v else 0, 0])] + _fchildren(cs) + _fparams(ps)
    elif tag in ('TI', 'TP'):
        ps, args, o = d
        fields = [_f([1 if tag == 'TI' else 5, len(ps), len(args), 0 if o is None else 1, o or 0])] + _fparams(ps) + _fargs(args)
    elif tag == 'TK':
        cs, k, ps = d
        fields = [_f([2, len(cs), len(ps), 0, k])] + _fchildren(cs) + _fparams(ps)
    elif tag == 'TY':
        cs, ps = d
        fields = [_f([3, len(cs), len(ps), 0, 0])] + _fchildren(cs) + _fparams(ps)
    elif tag == 'TS':
        fname, rps, ret, obs = d
        fields = [_f([4, len(rps), 0, 0, 0]), _f(_fs(fname)), _f(_fopt(ret)), _f(_fs(obs))]
        for r in rps:
            fields += [_f([r[1]] + _fs(r[0])), _f(_fopt(r[2])), _f(_fopt(r[3]))]
    elif tag == 'TD':
        sigs, raw, full = d
        fields = [_f([6, len(sigs), 0, 0, 0]), _f(_fs(raw)), _f(_fs(full))] + [_f(_fs(x)) for x in sigs]
    else:
        raise ValueError(tag)
    return '[' + ';'.join(fields) + ']%N'


def show_args(tag, d):
    if tag == 'TG':
        return (g_children(d[0]), g_bool(d[1]), g_params(d[2]))
    if tag in ('TI', 'TP'):
        return (g_params(d[0]), g_args(d[1]), g_optnat(d[2]))
    if tag == 'TK':
        return (g_children(d[0]), str(d[1]), g_params(d[2]))
    if tag == 'TY':
        return (g_children(d[0]), g_params(d[1]))
    if tag == 'TS':
        return (gs(d[0]), g_rparams(d[1]), g_os(d[2]), gs(d[3]))
    if tag == 'TD':
        return (g_strs(d[0]), gs(d[1]), gs(d[2]))
    raise ValueError(tag)


# ------------------------------------------------------------------ Gallina printers
def gs(s):
    return 'E_' if s == '' else '[' + ';'.join(str(ord(c)) for c in s) + ']%N'


def g_os(s):
    return 'NS' if s is None else '(SS %s)' % gs(s)


def g_params(ps):
    return 'NP' if not ps else '[' + '; '.join('P_ %s %s' % (gs(p[0]), KINDS[p[1]]) for p in ps) + ']'


def g_args(args):
    return 'NA' if not args else '[' + '; '.join('A_ %d %s %s' % (a[0], g_os(a[1]), g_bool(a[2])) for a in args) + ']'


def g_children(cs):
    def one(c):
        if c[0] == 'P':
            return 'C_ %d %s' % (c[1], gs(c[2]))
        return {'*': 'CStar', '/': 'CSlash', 'o': 'COther'}[c[0]]
    return 'NC' if not cs else '[' + '; '.join(one(c) for c in cs) + ']'


def g_optnat(i):
    return 'NN' if i is None else '(SN %d)' % i


def g_rparams(rps):
    return 'NR' if not rps else '[' + '; '.join('R_ %s %s %s %s' % (gs(r[0]), KINDS[r[1]], g_os(r[2]), g_os(r[3])) for r in rps) + ']'


def g_strs(l):
    return 'NL' if not l else '[' + '; '.join(gs(x) for x in l) + ']'


# ------------------------------------------------------------------ generators
def kind_lists(maxn, minn=0):
    for n in range(minn, maxn + 1):
        for kinds in itertools.product(range(5), repeat=n):
            if list(kinds) != sorted(kinds) or kinds.count(VP) > 1 or kinds.count(VK) > 1:
                continue
            yield list(kinds)


def variants(kinds):
    """all (default?, annotation?) assignments Python accepts"""
    n = len(kinds)
    opts = []
    for k in kinds:
        opts.append([(False, False), (False, True)] if k in (VP, VK) else
                    [(False, False), (False, True), (True, False), (True, True)])
    for combo in itertools.product(*opts):
        seen_default = False
        ok = True
        for k, (d, a) in zip(kinds, combo):
            if k in (PO, PK):
                if d:
                    seen_default = True
                elif seen_default:
                    ok = False
        if ok:
            yield list(combo)


def mk_params(kinds, names=None, var=None, rng=None):
    names = names or NAMES
    ps = []
    for i, k in enumerate(kinds):
        d, a = var[i] if var else (False, False)
        default = None
        ann = None
        if d:
            default = ['1', "'x'", '23'][i % 3] if rng is None else rng.choice(['1', "'x'", '23', '-4', "'q r'"])
        if a:
            ann = ['int', 'str'][i % 2] if rng is None else rng.choice(['int', 'str', 'float'])
        ps.append(dict(name=names[i], kind=k, default=default, ann=ann))
    return ps


def render_params(ps, rng=None):
    parts = []
    any_po = any(p['kind'] == PO for p in ps)
    any_vp = any(p['kind'] == VP for p in ps)
    did_slash = did_star = False
    for p in ps:
        k = p['kind']
        if any_po and not did_slash and k != PO:
            parts.append('/')
            did_slash = True
        if k == KO and not did_star and not any_vp:
            parts.append('*')
            did_star = True
        s = {VP: '*', VK: '**'}.get(k, '') + p['name']
        sp = rng is not None and rng.random() < 0.3
        if p['ann'] is not None:
            s += (' : ' if sp else ': ') + p['ann']
        if p['default'] is not None:
            s += (' = ' if (sp or p['ann'] is not None and rng is not None and rng.random() < 0.5) else '=') + p['default']
        parts.append(s)
    if any_po and not did_slash:
        parts.append('/')
    return parts


FORMS = ['function', 'method', 'classmethod', 'staticmethod', 'init', 'wrapper']


def render_def(form, ps, doc=None, ret=None, rng=None, wrapper_own=False):
    """-> dict(src, call, bound, obj, raw, fname, defname)"""
    parts = render_params(ps, rng)
    multiline = rng is not None and rng.random() < 0.15 and parts

    def plist(first=None):
        items = ([first] if first else []) + parts
        if multiline:
            return '\n        ' + ',\n        '.join(items) + '\n    '
        return ', '.join(items)
    r = (' -> ' + ret) if ret else ''
    if form == 'function':
        body = ('    %s\n' % doc if doc else '') + '    return 1\n'
        return dict(src='def f(%s)%s:\n%s' % (plist(), r, body), call='f', bound=0, obj="g['f']", raw="g['f']",
                    fname='f', defname='f')
    if form == 'wrapper':
        # wrapper_own: False/True (own leading parameter) or a variant name
        variant = wrapper_own if isinstance(wrapper_own, str) else ('own' if wrapper_own else 'plain')
        gdef = 'def g(%s)%s:\n    return 1\n' % (plist(), r)
        raw = "g['g']"
        if variant == 'own':
            src = gdef + 'def f(w0, **kwargs):\n    return g(**kwargs)\n'
        elif variant.startswith('given:'):
            src = gdef + 'def f(**kwargs):\n    return g(%s=0, **kwargs)\n' % variant.split(':', 1)[1]
        elif variant == 'deco':
            src = ('def deco(fn):\n    def w(**kwargs):\n        return fn(**kwargs)\n    return w\n@deco\n'
                   'def f(%s)%s:\n    return 1\n' % (plist(), r))
            raw = "g['f'].__closure__[0].cell_contents"
        elif variant == 'wraps':
            src = ('import functools\ndef deco(fn):\n    @functools.wraps(fn)\n    def w(**kwargs):\n        return fn(**kwargs)\n'
                   '    return w\n@deco\ndef f(%s)%s:\n    return 1\n' % (plist(), r))
            raw = "g['f'].__wrapped__"
        elif variant == 'class':
            src = ('class G:\n    def __init__(%s):\n        self.v = 1\ndef f(**kwargs):\n    return G(**kwargs)\n' % plist('self'))
            raw = "g['G']"
        elif variant == 'method':
            src = ('class G:\n    def m(%s)%s:\n        return 1\ndef f(**kwargs):\n    return G().m(**kwargs)\n' % (plist('self'), r))
            raw = "g['G']().m"
        else:
            src = gdef + 'def f(**kwargs):\n    return g(**kwargs)\n'
        return dict(src=src, call='f', bound=0, obj="g['f']", raw=raw, fname='f', defname='g', variant=variant)
    head = 'class C:\n'
    if form == 'method':
        body = ('        %s\n' % doc if doc else '') + '        return 1\n'
        return dict(src=head + '    def m(%s)%s:\n%s' % (plist('self'), r, body) + 'c = C()\n', call='c.m', bound=1,
                    obj="g['c'].m", raw="g['C'].__dict__['m']", fname='m', defname='m')
    if form == 'classmethod':
        return dict(src=head + '    @classmethod\n    def m(%s)%s:\n        return 1\n' % (plist('cls'), r), call='C.m',
                    bound=1, obj="g['C'].m", raw="g['C'].__dict__['m'].__func__", fname='m', defname='m')
    if form == 'staticmethod':
        return dict(src=head + '    @staticmethod\n    def m(%s)%s:\n        return 1\n' % (plist(), r), call='C.m',
                    bound=0, obj="g['C'].m", raw="g['C'].__dict__['m'].__func__", fname='m', defname='m')
    if form == 'init':
        return dict(src=head + ('    %s\n' % doc if doc else '') + '    def __init__(%s):\n        self.v = 1\n' % plist('self'),
                    call='C', bound=1, obj="g['C']", raw="g['C'].__dict__['__init__']", fname='C', defname='__init__')
    raise ValueError(form)


# before items: ('P',) ('K', name) ('S1',) ('S2',);  cursor: ('E', pre) ('K', n) ('KV', n) ('L',) ('S1', pre) ('S2', pre)
POS_TEXTS = ['1', "'s'", 'xv', '(1, 2)', 'g0(3)', '-1', 'xv.y', '[1]', 'xv[0]', '1 + 2']


def intent_triples(before, cur):
    t = []
    for b in before:
        if b[0] == 'P':
            t.append((0, '', False))
        elif b[0] == 'K':
            t.append((0, b[1], True))
        elif b[0] == 'S1':
            t.append((1, 'xs', False))
        else:
            t.append((2, 'kws', False))
    c = cur[0]
    if c == 'E':
        t.append((0, cur[1], False))
    elif c in ('K', 'KV'):
        t.append((0, cur[1], True))
    elif c == 'L':
        t.append((0, None, False))
    elif c == 'S1':
        t.append((1, cur[1], False))
    else:
        t.append((2, cur[1], False))
    return t


def render_call(callee, before, cur, layout='plain', rng=None):
    """-> (text before cursor incl. callee, text after cursor, column offset of `(` in its line, line offset)"""
    items = []
    for b in before:
        if b[0] == 'P':
            items.append('1' if rng is None else rng.choice(POS_TEXTS))
        elif b[0] == 'K':
            items.append('%s=%s' % (b[1], '1' if rng is None else rng.choice(['1', "'v'", 'xv', '(1, 2)', 'g0(x=1)'])))
        elif b[0] == 'S1':
            items.append('*xs')
        else:
            items.append('**kws')
    c = cur[0]
    after = ''
    if c == 'E':
        last = cur[1]
    elif c == 'K':
        last = cur[1] + '='
    elif c == 'KV':
        last = cur[1] + '=2'
    elif c == 'L':
        last = '3' if rng is None else rng.choice(['3', "'t'", '(4)', '-5', '1.5'])
    elif c == 'S1':
        last = '*' + cur[1]
    else:
        last = '**' + cur[1]
    head = ''
    sep = ', '
    if layout == 'assign':
        head = 'r = '
    elif layout == 'nested':
        head = 'h0(0, '
    elif layout == 'spaces':
        sep = ' , '
    elif layout == 'multiline':
        sep = ',\n    '
    elif layout == 'closed':
        after = ')\ny0 = 2\n'
    elif layout == 'mid' and c == 'E':
        after = 'q=1)\n'           # cursor inside the name of a complete keyword argument
    elif layout == 'mideq' and c == 'E' and cur[1]:
        after = '=1)\n'            # cursor between the name and `=`
    elif layout == 'mid' and c == 'K':
        after = '2)\n'             # cursor between `=` and the value
    elif layout in ('mid', 'mideq'):
        after = ')\n'
    text = head + callee + '(' + sep.join(items + [last])
    if layout == 'spaces':
        text = head + callee + '( ' + sep.join(items + [last])
    return text, after, len(head) + len(callee)


# ------------------------------------------------------------------ worker
def _children_of(module, defname):
    for fd in module.iter_funcdefs():
        if fd.name.value == defname:
            return fd
    for cls in module.iter_classdefs():
        for fd in cls.iter_funcdefs():
            if fd.name.value == defname:
                return fd
    return None


def _ser_children(fd):
    out = []
    for c in fd.children[2].children:
        if c.type == 'param':
            out.append(('P', c.star_count, c.name.value))
        elif c.type == 'operator' and c.value == '*':
            out.append(('*',))
        elif c.type == 'operator' and c.value == '/':
            out.append(('/',))
        else:
            out.append(('o',))
    return out


class _Sent:
    pass


_DFLT = _Sent()


def make_probe(sig):
    """A function with the same parameters (names, kinds, order) in which every parameter is optional
    and whose body returns its locals: calling it IS CPython's argument binding, and partial calls run."""
    parts, seen_kwonly_marker = [], False
    plist = list(sig.parameters.values())
    for i, p in enumerate(plist):
        if p.kind == p.VAR_POSITIONAL:
            parts.append('*' + p.name)
            seen_kwonly_marker = True
        elif p.kind == p.VAR_KEYWORD:
            parts.append('**' + p.name)
        else:
            if p.kind == p.KEYWORD_ONLY and not seen_kwonly_marker:
                parts.append('*')
                seen_kwonly_marker = True
            parts.append(p.name + '=_D')
        if p.kind == p.POSITIONAL_ONLY and (i + 1 == len(plist) or plist[i + 1].kind != p.POSITIONAL_ONLY):
            parts.append('/')
    g = {'_D': _DFLT}
    exec('def probe(%s):\n    return dict(locals())\n' % ', '.join(parts), g)
    return g['probe']


def py_binding(sig, before, cur):
    """Where CPython binds the argument under the cursor (star-free prefixes), by running calls."""
    SENT = _Sent()
    if any(b[0] in ('S1', 'S2') for b in before) or cur[0] in ('S1', 'S2'):
        return dict(status='starred')
    pos, kws, seen_kw = [], {}, False
    for b in before:
        if b[0] == 'P':
            if seen_kw:
                return dict(status='doomed')      # SyntaxError: positional argument follows keyword argument
            pos.append(0)
        else:
            seen_kw = True
            if b[1] in kws:
                return dict(status='doomed')      # SyntaxError: keyword argument repeated
            kws[b[1]] = 0
    probe = make_probe(sig)
    try:
        probe(*pos, **kws)
    except TypeError:
        return dict(status='doomed')
    plist = list(sig.parameters.values())

    def where(new_pos=False, new_kw=None):
        if new_kw is not None and new_kw in kws:
            return None   # keyword argument repeated: SyntaxError
        try:
            kw2 = dict(kws)
            if new_kw is not None:
                kw2[new_kw] = SENT
            loc = probe(*(pos + ([SENT] if new_pos else [])), **kw2)
        except TypeError:
            return None
        for i, p in enumerate(plist):
            v = loc[p.name]
            if v is SENT:
                return i
            if p.kind == p.VAR_POSITIONAL and any(x is SENT for x in v):
                return i
            if p.kind == p.VAR_KEYWORD and any(x is SENT for x in v.values()):
                return i
        return None
    c = cur[0]
    post = None
    targets = set()
    if c in ('K', 'KV'):
        t = where(new_kw=cur[1])
        if t is not None:
            targets.add(t)
        pref = t
    elif c == 'L':
        post = None if seen_kw else where(new_pos=True)
        if post is not None:
            targets.add(post)
        pref = post
    else:
        pre = cur[1]
        post = None if seen_kw else where(new_pos=True)
        kwt = []
        for p in plist:
            if p.name.startswith(pre):
                t = where(new_kw=p.name)
                if t is not None:
                    kwt.append(t)
        t = where(new_kw=pre + '_zq')
        if t is not None:
            kwt.append(t)
        targets = set(kwt)
        if post is not None:
            targets.add(post)
        pref = post if post is not None else (min(kwt) if kwt else None)
    return dict(status='ok', targets=sorted(targets), pos=post, pref=pref)


def _sig_strings(sig, bound_first=None):
    out = []
    for p in sig.parameters.values():
        s = {p.VAR_POSITIONAL: '*', p.VAR_KEYWORD: '**'}.get(p.kind, '') + p.name
        if p.annotation is not p.empty:
            s += ': ' + getattr(p.annotation, '__name__', repr(p.annotation))
        if p.default is not p.empty:
            s += '=' + repr(p.default)
        out.append((p.name, int(p.kind), s))
    return out


def _args_dump(text):
    fn = ast.parse('def ' + text + ': pass').body[0]
    return ast.dump(fn.args) + '|' + (ast.dump(fn.returns) if fn.returns else '')


def _task(t):
    import jedi
    res = dict(calls=[], oracle=None, sigview=None, consistent=True)
    g = {'__name__': 'm0'}
    try:
        exec(compile(t['src'], '<c11>', 'exec'), g)
        obj = eval(t['obj'], {'g': g})
        raw = eval(t['raw'], {'g': g})
        sig = inspect.signature(obj)
        rsig = inspect.signature(raw)
        if t.get('kw_wrapper'):
            # what reaches the wrapped callable through **kwargs: its keyword-capable parameters, as keyword-only
            # (validated by the wrapper stream: a call binds against the reported signature iff it runs)
            P = inspect.Parameter
            sig = inspect.Signature([p.replace(kind=P.KEYWORD_ONLY) if p.kind in (P.POSITIONAL_OR_KEYWORD, P.KEYWORD_ONLY) else p
                                     for p in rsig.parameters.values() if p.kind not in (P.POSITIONAL_ONLY, P.VAR_POSITIONAL)])
        res['oracle'] = dict(params=_sig_strings(sig), raw_params=_sig_strings(rsig),
                             sig_text=t['fname'] + str(sig), ok=True)
    except Exception as e:
        res['oracle'] = dict(ok=False, err=repr(e))
        sig = None
        obj = None
    base_lines = t['src'].count('\n')
    for ci, call in enumerate(t['calls']):
        text, after = call['text'], call['after']
        full = t['src'] + text + after
        tl = text.split('\n')
        line, col = base_lines + len(tl), len(tl[-1])
        out = {}
        try:
            script = jedi.Script(full)
            sigs = script.get_signatures(line, col)
            out['nsig'] = len(sigs)
            if sigs:
                s = sigs[0]
                out['index'] = s.index
                out['bracket'] = list(s.bracket_start)
                out['triples'] = [list(x) for x in s._call_details._list_arguments()]
                view = dict(api=[(p.name, int(p.kind), p.to_string()) for p in s.params],
                            int=[(n.string_name, int(n.get_kind())) for n in s._signature.get_param_names(resolve_stars=True)],
                            to_string=s.to_string(), name=s.name)
                if res['sigview'] is None:
                    res['sigview'] = view
                    if t.get('children'):
                        fd = _children_of(script._module_node, t['defname'])
                        res['children'] = _ser_children(fd) if fd is not None else None
                elif view != res['sigview']:
                    res['consistent'] = False
                    out['view'] = view
        except Exception as e:
            out['exc'] = common.exc_sig(e)
        if sig is not None and call.get('before') is not None:
            try:
                out['py'] = py_binding(sig, call['before'], call['cur'])
            except Exception as e:
                out['py'] = dict(status='oracle-error', err=repr(e))
        res['calls'].append(out)
    if t.get('probe_calls') and obj is not None:
        # wrapper oracle: which concrete calls run without TypeError
        runs = []
        for (pa, ka) in t['probe_calls']:
            try:
                obj(*pa, **dict(ka))
                runs.append(True)
            except TypeError:
                runs.append(False)
        res['runs'] = runs
    return res


def _doc_task(t):
    import jedi
    res = {}
    g = {'__name__': 'm0'}
    exec(compile(t['src'], '<c11doc>', 'exec'), g)
    obj = eval(t['obj'], {'g': g})
    res['getdoc'] = inspect.getdoc(obj) or ''
    try:
        res['pysig'] = t['fname'] + str(inspect.signature(obj))
    except Exception as e:
        res['pysig'] = None
    try:
        script = jedi.Script(t['src'])
        names = script.infer(*t['pos'])
        res['n'] = len(names)
        if names:
            n = names[0]
            res['raw'] = n.docstring(raw=True)
            res['full'] = n.docstring()
            res['sigs'] = [s.to_string() for s in n.get_signatures()]
        # and through get_signatures
        src2 = t['src'] + t['call'] + '('
        ls = src2.split('\n')
        sg = jedi.Script(src2).get_signatures(len(ls), len(ls[-1]))
        if sg:
            res['sraw'] = sg[0].docstring(raw=True)
            res['sfull'] = sg[0].docstring()
            res['s_to_string'] = sg[0].to_string()
    except Exception as e:
        res['exc'] = common.exc_sig(e)
    return res


def _batch(b):
    out = []
    for t in b:
        out.append(_doc_task(t) if t.get('kind') == 'doc' else _task(t))
    return out


# ------------------------------------------------------------------ checking one definition's results
def dunder_prediction(exp):
    """what the model predicts jedi reports for a signature with __x names (typeshed convention):
    positional-only, `__` stripped"""
    pred = []
    for (n, k, s) in exp:
        m = n
        if n.startswith('_C__'):
            m = n[2:]
        if m.startswith('__'):
            base = m[2:]
            stars = s[:len(s) - len(s.lstrip('*'))]
            rest = s.lstrip('*')[len(n):]
            pred.append((base, k if k in (VP, VK) else PO, stars + base + rest))
        else:
            pred.append((n, k, s))
    return pred


def check_signature(ctx, stream, form, ps, view, orc, where):
    """names/kinds/parameter strings/to_string against inspect + ast."""
    ok = True
    api = [tuple(x) for x in view['api']]
    exp = [tuple(x) for x in orc['params']]
    dunder = any(p['name'].startswith('__') for p in ps)
    if api != exp:
        ok = False
        cls = 'signature-mismatch'
        if dunder and sorted((a[0], a[1]) for a in api) == sorted((p[0], p[1]) for p in dunder_prediction(exp)):
            cls = 'dunder-positional-only'
        ctx.deviation(dict(stream=stream, cls=cls),
                      dict(where=where, reported=api, inspect=exp),
                      'get_signatures reports parameters %r; inspect.signature of the executed definition has %r' % (api, exp))
    try:
        a = _args_dump(view['to_string'])
        b = _args_dump(orc['sig_text'])
        if a != b and ok:
            ok = False
            ctx.deviation(dict(stream=stream, cls='to_string-reparse'),
                          dict(where=where, to_string=view['to_string'], inspect=orc['sig_text']),
                          'to_string() %r re-parses to a different signature than %r' % (view['to_string'], orc['sig_text']))
    except SyntaxError:
        ok = False
        ctx.deviation(dict(stream=stream, cls='to_string-syntax'), dict(where=where, to_string=view['to_string']),
                      'to_string() %r is not a parsable signature' % view['to_string'])
    return ok


def add_model_cases(coq, form, d, ps, ret, view, children):
    # get_kind: serialised parso children -> reported (public name, kind)
    if children and form != 'wrapper':
        coq.add('TK', ([tuple(c) for c in children], d['bound'], [(a[0], a[1]) for a in view['api']]),
                dict(form=form, source=d['src'], reported=view['api']))
    # to_string: names as in the source, kinds as reported, annotation/default text of the generator
    by = {p['name']: p for p in ps}
    rps = []
    for (n, k) in view['int']:
        if n not in by:
            return
        rps.append((n, k, by[n]['ann'], by[n]['default']))
    r = None if form in ('init', 'wrapper') else ret
    coq.add('TS', (view['name'], rps, r, view['to_string']),
            dict(form=form, source=d['src'], to_string=view['to_string']))


# ------------------------------------------------------------------ stream: grammar (no jedi)
def stream_grammar(ctx, coq):
    alpha = ['n', 's1', 's2', '*', '/']
    maxlen = ctx.n(4, 6)
    n_valid = 0
    for n in range(0, maxlen + 1):
        for combo in itertools.product(alpha, repeat=n):
            cs, parts = [('o',)], []
            for i, c in enumerate(combo):
                if c == 'n':
                    cs.append(('P', 0, 'p%d' % i)); parts.append('p%d' % i)
                elif c == 's1':
                    cs.append(('P', 1, 'p%d' % i)); parts.append('*p%d' % i)
                elif c == 's2':
                    cs.append(('P', 2, 'p%d' % i)); parts.append('**p%d' % i)
                elif c == '*':
                    cs.append(('*',)); cs.append(('o',)); parts.append('*')
                else:
                    cs.append(('/',)); parts.append('/')
            cs.append(('o',))
            src = 'def f(%s): pass' % ', '.join(parts)
            try:
                g = {}
                exec(compile(src, '<g>', 'exec'), g)
                valid = True
                insp = [(p.name, int(p.kind)) for p in inspect.signature(g['f']).parameters.values()]
            except SyntaxError:
                valid, insp = False, []
            n_valid += valid
            ctx.count('grammar', combo, nontrivial=valid)
            coq.add('TG', (cs, valid, insp), dict(source=src, valid=valid, inspect=insp))
    ctx.stat('grammar_valid', n_valid)
    ctx.sample(dict(stream='grammar', source='def f(p0, /, p2, *, p5, **p6): pass', valid=True))


# ------------------------------------------------------------------ stream: calc (direct, no Script)
class StubParam:
    def __init__(self, name, kind):
        self.string_name = name
        self._k = kind

    def get_kind(self):
        return inspect._ParameterKind(self._k)


def stream_calc(ctx, coq):
    from jedi.api import helpers
    opts = [(0, '', False), (0, None, False), (0, 'a', False), (0, 'a', True), (0, 'b', True), (0, 'zz', True),
            (1, '', False), (2, '', False), (1, 'xs', False), (2, 'kws', False), (0, 'ab', False), (0, 'ab', True)]
    plists = [[(NAMES[i], k) for i, k in enumerate(kl)] for kl in kind_lists(4)]
    # ill-ordered kind sequences too: the transcription must agree everywhere
    for _ in range(ctx.n(40, 300)):
        n = ctx.rng.randint(1, 5)
        plists.append([(ctx.rng.choice(NAMES[:4]), ctx.rng.randrange(5)) for i in range(n)])
    arglists = [[]] + [list(c) for n in (1, 2) for c in itertools.product(opts, repeat=n)]
    nbudget = ctx.n(4500, 45000)
    pairs = [(ps, args) for ps in plists for args in arglists]
    if len(pairs) > nbudget * 2 // 3:
        pairs = ctx.rng.sample(pairs, nbudget * 2 // 3)
    for _ in range(nbudget // 3):
        pairs.append((ctx.rng.choice(plists), [ctx.rng.choice(opts) for _ in range(ctx.rng.randint(3, 5))]))
    n_none = n = 0
    for ps, args in pairs:
        cd = helpers.CallDetails(None, None, None)
        cd._list_arguments = lambda args=args: list(args)
        try:
            idx = cd.calculate_index([StubParam(n_, k) for n_, k in ps])
        except Exception as e:
            ctx.deviation(dict(stream='calc', exc=type(e).__name__), dict(params=ps, triples=args, error=common.exc_sig(e)),
                          'calculate_index raised %r' % e)
            continue
        n_none += idx is None
        n += 1
        ctx.count('calc', (tuple(ps), tuple(args)), nontrivial=bool(ps) and bool(args))
        coq.add('TI', (list(ps), list(args), idx),
                dict(direct=True, params=[(n_, KINDS[k]) for n_, k in ps], triples=args, index=idx))
    ctx.stat('calc_none_fraction', round(n_none / max(1, n), 3))
    ctx.sample(dict(stream='calc', params=[('a', 'PK'), ('ab', 'KO'), ('b', 'VK')], triples=[(0, '', False), (0, 'a', False)],
                    note='CallDetails.calculate_index with stub names vs calc_index'))


# ------------------------------------------------------------------ stream: sigs
def one_call_task(d, stream, meta):
    return dict(kind='sig', stream=stream, meta=meta, src=d['src'], obj=d['obj'], raw=d['raw'], fname=d['fname'],
                defname=d['defname'], children=True, calls=[dict(text=d['call'] + '(', after='', before=None, cur=None)])


def gen_sigs(ctx, tasks):
    forms_cycle = ['function', 'method', 'classmethod', 'staticmethod', 'init', 'wrapper']
    k = 0
    for kl in kind_lists(4):
        vs = list(variants(kl))
        for var in vs:
            plain = not any(d or a for d, a in var)
            full = all((d or kk in (VP, VK)) and a for (d, a), kk in zip(var, kl))
            k += 1
            if ctx.quick and len(kl) == 4 and not (plain or full) and ctx.rng.random() > 0.25:
                continue
            forms = ['function']
            if plain or full:
                forms = list(forms_cycle)
            elif k % 4 == 0:
                forms.append(forms_cycle[1 + (k // 4) % 5])
            ps = mk_params(kl, var=var)
            for form in forms:
                ret = 'int' if (k % 3 == 0 and form != 'init') else None
                d = render_def(form, ps, ret=ret)
                tasks.append(one_call_task(d, 'sigs', (form, d, ps, ret)))
    # sampled: up to 6 parameters, random names/defaults/annotations/layout
    pool = ['a', 'ab', 'b', 'c', 'ac', 'd', 'x1', 'arg', 'kwarg', 'value', 'self_', 'n', 'long_name']
    kl6 = list(kind_lists(6, 5))
    for _ in range(ctx.n(300, 2500)):
        kl = ctx.rng.choice(kl6)
        names = ctx.rng.sample(pool, len(kl))
        var = ctx.rng.choice(list(itertools.islice(variants(kl), 0, 4096)))
        ps = mk_params(kl, names=names, var=var, rng=ctx.rng)
        form = ctx.rng.choice(forms_cycle)
        ret = ctx.rng.choice([None, None, 'int', 'str']) if form != 'init' else None
        d = render_def(form, ps, ret=ret, rng=ctx.rng, wrapper_own=ctx.rng.random() < 0.3)
        tasks.append(one_call_task(d, 'sigs', (form, d, ps, ret)))
    # dunder names (typeshed convention): known finding
    # (not a `__x` behind *args: process_params, which is not modelled, moves positional-only parameters to the front)
    for kl in ([PK], [PK, PK], [PO, PK], [PK, KO], [PK, VP, KO, VK]):
        for pos in range(len(kl)):
            if kl[pos] in (VP, VK) or VP in kl[:pos]:
                continue
            names = list(NAMES[:len(kl)])
            names[pos] = '__' + names[pos]
            ps = mk_params(kl, names=names)
            for form in ('function', 'method'):
                d = render_def(form, ps)
                tasks.append(one_call_task(d, 'sigs', (form, d, ps, None)))


def proc_sigs(ctx, coq, items):
    dist = {}
    sample = None
    for t, r in items:
        form, d, ps, ret = t['meta']
        out, orc, view = r['calls'][0], r['oracle'], r['sigview']
        where = dict(form=form, source=d['src'], call=d['call'] + '(')
        dist[form] = dist.get(form, 0) + 1
        if 'exc' in out:
            ctx.deviation(dict(stream='sigs', exc=out['exc']['exc'], site=out['exc']['site'], form=form),
                          dict(where=where, error=out['exc']), 'get_signatures raised %s' % out['exc']['exc'])
            continue
        if not orc['ok']:
            raise RuntimeError('generator produced a definition Python rejects: %r %s' % (d['src'], orc['err']))
        ctx.count('sigs', (form, d['src']), nontrivial=bool(ps))
        if out['nsig'] != 1:
            ctx.deviation(dict(stream='sigs', cls='signature-count'), dict(where=where, nsig=out['nsig']),
                          'get_signatures returned %d signatures for a call to a callable defined once in the source' % out['nsig'])
            continue
        add_model_cases(coq, form, d, ps, ret, view, r.get('children'))
        if form == 'wrapper':
            continue   # parameters of wrappers are judged by the wrapper stream (calls that run)
        check_signature(ctx, 'sigs', form, ps, view, orc, where)
        # specification side: py_sig of the real parso children = inspect.signature of the raw function
        if r.get('children') and not any(p['name'].startswith('__') for p in ps if form != 'function'):
            coq.add('TY', ([tuple(c) for c in r['children']], [(p[0], p[1]) for p in orc['raw_params']]),
                    dict(source=d['src'], inspect=orc['raw_params']))
        if sample is None and len(ps) >= 4 and form == 'method':
            sample = dict(stream='sigs', form=form, source=d['src'], to_string=view['to_string'])
    ctx.stat('sigs_forms', dist)
    if sample:
        ctx.sample(sample)


# ------------------------------------------------------------------ stream: index
def prefixes(names, maxlen, starred):
    items = [('P',)] + [('K', n) for n in names]
    if starred:
        items += [('S1',), ('S2',)]
    for n in range(0, maxlen + 1):
        for combo in itertools.product(items, repeat=n):
            yield list(combo)


def cursors(names, starred):
    cs = [('E', ''), ('E', 'a'), ('L',)] + [('K', n) for n in names] + [('KV', names[0])]
    if starred:
        cs += [('S1', ''), ('S1', 'xs'), ('S2', ''), ('S2', 'kws')]
    return cs


def gen_index(ctx, tasks):
    layouts = ['assign', 'nested', 'spaces', 'multiline', 'closed', 'mid', 'mid', 'mideq']

    def add_def(form, ps, calls_spec, rng=None, ret=None):
        d = render_def(form, ps, ret=ret, rng=rng)
        base_lines = d['src'].count('\n')
        calls = []
        for before, cur, layout in calls_spec:
            text, after, col = render_call(d['call'], before, cur, layout, rng)
            calls.append(dict(text=text, after=after, before=before, cur=cur, line=base_lines + 1, col=col,
                              grid=(rng is None)))
        for i in range(0, len(calls), 120):
            tasks.append(dict(kind='sig', stream='index', meta=(form, d, ps), src=d['src'], obj=d['obj'], raw=d['raw'],
                              fname=d['fname'], defname=d['defname'], kw_wrapper=(form == 'wrapper'), calls=calls[i:i + 120]))

    # exhaustive: parameter lists <= 3 (4 thorough) x star-free prefixes <= 3 x cursors, plain functions
    for kl in kind_lists(4):
        ps = mk_params(kl)
        names = ([p['name'] for p in ps] + ['zz', 'zy'])[:2]
        spec = []
        for before in prefixes(names, 3, False):
            for cur in cursors(list(dict.fromkeys(names + ['zz'])), False):
                spec.append((before, cur, 'plain'))
        star = []
        for before in prefixes(names[:1], 2, True):
            st = any(b[0] in ('S1', 'S2') for b in before)
            for cur in cursors(names[:1], True):
                if st or cur[0] in ('S1', 'S2'):
                    star.append((before, cur, 'plain'))
        if ctx.quick:
            if len(kl) == 4:
                spec = ctx.rng.sample(spec, len(spec) // 6)
            elif len(kl) == 3:
                spec = [x for x in spec if len(x[0]) < 3] + ctx.rng.sample([x for x in spec if len(x[0]) == 3], 63)
            star = ctx.rng.sample(star, len(star) // 6)
        add_def('function', ps, spec + star)
    # the other forms, layouts, richer argument texts, longer prefixes, up to 6 parameters: sampled
    pool = ['a', 'ab', 'b', 'c', 'ac', 'd', 'abc', 'x1']
    kls = list(kind_lists(6))
    for _ in range(ctx.n(330, 2500)):
        kl = ctx.rng.choice(kls)
        names = ctx.rng.sample(pool, len(kl))
        var = None
        if ctx.rng.random() < 0.5:
            var = ctx.rng.choice(list(itertools.islice(variants(kl), 0, 512)))
        ps = mk_params(kl, names=names, var=var, rng=ctx.rng)
        form = ctx.rng.choice(['function', 'method', 'classmethod', 'staticmethod', 'init', 'method', 'init', 'wrapper'])
        if form == 'wrapper' and any(p['kind'] == PO and p['default'] is None for p in ps):
            form = 'function'
        knames = names[:3] + ['zz']
        spec = []
        for _ in range(ctx.rng.randint(8, 16)):
            ln = ctx.rng.choice([0, 1, 1, 2, 2, 3, 3, 4, 5])
            starred = ctx.rng.random() < 0.2
            before = []
            for _ in range(ln):
                r = ctx.rng.random()
                if starred and r < 0.25:
                    before.append(ctx.rng.choice([('S1',), ('S2',)]))
                elif r < 0.6 and not any(b[0] == 'K' for b in before) or r < 0.15:
                    before.append(('P',))
                else:
                    before.append(('K', ctx.rng.choice(knames)))
            curs = [('E', ''), ('E', ctx.rng.choice(knames)[:1]), ('E', ctx.rng.choice(knames)), ('L',),
                    ('K', ctx.rng.choice(knames)), ('KV', ctx.rng.choice(knames))]
            if starred:
                curs += [('S1', ''), ('S2', ''), ('S1', 'xs'), ('S2', 'kws')]
            cur = ctx.rng.choice(curs)
            layout = ctx.rng.choice(['plain', 'plain'] + layouts)
            if layout in ('mid', 'mideq') and cur[0] in ('S1', 'S2'):
                layout = 'closed'
            spec.append((before, cur, layout))
        add_def(form, ps, spec, rng=ctx.rng, ret=ctx.rng.choice([None, None, 'int']) if form != 'init' else None)


def hash_of(*parts):
    import zlib
    return zlib.crc32('\x00'.join(parts).encode('utf8'))


def check_index_case(ctx, coq, form, d, ps, call, out, view, orc_params, stats, scan_diff):
    where = dict(form=form, source=d['src'], call=call['text'], after=call['after'])
    before, cur = call['before'], call['cur']
    if 'exc' in out:
        ctx.deviation(dict(stream='index', exc=out['exc']['exc'], site=out['exc']['site'], form=form),
                      dict(where=where, error=out['exc']), 'get_signatures raised %s' % out['exc']['exc'])
        return
    if out['nsig'] != 1:
        ctx.deviation(dict(stream='index', cls='signature-count'), dict(where=where, nsig=out['nsig']),
                      'get_signatures returned %d signatures inside the parentheses of a call to a callable defined in source' % out['nsig'])
        return
    exp_br = [call['line'], call['col']]
    if out['bracket'] != exp_br:
        ctx.deviation(dict(stream='index', cls='bracket_start'), dict(where=where, reported=out['bracket'], expected=exp_br),
                      'bracket_start %r is not the position %r of the opening parenthesis' % (out['bracket'], exp_br))
    intent = intent_triples(before, cur)
    trip = [tuple(x) for x in out['triples']]
    idx = out['index']
    py = out.get('py') or dict(status='none')
    if form == 'wrapper':
        # the parameters are judged per call: jedi runs the wrapper with the arguments of a syntactically complete call
        rep = [(a[0], a[1]) for a in (out.get('view') or view)['api']]
        exp = [(p[0], p[1]) for p in orc_params]
        if rep != exp:
            given = {b[1] for b in before if b[0] == 'K'} | ({cur[1]} if cur[0] in ('K', 'KV') else set())
            if cur[0] == 'E' and call['after'].startswith('='):
                given.add(cur[1])           # the complete call reads `name=1`
            elif cur[0] == 'E' and call['after'].startswith('q='):
                given.add(cur[1] + 'q')
            cls = 'signature-mismatch'
            if rep == [p for p in exp if p[0] not in given] and call['after']:
                cls = 'wrapper-consumes-given-keywords'
            ctx.deviation(dict(stream='index', cls=cls), dict(where=where, reported=rep, expected=exp, index=idx),
                          'inside a complete call the wrapper is reported with parameters %r; the wrapped callable has %r' % (rep, exp))
            py = dict(status='other-signature')     # the index refers to another parameter list: model only
    stats[py['status']] = stats.get(py['status'], 0) + 1
    ctx.count('index', (form, d['src'], call['text'], call['after']),
              nontrivial=len(ps) > 0 and (len(before) > 0 or cur != ('E', '')))
    v = out.get('view') or view
    # (a) correspondence: calc_index on the captured triples and the parameters calculate_index saw
    # (quick tier: every second case of the plain-function grid; the same grid is covered by the direct calc stream)
    if not (ctx.quick and form == 'function' and call.get('grid') and (hash_of(d['src'], call['text']) & 1)):
        coq.add('TI', ([tuple(x) for x in v['int']], trip, idx), dict(where=where, params=v['int'], triples=trip, index=idx))
    # (b) scanner output vs generator intent
    # (the text kept for a starred argument in front of the cursor is never read by calculate_index)
    norm = lambda tr: [((a, None, c) if a and i + 1 < len(tr) else (a, b, c)) for i, (a, b, c) in enumerate(tr)]
    scanner_ok = norm(trip) == norm(intent)
    literal_quirk = cur[0] == 'L' and norm(trip) == norm(intent[:-1] + [(0, '', False)])
    # (c) CPython
    if py['status'] == 'ok':
        targets, post, pref = py['targets'], py['pos'], py['pref']
        bad = None
        if idx is None and targets:
            bad = 'none-but-bindable'
        elif idx is not None and idx not in targets:
            bad = 'not-a-binding-target'
        elif post is not None and idx != post:
            bad = 'not-the-positional-slot'
        if bad:
            cls = 'index-' + bad
            names = [p[0] for p in orc_params]
            kinds = [p[1] for p in orc_params]
            if cur[0] in ('K', 'KV') and idx is not None and idx < len(kinds) and kinds[idx] == VK and not targets:
                # model-predicted class (C11_index_rebinding_refuted): the keyword names a parameter that is already bound
                npos = sum(1 for b in before if b[0] == 'P')
                filled = cur[1] in names and names.index(cur[1]) < npos and kinds[names.index(cur[1])] == PK
                dup = any(b == ('K', cur[1]) for b in before)
                if filled or dup:
                    cls = 'rebinding-to-var-keyword'
            elif literal_quirk and idx is not None and not targets and idx < len(kinds) and kinds[idx] in (PK, KO, VK):
                # model-predicted: the scanner hands '' (an empty identifier prefix) for a literal under the cursor
                cls = 'literal-cursor-as-keyword-prefix'
            ctx.deviation(dict(stream='index', cls=cls),
                          dict(where=where, index=idx, python_targets=targets, python_positional=post, triples=trip, intent=intent),
                          'index=%r but CPython (Signature.bind_partial) binds the argument being typed to %s' % (
                              idx, 'parameter(s) %r' % targets if targets else 'no parameter'))
        # specification side: preferred(intent) = CPython's preferred target (unless the keyword re-binds)
        coq.add('TP', ([(p[0], p[1]) for p in orc_params], intent, pref),
                dict(where=where, intent=intent, python_preferred=pref, python_targets=targets))
    if not scanner_ok and not literal_quirk:
        scan_diff.append(dict(where=where, triples=trip, intent=intent, index=idx, py=py))


def proc_index(ctx, coq, items):
    stats, fstat, scan_diff = {}, {}, []
    sample = None
    for t, r in items:
        form, d, ps = t['meta']
        if not r['oracle']['ok']:
            raise RuntimeError('generator produced a definition Python rejects: %r %s' % (d['src'], r['oracle']['err']))
        fstat[form] = fstat.get(form, 0) + len(t['calls'])
        view = r['sigview']
        for call, out in zip(t['calls'], r['calls']):
            check_index_case(ctx, coq, form, d, ps, call, out, view, r['oracle']['params'], stats, scan_diff)
        if view is not None and form != 'wrapper':
            where = dict(form=form, source=d['src'], call=t['calls'][0]['text'])
            check_signature(ctx, 'index', form, ps, view, r['oracle'], where)
            if not r['consistent']:
                ctx.deviation(dict(stream='index', cls='signature-varies-with-arguments'), dict(where=where),
                              'the reported parameters of one definition differ between call prefixes')
            if sample is None and form == 'init' and len(ps) >= 3:
                c, o = t['calls'][-1], r['calls'][-1]
                sample = dict(stream='index', form=form, source=d['src'], call=c['text'], index=o.get('index'),
                              triples=o.get('triples'), python=o.get('py'))
    ctx.stat('index_python_status', stats)
    ctx.stat('index_forms', fstat)
    ctx.stat('index_scanner_differs_from_intent', len(scan_diff))
    for s in scan_diff[:3]:
        ctx.violation('obligation', dict(what='_iter_arguments scanned something else than the generator typed '
                                              '(tie between call text and argument triples broken)', **s), nofail=True)
    if sample:
        ctx.sample(sample)


# ------------------------------------------------------------------ stream: wrapper
def probe_calls(names):
    ks = list(dict.fromkeys(names + ['zz']))[:5]
    out = []
    for npos in (0, 1, 2):
        for r in range(0, min(3, len(ks)) + 1):
            for sub in itertools.combinations(ks, r):
                out.append(([0] * npos, [(k, 0) for k in sub]))
    return out


def gen_wrapper(ctx, tasks):
    # *args pass-through: needs the tuple value of *args -> typeshed; crashes here (known finding, K1 class)
    ps = mk_params([PK, PK])
    src = 'def g(%s):\n    return 1\ndef f(*args, **kwargs):\n    return g(*args, **kwargs)\n' % ', '.join(render_params(ps))
    pc = probe_calls([p['name'] for p in ps])
    tasks.insert(0, dict(kind='sig', stream='wrapper', meta=(dict(src=src, call='f', bound=0), ps, pc, 'args'),
                         src=src, obj="g['f']", raw="g['g']", fname='f', defname='g', probe_calls=pc,
                         calls=[dict(text='f(', after='', before=None, cur=None)]))
    kls = [kl for kl in kind_lists(4) if kl]
    if ctx.quick:
        kls = ctx.rng.sample(kls, 70)
    for kl in kls:
        var = None
        if ctx.rng.random() < 0.6:
            var = ctx.rng.choice(list(variants(kl)))
        ps = mk_params(kl, var=var)
        if any(p['kind'] == PO and p['default'] is None for p in ps):
            # g(a, /, ...) can never be reached through **kwargs: no call of the wrapper runs at all, and no
            # signature can say so -- degenerate, left out
            continue
        kwable = [p['name'] for p in ps if p['kind'] in (PK, KO)]
        variant = ctx.rng.choice(['plain', 'plain', 'own', 'deco', 'wraps', 'class', 'method'] + (['given:' + kwable[0]] * 2 if kwable and VK not in kl else []))   # (with **kw in g no signature can exclude the given name)
        d = render_def('wrapper', ps, wrapper_own=variant)
        names = [p['name'] for p in ps] + (['w0'] if variant == 'own' else [])
        pc = probe_calls(names)
        tasks.append(dict(kind='sig', stream='wrapper', meta=(d, ps, pc, 'kwargs'), src=d['src'], obj=d['obj'], raw=d['raw'],
                          fname='f', defname='g', probe_calls=pc, calls=[dict(text='f(', after='', before=None, cur=None)]))


def proc_wrapper(ctx, coq, items):
    sample = None
    for t, r in items:
        d, ps, pc, wk = t['meta']
        out, view = r['calls'][0], r['sigview']
        where = dict(form='wrapper', source=d['src'], call='f(')
        if 'exc' in out:
            ctx.deviation(dict(stream='wrapper', exc=out['exc']['exc'], site=out['exc']['site'], forwards=wk),
                          dict(where=where, error=out['exc']), 'get_signatures raised %s for a pass-through wrapper' % out['exc']['exc'])
            continue
        ctx.count('wrapper', d['src'], nontrivial=True)
        if out['nsig'] != 1:
            ctx.deviation(dict(stream='wrapper', cls='signature-count'), dict(where=where, nsig=out['nsig']), 'no single signature')
            continue
        # the reported signature as an inspect.Signature (a default is all that matters to bind())
        try:
            rep = inspect.Signature([inspect.Parameter(n, inspect._ParameterKind(k),
                                                       default=(0 if ('=' in s and k not in (VP, VK)) else inspect.Parameter.empty))
                                     for (n, k, s) in view['api']])
        except ValueError as e:
            ctx.deviation(dict(stream='wrapper', cls='reported-signature-ill-formed'), dict(where=where, reported=view['api']),
                          'the reported parameters do not form a Python signature: %s' % e)
            continue
        bad = []
        for (pa, ka), runs in zip(pc, r['runs']):
            try:
                rep.bind(*pa, **dict(ka))
                binds = True
            except TypeError:
                binds = False
            if binds != runs:
                bad.append((pa, ka, binds, runs))
        if bad:
            pa, ka, binds, runs = bad[0]
            ctx.deviation(dict(stream='wrapper', cls='wrapper-call-mismatch'),
                          dict(where=where, reported=view['to_string'], call_args=[pa, ka], binds_against_reported=binds, runs=runs,
                               n_bad=len(bad)),
                          'f(*%r, **%r) %s against the reported signature %s but %s' % (
                              pa, dict(ka), 'binds' if binds else 'does not bind', view['to_string'],
                              'runs' if runs else 'raises TypeError'))
        if sample is None and len(ps) >= 3:
            sample = dict(stream='wrapper', source=d['src'], reported=view['to_string'])
    if sample:
        ctx.sample(sample)


# ------------------------------------------------------------------ stream: doc
DOC_SHAPES = [
    ('none', None), ('single', "'one line'"), ('double', '"two words"'),
    ('triple', '"""Summary line.\n\n{i}    Indented body\n{i}      deeper\n{i}    """'),
    ('triple-lead', "\'\'\'\n{i}    starts on the second line\n{i}    \'\'\'"),
    ('raw', "r'raw \\n kept'"), ('Raw3', "R\'\'\'Raw\n{i}    triple\'\'\'"), ('unicode-prefix', "u'uni'"),
    ('escapes', "'\\x41\\u00e9\\n second'"), ('tabs', "'tab\\there'"), ('spaces', "\'\'\'   padded   \'\'\'"),
    ('fstring', "f'not a docstring'"), ('number', '1'), ('binop', "'x' + 'y'"),
    ('concat', "'a' 'b'"), ('paren', "('paren')"), ('bytes', "b'bytes'"),
]


def gen_doc(ctx, tasks):
    sigs = [[PK], [PO, PK], [PK, VP, KO], []]
    for shape, text in DOC_SHAPES:
        for form in ('function', 'method', 'init'):
            for kl in (sigs if shape in ('none', 'single', 'triple') else sigs[:1]):
                ps = mk_params(kl, var=[(i % 2 == 0, False) for i in range(len(kl))] if kl and VP not in kl and PO not in kl else None)
                doc = text.replace('{i}', '    ' if form == 'method' else '') if text else None
                d = render_def(form, ps, doc=doc)
                if form == 'function':
                    pos, obj, call = (1, 4), "g['f']", 'f'
                elif form == 'method':
                    pos, obj, call = (2, 8), "g['C'].m", 'c.m'
                else:
                    pos, obj, call = (1, 6), "g['C']", 'C'
                tasks.append(dict(kind='doc', stream='doc', meta=(shape, form, d), src=d['src'], obj=obj, pos=pos, call=call,
                                  fname=d['fname']))


def proc_doc(ctx, coq, items):
    sample = None
    for t, r in items:
        shape, form, d = t['meta']
        where = dict(form=form, source=d['src'], shape=shape)
        if 'exc' in r:
            ctx.deviation(dict(stream='doc', exc=r['exc']['exc'], site=r['exc']['site'], shape=shape),
                          dict(where=where, error=r['exc']), 'docstring() raised %s' % r['exc']['exc'])
            continue
        ctx.count('doc', (shape, form, d['src']), nontrivial=shape != 'none')
        if r.get('n') != 1:
            ctx.deviation(dict(stream='doc', cls='infer-count'), dict(where=where, n=r.get('n')),
                          'infer on the definition name gave %r names' % r.get('n'))
            continue
        if r['raw'] != r['getdoc']:
            ctx.deviation(dict(stream='doc', cls='raw-docstring', shape=shape),
                          dict(where=where, jedi=r['raw'], getdoc=r['getdoc']),
                          'docstring(raw=True) = %r but inspect.getdoc of the executed object = %r' % (r['raw'], r['getdoc']))
        elif 'sraw' in r and r['sraw'] != r['getdoc']:
            ctx.deviation(dict(stream='doc', cls='raw-docstring', shape=shape),
                          dict(where=where, jedi=r['sraw'], getdoc=r['getdoc'], via='get_signatures'),
                          'Signature.docstring(raw=True) = %r but inspect.getdoc = %r' % (r['sraw'], r['getdoc']))
        # the signature line re-parses to the executed object's signature
        if r['pysig'] and len(r['sigs']) == 1:
            try:
                if _args_dump(r['sigs'][0]) != _args_dump(r['pysig']):
                    ctx.deviation(dict(stream='doc', cls='docstring-signature-line'),
                                  dict(where=where, line=r['sigs'][0], inspect=r['pysig']),
                                  'the signature line %r differs from inspect.signature %r' % (r['sigs'][0], r['pysig']))
            except SyntaxError:
                ctx.deviation(dict(stream='doc', cls='docstring-signature-line'), dict(where=where, line=r['sigs'][0]),
                              'unparsable signature line')
        elif len(r['sigs']) != 1:
            ctx.deviation(dict(stream='doc', cls='docstring-signature-line'), dict(where=where, lines=r['sigs']),
                          'a definition with one signature has %d signature lines' % len(r['sigs']))
        # docstring() is the raw text preceded by the signature line(s)
        for via, sg, raw, full in ((None, r['sigs'], r['raw'], r['full']),) + (
                (('get_signatures', [r['s_to_string']], r['sraw'], r['sfull']),) if 'sfull' in r else ()):
            head = '\n'.join(sg)
            if full != head + ('\n\n' if head and raw else '') + raw:
                ctx.deviation(dict(stream='doc', cls='docstring-assembly'), dict(where=where, via=via, sigs=sg, raw=raw, full=full),
                              'docstring() = %r is not the signature line(s) %r, an empty line and the raw docstring %r' % (full, sg, raw))
        # docstring() = signature lines + blank line + raw   (model, evaluated in Coq)
        coq.add('TD', (r['sigs'], r['raw'], r['full']), dict(where=where, sigs=r['sigs'], raw=r['raw'], full=r['full']))
        if 'sfull' in r:
            coq.add('TD', ([r['s_to_string']], r['sraw'], r['sfull']),
                    dict(where=where, sigs=[r['s_to_string']], raw=r['sraw'], full=r['sfull'], via='get_signatures'))
        if sample is None and shape == 'triple' and form == 'method':
            sample = dict(stream='doc', shape=shape, source=d['src'], raw=r.get('raw'), full=r.get('full'))
    if sample:
        ctx.sample(sample)


# ------------------------------------------------------------------ Coq evaluation of the collected cases
def eval_cases(ctx, coq):
    terms = [flat(tag, data) for tag, data, meta in coq.items]
    # sentinel: a case that must be reported as failing (def f(a): f(| is index 0, not 1)
    terms.append(flat('TI', ([('a', PK)], [(0, '', False)], 1)))
    fails, err = common.coq_failing(IMPORTS, 'run_flat', terms, shard=min(4000, max(1500, len(terms) // 8 + 1)), defs=DEFS, timeout=1800)
    if err:
        raise RuntimeError('coq evaluation failed: ' + err)
    if len(terms) - 1 not in fails:
        raise RuntimeError('the sentinel case was not reported as failing: model evaluation pipeline broken')
    fails = [i for i in fails if i != len(terms) - 1]
    per = {}
    for tag, data, meta in coq.items:
        per[tag] = per.get(tag, 0) + 1
    ctx.stat('coq_cases', per)
    ctx.count('coq-model-evaluations', None, nontrivial=False, n=len(terms))
    shown = {}
    for i in fails:
        tag, data, meta = coq.items[i]
        key = 'TIc' if tag == 'TI' and meta.get('direct') else tag
        shown[key] = shown.get(key, 0) + 1
        if shown[key] > 3:
            continue
        model = common.coq_show(IMPORTS, [SHOW[key].format(*show_args(tag, data)),
                                          'match dec_case %s with Some t => run_case t | None => false end' % flat(tag, data)], defs=DEFS)
        ctx.violation('obligation', dict(what=WHAT[key], input=meta, model=model[-1500:], n_failing_of_this_kind=sum(
            1 for j in fails if coq.items[j][0] == tag)), nofail=True)


def run(ctx):
    common.setup_jedi(os.path.join(ctx.tmp, 'cache'))
    ctx.proofs()
    ctx.cov['fingerprints'] = common.fingerprint(FP)
    ctx.cov['rule'] = ('grammar: all child sequences over {name,*name,**name,*,/} len<=4 (6 thorough); calc: wf parameter lists <=4 + '
                       'ill-ordered samples x argument-triple lists (<=2 exhaustive then sampled to budget, 3-5 sampled, starred/None keys '
                       'included); sigs: all parameter lists <=4 x {default,annotation} variants (function form; quick keeps 25% of the mixed '
                       'variants of 4-parameter lists; other forms on plain/full variants and a rotating subset) + seeded lists of 5-6 '
                       'parameters; index: parameter lists <=4 x star-free prefixes <=3 over {positional, kw a, kw b} x 7 cursor forms + '
                       'starred prefixes <=2 and starred cursors, plain functions (quick: all of it for <=3 parameters, 1/6 for 4 parameters, '
                       '1/4 of the starred), seeded other forms/layouts/prefix lengths<=5/up to 6 parameters; wrapper: **kwargs pass-through '
                       'over parameter lists <=4; doc: 17 docstring shapes x {function, method, class}. non-trivial = non-empty parameter '
                       'list and a non-initial cursor (index), valid list (grammar), non-empty inputs (calc); distinct by input text')
    ctx.assumptions += [
        'inspect.cleandoc/ast.literal_eval are shared by jedi and inspect.getdoc and are not modelled (docstring cleaning is oracle-only)',
        'call detection through error nodes (get_signature_details) and process_params for wrappers are covered by the oracle streams only',
        'the index oracle judges prefixes that CPython can still complete to a valid call (no positional after keyword, no repeated keyword, '
        'bind_partial succeeds); doomed and starred prefixes are checked against the model only',
        'a literal under the cursor is a positional argument; an identifier or nothing under the cursor may become a positional or any keyword argument',
    ]
    t0 = time.time()
    tasks = []
    gen_sigs(ctx, tasks)
    gen_index(ctx, tasks)
    gen_doc(ctx, tasks)
    gen_wrapper(ctx, tasks)     # puts the slow crashing case first
    # one pool for every jedi query, started while this process is still small
    batches, cur, w = [], [], 0
    for t in tasks:
        if t.get('probe_calls') and t['meta'][3] == 'args':
            batches.append([t])
            continue
        c = len(t.get('calls', [])) or 2
        if cur and w + c > 60:
            batches.append(cur)
            cur, w = [], 0
        cur.append(t)
        w += c
    if cur:
        batches.append(cur)
    order = [t for b in batches for t in b]
    ctx.stat('jedi_queries', sum(len(t.get('calls', [])) or 2 for t in tasks))
    cpu = lambda: sum(resource.getrusage(resource.RUSAGE_CHILDREN)[:2])
    c0 = cpu()
    res = common.pmap(_batch, batches, chunksize=1)
    results = [r for b in res for r in b]
    ctx.stat('wall_jedi', round(time.time() - t0, 1))
    ctx.stat('cpu_jedi_workers', round(cpu() - c0, 1))
    t0 = time.time()
    coq = CoqCases()
    stream_grammar(ctx, coq)
    stream_calc(ctx, coq)
    by = {}
    for t, r in zip(order, results):
        by.setdefault(t['stream'], []).append((t, r))
    proc_sigs(ctx, coq, by.get('sigs', []))
    proc_index(ctx, coq, by.get('index', []))
    proc_wrapper(ctx, coq, by.get('wrapper', []))
    proc_doc(ctx, coq, by.get('doc', []))
    stream_edited(ctx)
    ctx.stat('wall_oracles', round(time.time() - t0, 1))
    t0, c0 = time.time(), cpu()
    eval_cases(ctx, coq)
    ctx.stat('wall_coq_cases', round(time.time() - t0, 1))
    ctx.stat('cpu_coq_cases', round(cpu() - c0, 1))


# ------------------------------------------------------------------ edited definitions (same path, same call line)
def _edited_task(t):
    """ONE process, the same path, two Scripts in quick succession: the definition changes, the call line and the
    bracket position do not.  The second answer must describe the second definition (params, kinds, to_string, index)."""
    import jedi
    out = []
    path = os.path.join(t['dir'], 'edited_%d.py' % t['k'])
    for step, src in enumerate(t['srcs']):
        g = {'__name__': 'm0'}
        exec(compile(src[:len(src) - len(t['call'])], '<c11e>', 'exec'), g)      # everything but the open call
        obj = eval(t['obj'], {'g': g})
        want = _sig_strings(inspect.signature(obj))
        line = src.count('\n') + 1        # the call is the last line (no final newline)
        col = len(t['call'])
        try:
            sigs = jedi.Script(src, path=path).get_signatures(line, col)
            got = [[(p.name, int(p.kind)) for p in sg.params] for sg in sigs]
            idx = [sg.index for sg in sigs]
        except Exception as e:
            got, idx = 'EXC:' + repr(e)[:200], None
        out.append(dict(step=step, src=src, want=[(n, k) for (n, k, *_r) in want], got=got, index=idx))
    return out


def stream_edited(ctx):
    rng = ctx.rng
    tasks = []
    forms = [('def f(%s):\n    return 1\n%s', 'g["f"]', 'f('),
             ('class K:\n    def m(self, %s):\n        return 1\nk = K()\n%s', 'g["k"].m', 'k.m('),
             ('class B:\n    def __init__(self, %s):\n        pass\n%s', 'g["B"]', 'B(')]
    plists = ['a', 'a, b', 'a, b=1', 'a, *, c', 'a, /, b', '*args', 'a, **kw', 'x, y, z', 'p, q=2, *r', 'only']
    for k in range(ctx.n(24, 120)):
        tmpl, obj, call = forms[k % len(forms)]
        a, b = rng.sample(plists, 2)
        c = rng.choice(plists)
        tasks.append(dict(k=k, dir=ctx.tmp, obj=obj, call=call, srcs=[tmpl % (pl, call) for pl in (a, b, c)]))
    res = common.pmap(_edited_task, tasks, chunksize=2)
    for t, steps in zip(tasks, res):
        for r in steps:
            ctx.count('edited', (t['srcs'][r['step']], r['step']), nontrivial=r['step'] > 0)
            ok = isinstance(r['got'], list) and len(r['got']) == 1 and \
                [tuple(x) for x in r['got'][0]] == [tuple(x) for x in r['want']]
            if not ok:
                ctx.deviation(dict(stream='edited', cls='signature-is-not-the-one-of-the-present-text', step=min(r['step'], 1)),
                              dict(path_reused=True, step=r['step'], sources=t['srcs'][:r['step'] + 1], expected=r['want'],
                                   reported=r['got']),
                              'get_signatures after the definition was edited (same path, same call line) reports %r, the '
                              'definition in the text has %r' % (r['got'], r['want']))
    ctx.stat('edited_sessions', len(tasks))


def replay(ctx, path):
    rec = json.load(open(path))
    print(json.dumps(rec, indent=1, ensure_ascii=False)[:4000])
    common.setup_jedi(os.path.join(ctx.tmp, 'cache'))
    import jedi
    if (rec.get('sig') or {}).get('stream') == 'edited' and rec.get('sources'):
        srcs = rec['sources']
        call = srcs[0][srcs[0].rindex('\n') + 1:]
        obj = {'f(': 'g["f"]', 'k.m(': 'g["k"].m', 'B(': 'g["B"]'}[call]
        for r in _edited_task(dict(k=0, dir=ctx.tmp, obj=obj, call=call, srcs=srcs)):
            print('implementation now, step %d: reported %r, the text defines %r' % (r['step'], r['got'], r['want']))
        return 0
    w = rec.get('where') or (rec.get('input') or {}).get('where')
    if w and 'source' in w:
        src = w['source'] + w.get('call', '')
        ls = src.split('\n')
        full = src + w.get('after', '')
        try:
            sigs = jedi.Script(full).get_signatures(len(ls), len(ls[-1]))
            for s in sigs:
                print('implementation now: index=%r bracket_start=%r to_string=%r params=%r triples=%r' % (
                    s.index, s.bracket_start, s.to_string(), [(p.name, p.kind.name) for p in s.params],
                    s._call_details._list_arguments()))
                ps = [(n.string_name, int(n.get_kind())) for n in s._signature.get_param_names(resolve_stars=True)]
                tr = [tuple(x) for x in s._call_details._list_arguments()]
                print('model:', common.coq_show(IMPORTS, ['calc_index %s %s' % (g_params(ps), g_args(tr)),
                                                          'preferred %s %s' % (g_params(ps), g_args(tr))], defs=DEFS))
            if not sigs:
                print('implementation now: no signature')
        except Exception as e:
            print('implementation now raises', common.exc_sig(e))
        if w.get('shape') is not None:
            try:
                line, col = {'function': (1, 4), 'method': (2, 8), 'init': (1, 6)}[w['form']]
                n = jedi.Script(w['source']).infer(line, col)[0]
                print('docstring(raw=True) = %r\ndocstring() = %r' % (n.docstring(raw=True), n.docstring()))
            except Exception as e:
                print('docstring raises', common.exc_sig(e))
    elif isinstance(rec.get('input'), dict) and 'params' in rec['input']:
        i = rec['input']
        print('model:', common.coq_show(IMPORTS, ['calc_index %s %s' % (
            g_params([(n, KINDS.index(k) if isinstance(k, str) else k) for n, k in i['params']]),
            g_args([tuple(x) for x in i['triples']]))], defs=DEFS))
    return 0
