"""C14 — a crash of the helper process is contained and recovered from.

The environment's "python executable" is harness/c14_proxy.py, which relays the two pickle
streams frame by frame and injects the scheduled fault (dead before send / dies after send /
truncated reply / helper raises) at request index k of helper generation g.

Streams
  api-single   every request index of several query scenarios x every fault phase (one fault)
  api-multi    seeded: up to 3 consecutive crashes (incl. the handshake of a replacement helper),
               Scripts kept alive across the crash, queries before/after
  api-leak     many Scripts created, queried and dropped; helper-side ids watched on the wire
  direct       seeded random op sequences on Environment / InferenceStateSubprocess objects
               (new, query with echo / really raising helper functions, drop, get_sys_path)
  trunc-cuts   a reply cut at many byte offsets
  first-handshake  Environment(proxy) whose very first request is hit: InvalidPythonEnvironment, reaped
Every case is executed on the real jedi (worker process, own Environment), checked by the
property oracles (exception types, one failure per death, recovery answers, hang watchdog,
zombies, pipe ends, helper-side ids subset of live used ids), then replayed by the Gallina
model (Model/C14_Protocol.v, check_case) which must predict every per-operation observation
and the whole wire log.
"""
import gc
import json
import os
import signal
import sys
import threading
import time
import weakref

import common

HERE = os.path.dirname(os.path.abspath(__file__))
PROXY = os.path.join(HERE, 'c14_proxy.py')
IMPORTS = 'From JV Require Import Model.C14_Protocol.\n'
SUB = 'jedi/inference/compiled/subprocess/__init__.py'
FP = [(SUB, 'CompiledSubprocess._send'), (SUB, 'CompiledSubprocess._kill'), (SUB, 'CompiledSubprocess.run'),
      (SUB, 'CompiledSubprocess.delete_inference_state'), (SUB, 'CompiledSubprocess._get_process'),
      (SUB, '_cleanup_process'), (SUB, 'InferenceStateSubprocess.__init__'),
      (SUB, 'InferenceStateSubprocess.__getattr__'), (SUB, 'InferenceStateSubprocess.__del__'),
      (SUB, 'Listener._run'), (SUB, 'Listener._get_inference_state'), (SUB, 'Listener.listen'),
      ('jedi/api/environment.py', 'Environment._get_subprocess'),
      ('jedi/api/environment.py', 'Environment.get_inference_state_subprocess'),
      ('jedi/api/environment.py', 'Environment.get_sys_path')]

OP_TIMEOUT = 900         # hang watchdog per operation (seconds; generous: the machine may be heavily loaded)
PHASES = ('before', 'after', 'trunc', 'raise')
FAULT_G = {None: 'FNone', 'before': 'FDeadBefore', 'before-late': 'FDeadBefore', 'after': 'FDiesAfter',
           'trunc': 'FTrunc', 'raise': 'FRaises'}
FAULT_CODE = {None: 0, 'before': 1, 'before-late': 1, 'after': 2, 'trunc': 3, 'raise': 4}

# query scenarios that really use the helper in this typeshed-less tree and stay clear of K1-K4
SCENARIOS = [
    ('import math\nmath.sq', 'complete'),
    ('import json\njson.lo', 'complete'),
    ('import math\nmath.sqrt', 'infer'),
    ('x = 1\nx.re', 'complete'),
    ('import itertools\nitertools.ch', 'complete'),
    ("'a'.upp", 'complete'),
]


def _norm(v):
    return json.loads(json.dumps(v))


class AbortCase(Exception):
    """Nothing after a hang can be interpreted (the reply may still arrive): stop the case."""


class Hang(BaseException):
    pass


def _on_alarm(signum, frame):
    raise Hang()


def child_procs():
    """(pid, state) of the children of this process."""
    out = []
    try:
        pids = []
        for t in os.listdir('/proc/self/task'):
            with open('/proc/self/task/%s/children' % t) as f:
                pids += f.read().split()
    except OSError:
        me = os.getpid()
        pids = []
        for p in os.listdir('/proc'):
            if p.isdigit():
                try:
                    st = open('/proc/%s/stat' % p).read().rsplit(')', 1)[1].split()
                    if int(st[1]) == me:
                        pids.append(p)
                except OSError:
                    pass
    for p in pids:
        try:
            st = open('/proc/%s/stat' % p).read().rsplit(')', 1)[1].split()
            out.append((int(p), st[0]))
        except OSError:
            pass
    return out


def nfds():
    return len(os.listdir('/proc/self/fd')) - 1   # minus the fd of the listing itself


class _Dummy:
    """Stands in for an InferenceState in the direct stream (only weakly referenced)."""


def classify(e):
    from jedi.api.exceptions import InternalError
    from jedi.api.environment import InvalidPythonEnvironment
    import pickle
    if isinstance(e, Hang):
        return 7
    if isinstance(e, InternalError):
        return 1
    if isinstance(e, ZeroDivisionError) and 'c14-injected' in str(e):
        return 2
    if isinstance(e, FloatingPointError):   # raised for real inside the helper by _test_raise_error
        return 2
    if isinstance(e, InvalidPythonEnvironment):
        return 3
    if isinstance(e, KeyError):
        return 4
    if isinstance(e, pickle.UnpicklingError):
        return 5
    return 8


class Driver:
    """Runs operations against a real Environment whose executable is the proxy."""

    def __init__(self, tmpdir, faults):
        self.ctl = os.path.join(tmpdir, 'ctl.json')
        self.log = self.ctl + '.log'
        for f in (self.ctl + '.gen', self.log):
            if os.path.exists(f):
                os.unlink(f)
        with open(self.ctl, 'w') as f:
            json.dump({'states': True, 'log': self.log, 'faults': faults}, f)
        os.environ['C14_CTL'] = self.ctl
        gc.collect()
        self.threads0 = threading.active_count()
        self.f0 = nfds()
        self.children0 = {p for p, _ in child_procs()}
        from jedi.api.environment import Environment
        self.env = Environment(PROXY)
        self.objs = {}      # key -> Script | (InferenceStateSubprocess, dummy)
        self.addr = {}      # key -> id sent on the wire
        self.canon = {}     # wire id -> small number
        self.ops = []       # Gallina ops, as executed
        self.obs = []       # per-op observation tuples
        self.records = []   # human readable
        self.logpos = 0
        self.anomalies = []
        self.placeholder = 900

    # -- observation
    def gens(self):
        try:
            return len(open(self.ctl + '.gen').read().split())
        except OSError:
            return 0

    def new_log(self):
        out = []
        try:
            with open(self.log) as f:
                lines = f.read().split('\n')
        except OSError:
            lines = []
        lines = [l for l in lines if l]
        for l in lines[self.logpos:]:
            out.append(json.loads(l))
        self.logpos = len(lines)
        return out

    def cid(self, wire_id):
        if wire_id not in self.canon:
            self.canon[wire_id] = len(self.canon) + 1
        return self.canon[wire_id]

    def _guard(self, fn):
        """Run fn under the hang watchdog; (code, value, exception text)."""
        old = signal.signal(signal.SIGALRM, _on_alarm)
        signal.alarm(OP_TIMEOUT)
        try:
            return 0, fn(), None
        except BaseException as e:   # noqa: every exception is an observation here
            code = classify(e)
            txt = '%s.%s: %s' % (type(e).__module__, type(e).__name__, str(e)[:200].replace('\n', ' | '))
            e = None
            return code, None, txt
        finally:
            signal.alarm(0)
            signal.signal(signal.SIGALRM, old)

    def _observe(self, name, gallina, code, answers, txt, extra=None):
        procs = [(p, s) for p, s in child_procs() if p not in self.children0]
        fds = nfds() - self.f0
        sp = getattr(self.env, '_subprocess', None)
        crashed = bool(sp.is_crashed) if sp is not None else None
        # a helper that died while idle stays a zombie until jedi next talks to it: only deaths
        # that jedi has observed are its to reap
        idle_pid = None
        if sp is not None and not crashed:
            try:
                idle_pid = sp._get_process().pid
            except Exception:
                idle_pid = None
        z = sum(1 for p, s in procs if s == 'Z' and p != idle_pid)
        g = self.gens()
        wire = self.new_log()
        self.ops.append(gallina)
        self.obs.append((code, answers, g, crashed, z, fds))
        rec = dict(op=name, code=code, answers=answers, exc=txt, gens=g, crashed=crashed, zombies=z, fds=fds,
                   wire=wire)
        if extra:
            rec.update(extra)
        self.records.append(rec)
        if code == 7:
            self.anomalies.append(dict(cls='hang', op=name, index=len(self.ops) - 1))
            raise AbortCase()
        if z:
            self.anomalies.append(dict(cls='zombie', op=name, index=len(self.ops) - 1, procs=procs))
        want = 0 if crashed else 3
        if fds != want:
            self.anomalies.append(dict(cls='pipe-ends', op=name, index=len(self.ops) - 1, fds=fds, expected=want))
        return rec

    def live_used_wire_ids(self):
        out = set()
        for key, o in self.objs.items():
            iss = self._iss(o)
            if iss._used:
                out.add(iss._inference_state_id)
        return out

    @staticmethod
    def _iss(o):
        return o[0] if isinstance(o, tuple) else o._inference_state.compiled_subprocess

    def _check_states(self, rec, key):
        """no_helper_state_leak, directly: after every answered call the helper-side ids are
        a subset of the ids of live used Scripts."""
        live = self.live_used_wire_ids()
        for w in rec['wire']:
            if w.get('ev') == 'req' and w.get('fn') is not None and isinstance(w.get('states'), list) \
                    and isinstance(w.get('id'), int):
                extra = [x for x in w['states'] if x not in live]
                if extra:
                    self.anomalies.append(dict(cls='helper-state-leak', op=rec['op'], index=len(self.ops) - 1,
                                               leaked=len(extra), states=len(w['states']), live=len(live)))
                    break

    # -- operations
    def op_new_script(self, key, src):
        import jedi
        code, s, txt = self._guard(lambda: jedi.Script(src, environment=self.env))
        if code == 0:
            self.objs[key] = s
            wid = s._inference_state.compiled_subprocess._inference_state_id
            self.addr[key] = wid
            n = self.cid(wid)
        else:
            self.placeholder += 1
            n = self.placeholder
            self.addr[key] = None
        s = None
        return self._observe('new %s' % key, '(OpNew %d%%N)' % n, code, [], txt)

    def op_new_direct(self, key):
        d = _Dummy()
        code, iss, txt = self._guard(lambda: self.env.get_inference_state_subprocess(d))
        if code == 0:
            self.objs[key] = (iss, d)
            self.addr[key] = iss._inference_state_id
            n = self.cid(iss._inference_state_id)
        else:
            self.placeholder += 1
            n = self.placeholder
            self.addr[key] = None
        iss = None
        return self._observe('new %s' % key, '(OpNew %d%%N)' % n, code, [], txt)

    def _missing(self, name, key, gallina_fmt):
        """The Script never came into being (its creation failed): nothing to run."""
        self.placeholder += 1
        return self._observe('%s %s (no such script)' % (name, key),
                             gallina_fmt.replace('@ID', '%d%%N' % self.placeholder), 9, [], None)

    def op_query_api(self, key, kind, baseline, compare=True):
        if key not in self.objs:
            return self._missing('query', key, '(OpQuery @ID [CEcho 1%N])')
        s = self.objs[key]

        def go():
            if kind == 'complete':
                return [c.name for c in s.complete()]
            return sorted((d.name, d.type, d.module_name) for d in s.infer())
        code, val, txt = self._guard(go)
        s = None
        wid = self.addr[key]
        # the calls the query made are read off the wire; their answers are engine business:
        # "same answer as the undisturbed run" stands for the echo of every call
        pending = self.new_log_peek()
        answered = sum(1 for w in pending if w.get('ev') == 'req' and w.get('fn') is not None
                       and w.get('id') == wid and w.get('phase') in (None, 'before', 'after'))
        ncalls = answered if code == 0 else answered + 1   # + the call that failed
        same = code == 0 and (_norm(val) == _norm(baseline) or not compare)
        answers = list(range(1, ncalls + 1)) if same else ([] if code else [0])
        cs = '[' + '; '.join('CEcho %d%%N' % i for i in range(1, ncalls + 1)) + ']' if ncalls else '(@nil call)'
        rec = self._observe('query %s' % key, '(OpQuery %d%%N %s)' % (self.cid(wid), cs), code, answers, txt,
                            dict(value=val, same_as_undisturbed=same))
        if code == 0 and not same:
            self.anomalies.append(dict(cls='answer-differs', op=rec['op'], index=len(self.ops) - 1,
                                       got=val, undisturbed=baseline))
        self._check_states(rec, key)
        return rec

    def new_log_peek(self):
        pos = self.logpos
        out = self.new_log()
        self.logpos = pos
        return out

    def op_query_direct(self, key, calls):
        """calls: list of int (echo) | 'raise'."""
        cs = '[' + '; '.join('CRaise' if c == 'raise' else 'CEcho %d%%N' % c for c in calls) + ']' if calls \
            else '(@nil call)'
        if key not in self.objs:
            return self._missing('query', key, '(OpQuery @ID ' + cs + ')')
        iss = self.objs[key][0]
        got = []

        def go():
            for c in calls:
                if c == 'raise':
                    iss._test_raise_error(FloatingPointError)
                else:
                    got.append(iss.safe_literal_eval(str(c)))
            return got
        code, val, txt = self._guard(go)
        iss = None
        answers = [a if isinstance(a, int) and 0 <= a < 10 ** 6 else 999999 for a in got] if code == 0 else []
        rec = self._observe('query %s %r' % (key, calls), '(OpQuery %d%%N %s)' % (self.cid(self.addr[key]), cs),
                            code, answers, txt)
        if code == 0 and got != [c for c in calls]:
            self.anomalies.append(dict(cls='answer-differs', op=rec['op'], index=len(self.ops) - 1, got=got))
        self._check_states(rec, key)
        return rec

    def op_drop(self, key):
        if key not in self.objs:
            return self._missing('drop', key, '(OpDrop @ID)')
        wid = self.addr[key]
        ref = weakref.ref(self._iss(self.objs[key]))
        del self.objs[key]
        gc.collect()
        rec = self._observe('drop %s' % key, '(OpDrop %d%%N)' % self.cid(wid), 0, [], None)
        if ref() is not None:
            self.anomalies.append(dict(cls='script-not-collectable', op=rec['op'], index=len(self.ops) - 1))
        return rec

    def op_syspath(self):
        code, val, txt = self._guard(lambda: self.env.get_sys_path())
        return self._observe('syspath', 'OpSysPath', code, [], txt)

    # -- end of case
    def close(self):
        self.objs.clear()
        self.env = None
        gc.collect()
        deadline = time.time() + 10
        while time.time() < deadline:
            procs = [(p, s) for p, s in child_procs() if p not in self.children0]
            if not procs:
                break
            time.sleep(0.02)
        fds = nfds() - self.f0
        thr = threading.active_count() - self.threads0
        if procs or fds or thr:
            self.anomalies.append(dict(cls='not-released-at-end', procs=procs, fds=fds, threads=thr))

    def wire_obs(self):
        """The whole proxy log as the tuples Model.wire_obs produces."""
        out = []
        try:
            lines = [json.loads(l) for l in open(self.log) if l.strip()]
        except OSError:
            lines = []
        for w in lines:
            ev = w.get('ev')
            if w.get('gen') == 1 and w.get('i') == 0:
                continue   # the handshake of the first helper: Model.init is the state after it
            if ev == 'fault' and w['phase'] in ('before', 'before-late'):
                out.append((w['gen'], w['i'], 7, 0, 1, []))
            elif ev == 'fault' and w['phase'] == 'after':
                k, i = self._kind(w)
                out.append((w['gen'], w['i'], k, i, 2, []))
            elif ev == 'req':
                k, i = self._kind(w)
                ph = w.get('phase')
                if ph == 'raise' and (k == 2 or w.get('fn') == '_get_info'):
                    ph = None
                if ph in ('before', 'after'):
                    ph = None
                st = w.get('states')
                st = sorted(self.canon.get(x, 0) for x in st) if isinstance(st, list) else [777]
                out.append((w['gen'], w['i'], k, i, FAULT_CODE[ph], [1] + st))
            elif ev == 'helper-eof':
                out.append((w['gen'], w['i'], 8, 0, 8, []))
        return out

    def _kind(self, w):
        if w.get('id') is None:
            return 0, 0
        if not isinstance(w.get('id'), int):
            return 8, 0
        return (2 if w.get('fn') is None else 1), self.canon.get(w['id'], 0)


# ---------------------------------------------------------------------------- programs
def run_program(case):
    """Worker entry: execute one case, return everything observed."""
    t0 = time.time()
    tmp = os.path.join(case['tmp'], 'w%d' % os.getpid())
    os.makedirs(tmp, exist_ok=True)
    faults = {str(g): v for g, v in case['faults'].items()}
    try:
        drv = Driver(tmp, faults)
    except BaseException as e:
        return dict(case=case, fatal='Environment(proxy) failed: %r' % (e,))
    try:
        try:
            if case['level'] == 'api':
                _run_api(drv, case)
            else:
                _run_direct(drv, case)
        except AbortCase:
            return dict(case=case, ops=drv.ops, obs=drv.obs, wire=drv.wire_obs(), records=drv.records,
                        anomalies=drv.anomalies, wall=round(time.time() - t0, 2), aborted=True)
        # whatever happened: a new Script on this environment must work again (retry while a
        # scheduled fault is still ahead)
        for i in range(5):
            k = 'zz%d' % i
            r = drv.op_new_direct(k)
            if r['code'] == 0:
                r = drv.op_query_direct(k, [0])
            drv.op_drop(k)
            if r['code'] == 0:
                break
        else:
            drv.anomalies.append(dict(cls='no-recovery', op='final probe', index=len(drv.ops) - 1))
        drv.close()
        return dict(case=case, ops=drv.ops, obs=drv.obs, wire=drv.wire_obs(), records=drv.records,
                    anomalies=drv.anomalies, wall=round(time.time() - t0, 2))
    except BaseException as e:
        import traceback
        return dict(case=case, fatal='driver failed: %r\n%s' % (e, traceback.format_exc()[-1500:]))


def _run_api(drv, case):
    base = case['baseline']
    # Environment.get_sys_path is memoised: make the environment ask once, first (retry while it fails)
    for _ in range(5):
        if drv.op_syspath()['code'] == 0:
            break
    for step in case['program']:
        kind = step[0]
        if kind == 'script':          # create, query, (retry with a new Script while it fails), drop/keep
            _, key, si, keep, again = step
            src, qk = SCENARIOS[si]
            for attempt in range(5):
                k = '%s.%d' % (key, attempt)
                r = drv.op_new_script(k, src)
                if r['code'] == 0:
                    r = drv.op_query_api(k, qk, base[si])
                    if again:     # the same Script is asked again right away (stale when its helper died)
                        drv.op_query_api(k, qk, base[si], compare=r['code'] == 0)
                ok = r['code'] == 0
                if not (keep and (ok or attempt == 0)):
                    drv.op_drop(k)
                if ok:
                    break
        elif kind == 'dropall':
            for k in list(drv.objs):
                drv.op_drop(k)


def _run_direct(drv, case):
    for step in case['program']:
        kind = step[0]
        if kind == 'new':
            if step[1] in drv.objs:
                continue
            drv.op_new_direct(step[1])
        elif kind == 'query':
            drv.op_query_direct(step[1], step[2])
        elif kind == 'drop':
            drv.op_drop(step[1])
        elif kind == 'syspath':
            drv.op_syspath()


def _baseline_task(arg):
    """Undisturbed answers of every scenario (own worker, own Environment, twice each)."""
    tmp = os.path.join(arg['tmp'], 'base%d' % os.getpid())
    os.makedirs(tmp, exist_ok=True)
    drv = Driver(tmp, {})
    out = []
    for si, (src, qk) in enumerate(SCENARIOS):
        vals = []
        for rep in range(2):
            k = 'b%d.%d' % (si, rep)
            drv.op_new_script(k, src)
            r = drv.op_query_api(k, qk, None)
            vals.append((r['code'], r['value'], sum(1 for w in r['wire'] if w.get('ev') == 'req' and w.get('fn'))))
            drv.op_drop(k)
        out.append(vals)
    drv.close()
    return out


# ---------------------------------------------------------------------------- Gallina
def g_case(res):
    sched = []
    for g, v in sorted(res['case']['faults'].items(), key=lambda kv: int(kv[0])):
        sched.append('(%d%%N, %d%%N, %s)' % (int(g), int(v[0]), FAULT_G[v[1]]))
    obs = []
    for (code, answers, g, crashed, z, fds) in res['obs']:
        obs.append('(%d%%N, %s, %d%%N, %s, %d%%N, %d%%N)' % (
            code, common.g_list(answers, common.g_N, 'N'), g, common.g_bool(bool(crashed)), z, max(0, fds)))
    wire = []
    for (g, i, k, ident, f, st) in res['wire']:
        wire.append('(%d%%N, %d%%N, %d%%N, %d%%N, %d%%N, %s)' % (g, i, k, ident, f, common.g_list(st, common.g_N, 'N')))
    return '(%s, %s, %s, %s)' % (
        common.g_list(sched, str, 'N * N * fault'),
        common.g_list(res['ops'], str, 'op'),
        common.g_list(obs, str, 'N * list N * N * bool * N * N'),
        common.g_list(wire, str, 'N * N * N * N * N * list N'))


# ---------------------------------------------------------------------------- oracle
CRASH_PHASES = ('before', 'before-late', 'after', 'trunc')


def oracle(res):
    """The property, checked directly on what the implementation did (no model involved).
    Returns a list of findings: dict(cls=..., ...)."""
    out = list(res['anomalies'])
    dead = set()            # generations whose death has happened
    gen_of = {}             # script key -> generation it was created on
    deaths = 0
    failures = 0
    for idx, rec in enumerate(res['records']):
        name = rec['op'].split()
        verb, key = name[0], (name[1] if len(name) > 1 else None)
        stale = verb == 'query' and gen_of.get(key) in dead
        injected_raise = any(w.get('ev') == 'req' and w.get('phase') == 'raise' and w.get('fn') not in (None, '_get_info')
                             for w in rec['wire']) or "'raise'" in rec['op']
        hand = False
        for w in rec['wire']:
            crash = (w.get('ev') == 'fault') or (w.get('ev') == 'req' and w.get('phase') == 'trunc')
            if crash and w['gen'] not in dead:
                dead.add(w['gen'])
                if not (w.get('ev') == 'fault' and w.get('phase') == 'before'):
                    deaths += 1          # a pre-armed "before" counts when it is met (below)
                if w.get('i') == 0 and w['gen'] >= 2:
                    hand = True
        code = rec['code']
        if verb == 'new' and code == 0:
            gen_of[key] = rec['gens']
        if code in (0, 9):
            continue
        if code == 2:
            if not injected_raise:
                out.append(dict(cls='helper-exception-out-of-nowhere', op=rec['op'], index=idx, exc=rec['exc']))
            continue
        if stale:
            if code != 1:
                out.append(dict(cls='stale-script-not-InternalError', op=rec['op'], index=idx, exc=rec['exc']))
            continue
        failures += 1
        if code == 3:
            out.append(dict(cls='handshake-death-invalid-env' if hand else 'invalid-env-without-handshake-death',
                            op=rec['op'], index=idx, exc=rec['exc']))
        elif code != 1:
            out.append(dict(cls={4: 'helper-KeyError', 5: 'UnpicklingError-escapes', 7: 'hang'}.get(code, 'other-exception'),
                            op=rec['op'], index=idx, exc=rec['exc']))
    # a pre-armed "dead before send" that was met shows as a failure; count those deaths now
    armed = sum(1 for rec in res['records'] for w in rec['wire']
                if w.get('ev') == 'fault' and w.get('phase') == 'before')
    if failures > deaths + armed:
        out.append(dict(cls='more-failures-than-deaths', failures=failures, deaths=deaths + armed))
    return out


# ---------------------------------------------------------------------------- case generators
CUTS = [0, 1, 2, 3, 0.25, 0.5, 0.75, -2, -1]


def gen_api_single(ctx, ncalls, tmp, baseline):
    full = [0, 2] if ctx.quick else list(range(len(SCENARIOS)))
    cases = []
    for si in range(len(SCENARIOS)):
        other = 1 if si != 1 else 0
        K = 1 + ncalls[si] + 1 + ncalls[other]
        ks = list(range(1, K + 1))
        if si not in full:
            ks = sorted(ctx.rng.sample(ks, min(len(ks), 3)))
        for k in ks:
            for ph in PHASES:
                keep, again = ctx.rng.random() < 0.3, ctx.rng.random() < 0.4
                cases.append(dict(stream='api-single', level='api', tmp=tmp, baseline=baseline,
                                  faults={1: [k, ph, ctx.rng.choice(CUTS)]},
                                  program=[['script', 'a', si, keep, again], ['script', 'b', other, False, False],
                                           ['dropall']]))
    return cases


def gen_api_multi(ctx, tmp, baseline):
    cases = []
    for _ in range(ctx.n(40, 400)):
        faults = {}
        for g in range(1, ctx.rng.choice([2, 3, 3, 4, 4])):
            lo = 1 if g == 1 else 0
            k = ctx.rng.choice([lo, lo, lo + 1, 2, 3, 4, 5, 6, 8, 11])
            faults[g] = [k, ctx.rng.choice(PHASES if k else CRASH3), ctx.rng.choice(CUTS)]
        prog = []
        for j in range(ctx.rng.randint(2, 4)):
            prog.append(['script', 's%d' % j, ctx.rng.randrange(len(SCENARIOS)), ctx.rng.random() < 0.35,
                         ctx.rng.random() < 0.35])
        prog.append(['dropall'])
        cases.append(dict(stream='api-multi', level='api', tmp=tmp, baseline=baseline, faults=faults, program=prog))
    return cases


CRASH3 = ('before', 'after', 'trunc')


def gen_api_leak(ctx, tmp, baseline):
    cases = []
    n = ctx.n(40, 200)
    for variant in range(2):
        prog = []
        for j in range(n):
            prog.append(['script', 'l%d' % j, ctx.rng.choice([0, 1, 4]), j % 7 == 3, False])
        prog.append(['dropall'])
        faults = {} if variant == 0 else {1: [n * 2, 'after', 0.5], 2: [n, 'trunc', 0.5]}
        cases.append(dict(stream='api-leak', level='api', tmp=tmp, baseline=baseline, faults=faults, program=prog))
    return cases


def gen_direct(ctx, tmp):
    cases = []
    keys = 'abcdef'
    for _ in range(ctx.n(60, 600)):
        faults = {}
        for g in range(1, ctx.rng.choice([1, 2, 3, 4, 4, 5])):
            lo = 1 if g == 1 else 0
            k = ctx.rng.randint(lo, 12)
            faults[g] = [k, ctx.rng.choice(PHASES if k else CRASH3), ctx.rng.choice(CUTS)]
        prog = []
        live = set()
        for _ in range(ctx.rng.randint(12, 36)):
            r = ctx.rng.random()
            k = ctx.rng.choice(keys)
            if r < 0.28 or not live:
                if k not in live:
                    prog.append(['new', k])
                    live.add(k)
            elif r < 0.72:
                k = ctx.rng.choice(sorted(live))
                calls = [ctx.rng.randint(0, 99) if ctx.rng.random() < 0.9 else 'raise'
                         for _ in range(ctx.rng.choice([0, 1, 1, 2, 3]))]
                prog.append(['query', k, calls])
            elif r < 0.92:
                k = ctx.rng.choice(sorted(live))
                prog.append(['drop', k])
                live.discard(k)
            else:
                prog.append(['syspath'])
        cases.append(dict(stream='direct', level='direct', tmp=tmp, faults=faults, program=prog))
    return cases


def gen_trunc_cuts(ctx, tmp):
    cases = []
    prog = [['new', 'a'], ['query', 'a', [7]], ['syspath'], ['query', 'a', [8]], ['drop', 'a']]
    small = list(range(0, 24, 2 if ctx.quick else 1))
    big = list(range(0, 300, 12 if ctx.quick else 1))
    for cut in small:
        cases.append(dict(stream='trunc-cuts', level='direct', tmp=tmp, faults={1: [1, 'trunc', cut]}, program=prog))
    for cut in big:
        cases.append(dict(stream='trunc-cuts', level='direct', tmp=tmp, faults={1: [2, 'trunc', cut]}, program=prog))
    return cases



def run_first(case):
    """Worker entry for the FIRST handshake of an environment: Environment(proxy) with a fault
    on request 0 of generation 1."""
    tmp = os.path.join(case['tmp'], 'w%d' % os.getpid())
    os.makedirs(tmp, exist_ok=True)
    ctl = os.path.join(tmp, 'ctl.json')
    for f in (ctl + '.gen', ctl + '.log'):
        if os.path.exists(f):
            os.unlink(f)
    with open(ctl, 'w') as f:
        json.dump({'states': True, 'log': ctl + '.log', 'faults': {str(g): v for g, v in case['faults'].items()}}, f)
    os.environ['C14_CTL'] = ctl
    gc.collect()
    f0, kids0, thr0 = nfds(), {p for p, _ in child_procs()}, threading.active_count()
    from jedi.api.environment import Environment
    old = signal.signal(signal.SIGALRM, _on_alarm)
    signal.alarm(OP_TIMEOUT)
    env, code, txt = None, 0, None
    try:
        env = Environment(PROXY)
    except BaseException as e:
        code = classify(e)
        txt = '%s.%s: %s' % (type(e).__module__, type(e).__name__, str(e)[:200].replace('\n', ' | '))
        e = None
    finally:
        signal.alarm(0)
        signal.signal(signal.SIGALRM, old)
    gc.collect()
    procs = [(p, st) for p, st in child_procs() if p not in kids0]
    z = sum(1 for _, st in procs if st == 'Z')
    fds = nfds() - f0
    out = dict(case=case, code=code, exc=txt, zombies=z, fds=fds, procs=procs)
    env = None
    gc.collect()
    out['left'] = dict(procs=[(p, st) for p, st in child_procs() if p not in kids0], fds=nfds() - f0,
                       threads=threading.active_count() - thr0)
    return out


def gen_first(ctx, tmp):
    cases = [dict(stream='first-handshake', tmp=tmp, faults={}), dict(stream='first-handshake', tmp=tmp, faults={1: [0, 'raise', 0]})]
    for ph in CRASH3:
        for cut in ([0.5] if ph != 'trunc' else ([1, 0.5, -1] if ctx.quick else [0, 1, 2, 5, 0.25, 0.5, 0.75, -2, -1])):
            cases.append(dict(stream='first-handshake', tmp=tmp, faults={1: [0, ph, cut]}))
    return cases


def evaluate_first(ctx, results):
    cases = []
    for r in results:
        sched = ['(%d%%N, %d%%N, %s)' % (int(g), int(v[0]), FAULT_G[v[1]]) for g, v in r['case']['faults'].items()]
        cases.append('(%s, (%d%%N, %d%%N, %d%%N))' % (common.g_list(sched, str, 'N * N * fault'), r['code'], r['zombies'],
                                                     max(0, r['fds'])))
    fails, err = common.coq_failing(IMPORTS, 'check_start', cases)
    if err:
        raise RuntimeError('coq evaluation failed (first-handshake): ' + err)
    for i, r in enumerate(results):
        crash = any(v[1] in CRASH3 for v in r['case']['faults'].values())
        ctx.count('first-handshake', json.dumps(r['case']['faults'], sort_keys=True), nontrivial=crash)
        data = {k: v for k, v in r.items() if k != 'case'}
        data['case'] = {k: v for k, v in r['case'].items() if k != 'tmp'}
        bad = None
        if crash and r['code'] != 3:
            bad = 'first-handshake-death-not-InvalidPythonEnvironment'
        elif not crash and r['code'] != 0:
            bad = 'environment-creation-fails-without-a-crash'
        elif r['zombies'] or r['fds'] != (0 if crash else 3):
            bad = 'first-handshake-not-reaped'
        elif r['left']['procs'] or r['left']['fds'] or r['left']['threads']:
            bad = 'not-released-at-end'
        if bad:
            ctx.deviation(dict(cls=bad, model_agrees=i not in fails), data, 'C14 %s' % bad)
        elif i in fails:
            ctx.violation('obligation', dict(what='correspondence C14 start_env: model and Environment(...) differ on the first handshake',
                                             **data), nofail=True)

# ---------------------------------------------------------------------------- run
def _slim(res, keep_wire=True):
    """A JSON-able, readable rendering of a result for replay files."""
    recs = []
    for r in res.get('records', []):
        recs.append({k: v for k, v in r.items() if keep_wire or k != 'wire'})
    case = {k: v for k, v in res['case'].items() if k != 'tmp'}
    return dict(case=case, records=recs)


def evaluate(ctx, results):
    """Oracle + model comparison for executed cases."""
    good = []
    for res in results:
        if 'fatal' in res:
            ctx.violation('obligation', dict(what='C14 driver could not run a case: ' + res['fatal'],
                                             case={k: v for k, v in res['case'].items() if k != 'tmp'}), nofail=True)
        else:
            good.append(res)
    cases = [g_case(r) for r in good]
    fails, err = common.coq_failing(IMPORTS, 'check_case', cases, shard=40)
    if err:
        raise RuntimeError('coq evaluation failed: ' + err)
    fails = set(fails)
    nfaulted = 0
    for i, res in enumerate(good):
        case = res['case']
        triggered = sum(1 for rec in res['records'] for w in rec['wire']
                        if w.get('ev') == 'fault' or w.get('phase') in ('trunc', 'raise'))
        nfaulted += bool(triggered)
        ctx.count(case['stream'], (json.dumps(case['faults'], sort_keys=True), json.dumps(case['program'])),
                  nontrivial=triggered > 0 or case['stream'] == 'api-leak')
        found = oracle(res)
        agrees = i not in fails
        for f in found:
            sig = dict(cls=f['cls'], model_agrees=agrees)
            ctx.deviation(sig, dict(finding=f, **_slim(res, keep_wire=len(res['records']) < 60)),
                          'C14 %s: %s' % (f['cls'], {k: v for k, v in f.items() if k != 'cls'}))
        if not agrees and not found:
            model = common.coq_show(IMPORTS, ["let '(sch, ops, obs, wobs) := %s in run_obs true true (sched_of sch) init ops" % cases[i]])
            ctx.violation('obligation', dict(
                what='correspondence C14_Protocol: the model does not predict what jedi did (per-operation outcome / '
                     'helper generation / crash flag / zombies / pipe ends, or the wire log with the helper-side ids); '
                     'the property oracles found nothing wrong on this case',
                observed=dict(obs=res['obs'], wire=res['wire']), model=model[-6000:], **_slim(res, keep_wire=False)),
                nofail=True)
    return good, nfaulted


def run(ctx):
    common.setup_jedi(os.path.join(ctx.tmp, 'cache'))
    ctx.proofs()
    ctx.cov['fingerprints'] = common.fingerprint(FP)
    ctx.cov['rule'] = (
        'api-single: every request index of gen 1 (get_sys_path, each call of the first query, the deletion frame, '
        'each call of the second query) x {before, after, trunc, raise} for scenarios ' +
        ('0,2 (3 seeded indices for the others)' if ctx.quick else 'all') +
        '; api-multi: seeded 1-3 faults incl. handshake deaths, Scripts kept/re-queried; api-leak: create/query/drop cycles; '
        'direct: seeded random op sequences on InferenceStateSubprocess objects with 0-4 faults; trunc-cuts: byte offsets of '
        'a small and a large reply; non-trivial = a fault was actually met (leak: always); distinct by (schedule, program)')
    ctx.assumptions += [
        'the engine does not catch exceptions raised by helper calls (checked: every faulted index gives the predicted exception)',
        'which helper calls a query makes is engine behaviour: their number is read off the wire, their answers stand for "equal to the undisturbed run"',
        'faults are injected by a proxy process between jedi and the real helper; "dead before send" at request 0 of a generation is physically an EOF on read',
        'pickle, subprocess.Popen, os pipes, weakref.finalize and gc are trusted as they are',
    ]
    tmp = ctx.tmp
    t = time.time()
    base = common.pmap(_baseline_task, [dict(tmp=tmp)])[0]
    for si, vals in enumerate(base):
        if vals[0][0] != 0 or vals[0][:2] != vals[1][:2] or vals[0][2] - (1 if si == 0 else 0) != vals[1][2] and False:
            ctx.violation('obligation', dict(what='C14 baseline: undisturbed scenario fails or is not repeatable',
                                             scenario=SCENARIOS[si], runs=vals), nofail=True)
            return
    baseline = [vals[1][1] for vals in base]
    ncalls = [vals[1][2] for vals in base]
    ctx.stat('scenario_calls', {SCENARIOS[i][0]: ncalls[i] for i in range(len(SCENARIOS))})
    ctx.stat('wall_baseline', round(time.time() - t, 1))

    cases = (gen_api_single(ctx, ncalls, tmp, baseline) + gen_api_multi(ctx, tmp, baseline) +
             gen_api_leak(ctx, tmp, baseline) + gen_direct(ctx, tmp) + gen_trunc_cuts(ctx, tmp))
    only = os.environ.get('C14_ONLY')      # development aid: restrict to some streams
    if only:
        cases = [c for c in cases if c['stream'] in only.split(',')]
        ctx.cov['rule'] += ' [restricted by C14_ONLY=%s]' % only
    # long cases first so that the pool drains evenly
    order = sorted(range(len(cases)), key=lambda i: -len(cases[i]['program']))
    t = time.time()
    results = common.pmap(run_program, [cases[i] for i in order], chunksize=1, timeout=6 * 3600)
    ctx.stat('wall_execute', round(time.time() - t, 1))
    if not only or 'first-handshake' in only.split(','):
        evaluate_first(ctx, common.pmap(run_first, gen_first(ctx, tmp), chunksize=1, timeout=6 * 3600))
    t = time.time()
    good, nfaulted = evaluate(ctx, results)
    ctx.stat('wall_model', round(time.time() - t, 1))
    by = {}
    codes = {}
    for r in good:
        by[r['case']['stream']] = by.get(r['case']['stream'], 0) + 1
        for rec in r['records']:
            codes[rec['code']] = codes.get(rec['code'], 0) + 1
    ctx.stat('cases_per_stream', by)
    ctx.stat('cases_with_a_fault_met', nfaulted)
    ctx.stat('operation_outcomes', {str(k): v for k, v in sorted(codes.items())})
    ctx.stat('operations', sum(len(r['ops']) for r in good))
    ctx.stat('wire_frames', sum(len(r['wire']) for r in good))
    ctx.stat('max_case_wall', max([r.get('wall', 0) for r in good] or [0]))
    for r in good:
        if r['case']['stream'] == 'api-multi' and len(r['case']['faults']) >= 2:
            ctx.sample(dict(stream='api-multi', faults=r['case']['faults'], program=r['case']['program'],
                            outcomes=[(x['op'], x['code'], x['gens']) for x in r['records']][:14]))
            break
    for r in good:
        if r['case']['stream'] == 'direct' and len(r['case']['faults']) >= 2:
            ctx.sample(dict(stream='direct', faults=r['case']['faults'],
                            outcomes=[(x['op'], x['code'], x['answers'], x['gens']) for x in r['records']][:14]))
            break


def replay(ctx, path):
    rec = json.load(open(path))
    case = rec.get('case')
    print(json.dumps({k: v for k, v in rec.items() if k not in ('records', 'model', 'observed')}, indent=1)[:3000])
    if not case:
        return 0
    common.setup_jedi(os.path.join(ctx.tmp, 'cache'))
    case = dict(case, tmp=ctx.tmp, faults={int(g): v for g, v in case['faults'].items()})
    if case.get('stream') == 'first-handshake':
        r = common.pmap(run_first, [case])[0]
        print('--- implementation now:', {k: v for k, v in r.items() if k != 'case'})
        return 0
    res = common.pmap(run_program, [case])[0]
    if 'fatal' in res:
        print(res['fatal'])
        return 0
    print('--- implementation now:')
    for r in res['records']:
        print('  %-40s code=%s answers=%s gens=%s crashed=%s zombies=%s fds=%s %s' % (
            r['op'], r['code'], r['answers'], r['gens'], r['crashed'], r['zombies'], r['fds'], r['exc'] or ''))
    print('  wire:', res['wire'])
    print('--- oracle:', oracle(res))
    g = g_case(res)
    print('--- model (per-operation tuples, wire):')
    print(common.coq_show(IMPORTS, ["let '(sch, ops, obs, wobs) := %s in run_obs true true (sched_of sch) init ops" % g,
                                    'check_case %s' % g]))
    return 0
