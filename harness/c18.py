"""C18 — get_context, parent() and full_name describe the lexical nesting.

Streams (all on the same inputs: generated projects + corpus files of /repo/jedi)
  context    Script.get_context(line, col) at EVERY (line, col) of generated programs (and a sample
             of positions of corpus files) vs the Coq model `get_context` evaluated on the definition
             tree + leaves extracted with `ast`/`tokenize` (independent of parso)
  oracle     the property itself at every position that lies on a token: the innermost def/class (ast
             extents) whose body holds the token (strict reading); header tokens -> the definition
             (the reading pinned by upstream's test_context)
  parents    Name.parent() chains of the names of get_names(all_scopes=True) vs model `parent_chain`
             and vs the ast nesting (def/class names, parameters, plain suite names)
  fullname   Name.full_name of def/class names vs model `full_name_def`, and vs
             module.__name__ + '.' + obj.__qualname__ from importing the project in a subprocess
             (definitions at module/class level)
  spec       the model's specification side (`innermost in_body`, `innermost_ext_col`, `wf_file`,
             `on_code`, `qualname`) vs the Python/ast oracle, so the theorems are anchored at both ends
"""
import ast
import io
import json
import os
import subprocess
import sys
import time
import tokenize

import common
from common import g_str, g_N, g_list

IMPORTS = 'From JV Require Import Base.Str Model.C18_Nesting.\n'

FP = [('jedi/api/__init__.py', 'Script.get_context'),
      ('jedi/inference/context.py', 'TreeContextMixin.create_context'),
      ('jedi/inference/context.py', 'TreeContextMixin.create_value'),
      ('jedi/parser_utils.py', 'get_parent_scope'),
      ('jedi/parser_utils.py', 'is_scope'),
      ('jedi/api/classes.py', 'BaseName.parent'),
      ('jedi/api/classes.py', 'BaseName.full_name'),
      ('jedi/inference/names.py', 'AbstractNameDefinition.get_qualified_names'),
      ('jedi/inference/names.py', 'AbstractTreeName._get_qualified_names'),
      ('jedi/inference/names.py', 'ValueNameMixin._get_qualified_names'),
      ('jedi/inference/value/function.py', 'FunctionAndClassBase.get_qualified_names')]

KINDS = {'func': 'Func', 'cls': 'Cls', 'lam': 'Lam', 'comp': 'Comp'}
UNKNOWN = 999999   # id for an implementation answer that names nothing in the definition tree


# =============================================================================
# extraction of the definition tree and the leaves with ast + tokenize
class Unsupported(Exception):
    pass


class Sc:
    __slots__ = ('id', 'kind', 'name', 'ind', 'astart', 'kw', 'namepos', 'colon', 'body', 'bodytok',
                 'end', 'kids', 'parent', 'is_async')

    def __init__(self, kind):
        self.kind, self.kids, self.parent, self.is_async = kind, [], None, False
        self.name, self.namepos = '', None


def extract(src):
    """-> dict(leaves=[(start, end, type, string)], top=[Sc], scopes=[Sc] preorder, args=set, imports=[(l0,l1)])"""
    if '\r' in src or '\f' in src or '\x0b' in src:
        raise Unsupported('control characters')
    try:
        tree = ast.parse(src)
        raw = list(tokenize.generate_tokens(io.StringIO(src).readline))
    except (SyntaxError, tokenize.TokenError, ValueError, RecursionError) as e:
        raise Unsupported('not valid: %r' % (e,))
    lines = src.split('\n')
    skip = (tokenize.NL, tokenize.COMMENT, tokenize.INDENT, tokenize.DEDENT, tokenize.ENDMARKER)
    leaves = []
    for t in raw:
        if t.type in skip or (t.type == tokenize.NEWLINE and t.string == ''):
            continue
        end = (t.start[0] + 1, 0) if t.type == tokenize.NEWLINE else t.end
        leaves.append((t.start, end, t.type, t.string))
    index = {lf[0]: i for i, lf in enumerate(leaves)}
    last_end = leaves[-1][1] if leaves else (1, 0)

    def cv(lineno, bcol):
        line = lines[lineno - 1]
        if line.isascii():
            return (lineno, bcol)
        return (lineno, len(line.encode('utf8')[:bcol].decode('utf8', 'replace')))

    def stmt_end(node):
        e = cv(node.end_lineno, node.end_col_offset)
        # the newline leaf that terminates the last statement of the suite
        lo, hi = 0, len(leaves)
        while lo < hi:
            mid = (lo + hi) // 2
            if leaves[mid][0] < e:
                lo = mid + 1
            else:
                hi = mid
        for i in range(lo, len(leaves)):
            if leaves[i][2] == tokenize.NEWLINE:
                return leaves[i][1]
        return last_end

    args, imports = set(), []
    top = []

    def visit(node, into):
        if isinstance(node, (ast.FunctionDef, ast.AsyncFunctionDef, ast.ClassDef)):
            s = Sc('cls' if isinstance(node, ast.ClassDef) else 'func')
            st = cv(node.lineno, node.col_offset)
            s.astart, s.ind = st, st[1]
            i = index.get(st)
            if i is None:
                raise Unsupported('definition start is not a token')
            if isinstance(node, ast.AsyncFunctionDef):
                s.is_async = True
                i += 1
            if leaves[i][3] not in ('def', 'class'):
                raise Unsupported('keyword not found')
            s.kw = leaves[i][0]
            s.name, s.namepos = node.name, leaves[i + 1][0]
            if leaves[i + 1][3] != node.name:
                raise Unsupported('name token mismatch')
            depth, j = 0, i + 2
            while True:
                x = leaves[j][3]
                if leaves[j][2] == tokenize.OP:
                    if x in '([{':
                        depth += 1
                    elif x in ')]}':
                        depth -= 1
                    elif x == ':' and depth == 0:
                        break
                j += 1
            s.colon = leaves[j][0]
            nxt = leaves[j + 1]
            s.body = nxt[0]
            s.bodytok = leaves[j + 2][0] if nxt[2] == tokenize.NEWLINE else nxt[0]
            s.end = stmt_end(node)
            into.append(s)
            for d in node.decorator_list:
                visit(d, into)
            for fld, val in ast.iter_fields(node):
                if fld == 'decorator_list':
                    continue
                for c in (val if isinstance(val, list) else [val]):
                    if isinstance(c, ast.AST):
                        visit(c, s.kids)
            return
        if isinstance(node, ast.Lambda):
            s = Sc('lam')
            s.name = '<lambda>'
            s.kw = cv(node.lineno, node.col_offset)
            s.end = cv(node.end_lineno, node.end_col_offset)
        elif isinstance(node, (ast.ListComp, ast.SetComp, ast.DictComp, ast.GeneratorExp)):
            s = Sc('comp')
            s.kw = cv(node.lineno, node.col_offset)
            s.end = cv(node.end_lineno, node.end_col_offset)
        else:
            if isinstance(node, ast.arg):
                args.add(cv(node.lineno, node.col_offset))
            elif isinstance(node, (ast.Import, ast.ImportFrom)):
                imports.append((node.lineno, node.end_lineno))
            for c in ast.iter_child_nodes(node):
                visit(c, into)
            return
        s.astart, s.ind = s.kw, s.kw[1]
        s.colon = s.body = s.bodytok = s.kw
        into.append(s)
        for c in ast.iter_child_nodes(node):
            visit(c, s.kids)

    visit(tree, top)
    scopes = []

    def number(lst, parent):
        lst.sort(key=lambda s: s.kw)
        for s in lst:
            s.parent = parent
            s.id = len(scopes) + 1
            scopes.append(s)
            number(s.kids, s)

    number(top, None)
    return dict(leaves=leaves, top=top, scopes=scopes, args=args, imports=imports, lines=lines)


# ---- Gallina printers
def g_pos(p):
    return '(%d,%d)%%N' % p


def chunked(name, nums, out, size=120):
    """flat `list N` data as several small definitions (Coq's front end is super-linear in literal size)"""
    nums = list(nums)
    parts = []
    for i in range(0, len(nums), size):
        nm = '%s_%d' % (name, i // size)
        out.append('Definition %s : list N := [%s]%%N.' % (nm, ';'.join(str(n) for n in nums[i:i + size])))
        parts.append(nm)
    out.append('Definition %s : list N := %s.' % (name, ' ++ '.join(parts) if parts else 'nil'))


def enc_tokens(leaves):
    """per line: L k (c0 e0)*k ; e >= 10000 announces an end on line L + (e - 10000) followed by its column"""
    out, i = [], 0
    while i < len(leaves):
        L = leaves[i][0][0]
        j = i
        while j < len(leaves) and leaves[j][0][0] == L:
            j += 1
        out += [L, j - i]
        for st, en, _, _ in leaves[i:j]:
            if en[0] == L:
                if en[1] >= 10000:
                    raise Unsupported('line too long')
                out += [st[1], en[1]]
            else:
                out += [st[1], 10000 + en[0] - L, en[1]]
        i = j
    return out


# what the model is asked per file: one flat `list N` answer
DEFS = r"""
Fixpoint pairs (l : list N) : list pos :=
  match l with a :: b :: r => (a, b) :: pairs r | _ => [] end.
Fixpoint triples (l : list N) : list (N * pos) :=
  match l with k :: a :: b :: r => (k, (a, b)) :: triples r | _ => [] end.
(* decoder of enc_tokens *)
Inductive dst := SLine | SCount (L : N) | SStart (L k : N) | SEnd (L k c0 : N) | SEndCol (L k c0 dl : N).
Fixpoint dec_toks (s : dst) (l : list N) : list tok :=
  match l with
  | [] => []
  | x :: r =>
      match s with
      | SLine => dec_toks (SCount x) r
      | SCount L => if (x =? 0)%N then dec_toks SLine r else dec_toks (SStart L x) r
      | SStart L k => dec_toks (SEnd L k x) r
      | SEnd L k c0 =>
          if (x <? 10000)%N
          then ((L, c0), (L, x)) :: (if (k =? 1)%N then dec_toks SLine r else dec_toks (SStart L (k - 1)) r)
          else dec_toks (SEndCol L k c0 (x - 10000)) r
      | SEndCol L k c0 dl =>
          ((L, c0), (L + dl, x))%N :: (if (k =? 1)%N then dec_toks SLine r else dec_toks (SStart L (k - 1)) r)
      end
  end.
(* every column 0..len of the listed lines *)
Fixpoint cols (L : N) (n : nat) (c : N) : list pos :=
  match n with O => [(L, c)] | S n' => (L, c) :: cols L n' (c + 1)%N end.
Fixpoint all_cols (l : list N) : list pos :=
  match l with L :: len :: r => cols L (N.to_nat len) 0%N ++ all_cols r | _ => [] end.
Definition oid (o : option scope) : N := match o with Some s => s_id s | None => 0%N end.
Definition b2n (b : bool) : N := if b then 1%N else 0%N.
Definition enc_names (o : option (list str)) : list N :=
  match o with
  | None => [0%N]
  | Some l => 1%N :: N.of_nat (length l) :: flat_map (fun s => N.of_nat (length s) :: s) l
  end.
Definition nk (n : N) : nkind := match n with 0%N => NDef | 1%N => NParam | _ => NOther end.
Definition find_scope (l : list scope) (i : N) : option scope := find (fun s => (s_id s =? i)%N) l.
Definition lamcomp (i : N) (k : kind) (name : str) (kw e : pos) : scope := Scope i k name (snd kw) kw kw kw e.
Definition answer (f : file) (pall psel qsf nsf : list N) : list N :=
  let ps := all_cols pall ++ pairs psel in
  let qs := triples qsf in
  let ns := triples nsf in
  let l := scopes f in
  let wf := wf_file f in
  b2n wf
  :: flat_map (fun p => let cx := get_context_ctx f p in
                        let oc := on_code f p in
                        [ctx_id cx; oid (innermost in_body l p);
                         b2n oc + 2 * b2n (N.eqb (oid (innermost_ext_col l p)) (ctx_id cx))
                         + 4 * b2n (lam_cls_free l p)])%N ps
  ++ flat_map (fun d => if is_def d then enc_names (full_name_ctx f (chain_at l (s_kw d))) else []) l
  ++ flat_map (fun q => let ch := parent_chain l (nk (fst q)) (snd q) in N.of_nat (length ch) :: ch) qs
  ++ flat_map (fun n => match find_scope l (fst n) with
                        | Some d => enc_names (full_name_def f (snd n) (s_name d))
                                    ++ enc_names (if forallb is_cls (filter is_def (enclosing l d))
                                                  then Some (f_mod f ++ qualname l d) else None)
                        | None => [7%N; 7%N]
                        end) ns.
"""


def g_scope(s):
    if s.kind in ('lam', 'comp'):
        return 'lamcomp %d %s %s %s %s' % (s.id, KINDS[s.kind], g_str(s.name), g_pos(s.kw), g_pos(s.end))
    return 'Scope %d %s %s %d %s %s %s %s' % (s.id, KINDS[s.kind], g_str(s.name), s.ind, g_pos(s.kw),
                                              g_pos(s.colon), g_pos(s.body), g_pos(s.end))


def g_tree(s):
    return 'DT (%s) %s' % (g_scope(s), g_list(s.kids, g_tree, 'dtree'))


def file_defs(ex, modnames, out, pre=''):
    chunked(pre + 'tk', enc_tokens(ex['leaves']), out)
    for i, t in enumerate(ex['top']):
        out.append('Definition %stree_%d : dtree := %s.' % (pre, i, g_tree(t)))
    out.append('Definition %sthe_file : file := File %s (dec_toks SLine %stk) %s.' % (
        pre, g_list(modnames, g_str, 'str'), pre, g_list(range(len(ex['top'])), lambda i: '%stree_%d' % (pre, i), 'dtree')))


class Reader:
    def __init__(self, xs):
        self.xs, self.i = xs, 0

    def n(self):
        v = self.xs[self.i]
        self.i += 1
        return v

    def names(self):
        if self.n() == 0:
            return None
        out = []
        for _ in range(self.n()):
            k = self.n()
            out.append(''.join(chr(self.n()) for _ in range(k)))
        return out


# =============================================================================
# the property's oracle, from ast extents only (no model, no parso)
def py_oracle(ex, pos_tok):
    """For a token (start) -> (expected scope or None for module, 'suite'|'header'|'outside', E)."""
    best = None
    for s in ex['scopes']:            # preorder: the last def/class containing the token is the innermost
        if s.kind in ('func', 'cls') and s.kw <= pos_tok < s.end:
            best = s
    if best is None:
        return None, 'outside', None
    if pos_tok >= s_bodytok(best):
        return best, 'suite', best
    return best, 'header', best


def s_bodytok(s):
    return s.bodytok


def def_parent(s):
    p = s.parent
    while p is not None and p.kind not in ('func', 'cls'):
        p = p.parent
    return p


def def_chain(s):
    """ids of the enclosing def/class scopes of scope s (innermost first) then the module"""
    out = []
    p = def_parent(s)
    while p is not None:
        out.append(p.id)
        p = def_parent(p)
    return out + [0]


def innermost_any(ex, pos):
    """innermost scope of any kind containing the leaf start `pos`"""
    best = None
    for s in ex['scopes']:
        if s.kw <= pos < s.end:
            best = s
    return best


# =============================================================================
# program generator
class Gen:
    def __init__(self, rng):
        self.rng = rng
        self.lines = []
        self.uid = 0
        self.objs = []       # attribute paths of definitions reachable at module/class level

    def fresh(self, prefix):
        self.uid += 1
        return '%s%d' % (prefix, self.uid)

    def expr(self, scope_kind, depth=0):
        r = self.rng
        k = r.random()
        if depth > 2 or k < 0.35:
            return r.choice(['1', '2', "'s'", '(1, 2)', '[1, 2]', '3 + 4'])
        if k < 0.55:
            p = r.choice(['', 'q', 'q, r=2', '*a', 'q=%s' % self.expr(scope_kind, depth + 1)])
            return '(lambda %s: %s)' % (p, self.expr(scope_kind, depth + 1)) if p else '(lambda: %s)' % self.expr(scope_kind, depth + 1)
        if k < 0.75:
            elt = r.choice(['i', 'i + 1', '(lambda: i)', self.expr(scope_kind, depth + 1)])
            br = r.choice(['[]', '()', '{}']) if elt in ('i', 'i + 1') else r.choice(['[]', '()'])
            cond = r.choice(['', '', ' if i'])
            return '%s%s for i in (1, 2)%s%s' % (br[0], elt, cond, br[1])
        if k < 0.85 and scope_kind != 'cls':
            return '(lambda: (w%d := %s))' % (r.randint(0, 3), self.expr(scope_kind, depth + 1))
        if k < 0.92:
            return '{1: %s for j in (3,)}' % self.expr(scope_kind, depth + 1)
        return '[%s, %s]' % (self.expr(scope_kind, depth + 1), self.expr(scope_kind, depth + 1))

    def multiline(self, text, ind):
        """break a bracketed expression over lines with an arbitrary continuation indent"""
        r = self.rng
        if '(' not in text and '[' not in text:
            return [text]
        cut = [i for i, ch in enumerate(text) if ch in '([{,' and i + 1 < len(text)]
        if not cut:
            return [text]
        i = r.choice(cut) + 1
        cont = r.choice([0, 0, 1, ind, ind + 1, ind + 4, max(0, ind - 2), 7])
        rest = text[i:].lstrip()
        if not rest:
            return [text]
        # never split inside a string literal
        if text[:i].count("'") % 2:
            return [text]
        return [text[:i], ' ' * cont + rest]

    def noise(self, ind):
        r = self.rng
        k = r.random()
        if k < 0.12:
            self.lines.append('')
        elif k < 0.2:
            self.lines.append(' ' * r.choice([0, 1, ind, ind + 2, 9]))
        elif k < 0.3:
            self.lines.append(' ' * r.choice([0, 2, ind, ind + 3]) + '# c' + r.choice(['', ' def x():', ' é']))

    def simple(self, ind, scope_kind, in_func, is_async):
        r = self.rng
        pre = ' ' * ind
        k = r.random()
        if k < 0.25:
            text = '%s = %s' % (r.choice(['x', 'y', 'z', 'v%d' % r.randint(0, 5)]), self.expr(scope_kind))
        elif k < 0.35:
            text = self.expr(scope_kind)
        elif k < 0.42:
            text = 'pass'
        elif k < 0.5 and in_func:
            text = r.choice(['return %s', 'yield %s' if not is_async else 'return %s', 'return (%s)']) % self.expr(scope_kind)
        elif k < 0.56:
            text = 's = """a\nb\n  c"""'
        elif k < 0.62:
            text = 'x = 1 + \\\n%s2' % (' ' * r.choice([0, 1, ind + 4]))
        elif k < 0.65:
            text = 'a, b = 1, 2; c = 3'
        elif k < 0.68:
            text = 'lam%d = lambda: 0 ; after = [lambda: 1 , 2]' % r.randint(0, 3)
        elif k < 0.74 and scope_kind != 'cls':
            text = 'self_%d = [n for n in (1, 2)]; n2 = (k for k in (1,))' % r.randint(0, 3)
        elif k < 0.8 and in_func:
            text = 'self.attr%d = %s' % (r.randint(0, 3), self.expr(scope_kind))
        else:
            text = 'u = (%s, %s)' % (self.expr(scope_kind), self.expr(scope_kind))
        parts = text.split('\n')
        first = self.multiline(parts[0], ind) if r.random() < 0.3 and len(parts) == 1 else [parts[0]]
        if r.random() < 0.1:
            first[-1] += r.choice(['  # tail', ' ', '   '])
        self.lines.append(pre + first[0])
        self.lines.extend(first[1:])
        self.lines.extend(parts[1:])

    def header(self, ind, kind, name, scope_kind, is_async):
        r = self.rng
        pre = ' ' * ind
        decos = []
        for _ in range(r.choice([0, 0, 0, 1, 1, 2])):
            decos.append(r.choice(['@deco', '@deco2(1)', '@deco2((lambda: 1)())', '@deco2([i for i in (1,)])']))
        if kind == 'cls':
            base = r.choice(['', '', '()', '(Base)', '(Base, metaclass=type)', '(*[Base])', '((lambda: Base)())'])
            head = 'class %s%s:' % (name, base)
        else:
            params = []
            if scope_kind == 'cls' and r.random() < 0.8:
                params.append('self')
            for pn in r.sample(['a', 'b', 'c', 'd'], r.randint(0, 3)):
                k = r.random()
                if k < 0.4:
                    params.append(pn)
                elif k < 0.6:
                    params.append('%s=%s' % (pn, r.choice(['1', "'d'", '(1, 2)'])))
                elif k < 0.75:
                    params.append('%s=lambda p%s: p%s' % (pn, pn, pn))
                elif k < 0.85:
                    params.append('%s=[e for e in (1, 2)]' % pn)
                elif k < 0.93:
                    params.append('%s: int = 3' % pn)
                else:
                    params.append('%s=(lambda: (hw := 1))' % pn)
            if r.random() < 0.2:
                params.append('*args')
            if r.random() < 0.2:
                params.append('**kw')
            ret = r.choice(['', '', '', ' -> int', ' -> "T"'])
            head = '%sdef %s(%s)%s:' % ('async ' if is_async else '', name, ', '.join(params), ret)
        for d in decos:
            if scope_kind == 'cls' and kind == 'func' and r.random() < 0.3:
                d = r.choice(['@staticmethod', '@classmethod'])
            self.lines.append(pre + d)
            if r.random() < 0.1:
                self.lines.append(pre + '# between decorators')
        parts = self.multiline(head, ind) if r.random() < 0.3 else [head]
        self.lines.append(pre + parts[0])
        self.lines.extend(parts[1:])

    def definition(self, ind, depth, scope_kind, path):
        r = self.rng
        kind = 'cls' if r.random() < (0.6 if scope_kind == 'cls' else 0.4) else 'func'
        is_async = kind == 'func' and r.random() < 0.3
        name = self.fresh('C' if kind == 'cls' else 'f') if r.random() < 0.8 else r.choice(['m', 'n', 'K'] if kind == 'func' else ['K', 'L'])
        if name in path.get('used', set()):
            name = self.fresh('g')
        path.setdefault('used', set()).add(name)
        self.header(ind, kind, name, scope_kind, is_async)
        mypath = None
        if path['objs'] is not None:
            mypath = path['objs'] + [name]
            self.objs.append(mypath)
        sub = dict(objs=mypath if kind == 'cls' else None)
        if r.random() < 0.18:   # one-line body
            body = r.choice(['pass', 'x = 1', 'return (lambda: 2)' if kind == 'func' else 'y = (lambda: 2)',
                             'x = [i for i in (1, 2)]', 'pass  # c'])
            self.lines[-1] += ' ' + body
            return
        if r.random() < 0.12:
            self.lines[-1] += r.choice(['  # after colon', ' ', '    '])
        step = r.choice([1, 2, 4, 4, 4, 7, 8])
        if r.random() < 0.15:
            self.lines.append(r.choice(['', ' ' * (ind + step) + '# first', '# zero']))
        if r.random() < 0.2:
            self.lines.append(' ' * (ind + step) + r.choice(['"""doc"""', '"""doc\nmore\n"""']))
        self.block(ind + step, depth + 1, kind, kind == 'func', is_async, sub)

    def block(self, ind, depth, scope_kind, in_func, is_async, path):
        r = self.rng
        path = dict(path)
        path['in_func'] = in_func
        n = r.randint(1, 4 if depth else 6)
        for _ in range(n):
            self.noise(ind)
            k = r.random()
            if k < (0.55 if scope_kind == 'cls' else 0.42) and depth < 5:
                self.definition(ind, depth, scope_kind, path)
            elif k < 0.55 and depth < 4:
                # compound statement: indentation without a scope
                pre = ' ' * ind
                hd = r.choice(['if 1:', 'for t in (1, 2):', 'while 0:', 'try:'])
                self.lines.append(pre + hd)
                step = r.choice([1, 2, 4])
                inner = dict(path)
                inner['objs'] = None       # conditionally defined objects: not looked up at run time
                self.block(ind + step, depth + 1, scope_kind, in_func, is_async, inner)
                if hd == 'try:':
                    self.lines.append(pre + 'except Exception:')
                    self.lines.append(pre + ' ' * step + 'pass')
                elif r.random() < 0.3 and hd != 'try:':
                    self.lines.append(pre + 'else:')
                    self.lines.append(pre + ' ' * step + 'e = 1')
            else:
                self.simple(ind, scope_kind, in_func, is_async)

    def program(self):
        r = self.rng
        self.lines = []
        if r.random() < 0.15:
            self.lines.append(r.choice(['# leading comment', '', '"""module doc"""']))
        self.lines += ['def deco(f): return f', 'def deco2(n):', '    return deco', 'class Base: pass']
        self.block(0, 0, 'mod', False, False, dict(objs=[]))
        src = '\n'.join(self.lines)
        k = r.random()
        if k < 0.6:
            src += '\n'
        elif k < 0.75:
            src += '\n' + ' ' * r.choice([1, 4, 5, 8, 12])
        elif k < 0.85:
            src += '\n\n   \n'
        return src, self.objs


def gen_valid(rng):
    for _ in range(50):
        g = Gen(rng)
        src, objs = g.program()
        try:
            compile(src, '<gen>', 'exec')
        except SyntaxError:
            continue
        return src, objs
    raise RuntimeError('generator produced no valid program')


# =============================================================================
# running jedi
def _name_rec(d):
    return [d.type, d.name, d.line, d.column]


def _probe_task(task):
    """task = dict(src, path, root, positions, want_names) -> contexts / names from the real jedi"""
    import jedi
    out = dict(ctx=[], names=[], err=None, modfull=None)
    try:
        proj = jedi.Project(task['root'], smart_sys_path=True, load_unsafe_extensions=False)
        s = jedi.Script(task['src'], path=task['path'], project=proj)
        out['modfull'] = s.get_context(1, 0).full_name
    except Exception as e:
        out['err'] = common.exc_sig(e)
        return out
    for (l, c) in task['positions']:
        try:
            d = s.get_context(l, c)
            out['ctx'].append(_name_rec(d) + [d.full_name])
        except Exception as e:
            out['ctx'].append(dict(exc=common.exc_sig(e)))
    if task.get('want_names'):
        skip = task['import_lines']
        try:
            out['toplevel'] = [[n.line, n.column] for n in s.get_names(all_scopes=False, definitions=True, references=False)]
            names = s.get_names(all_scopes=True, definitions=True, references=False)
        except Exception as e:
            out['err'] = common.exc_sig(e)
            return out
        for nm in names:
            if any(a <= nm.line <= b for a, b in skip):
                continue
            rec = dict(name=nm.name, line=nm.line, column=nm.column)
            try:
                rec['type'] = nm.type
                chain, x, guard = [], nm.parent(), 0
                while x is not None and guard < 60:
                    chain.append(_name_rec(x))
                    x = x.parent()
                    guard += 1
                rec['chain'] = chain
                rec['full_name'] = nm.full_name
            except Exception as e:
                rec['exc'] = common.exc_sig(e)
            out['names'].append(rec)
    return out


QUAL_RUNNER = r'''
import sys, json, importlib
root, req = sys.argv[1], json.loads(sys.stdin.read())
sys.path.insert(0, root)
out = {}
for mod, paths in req.items():
    try:
        m = importlib.import_module(mod)
    except BaseException as e:
        out[mod] = {'error': repr(e)[:300]}
        continue
    res = {}
    for p in paths:
        o = m
        try:
            for a in p:
                o = getattr(o, a)
            res['.'.join(p)] = [m.__name__, o.__qualname__, getattr(o, '__module__', None)]
        except BaseException as e:
            res['.'.join(p)] = ['!', repr(e)[:200], None]
    out[mod] = {'name': m.__name__, 'objs': res}
print(json.dumps(out))
'''


# =============================================================================
def map_id(ex, rec):
    """a jedi Name record [type, name, line, column] -> id in the definition tree"""
    typ, name, line, col = rec[:4]
    if typ == 'module':
        return 0
    for s in ex['scopes']:
        if s.kind == 'lam':
            if name == '<lambda>' and s.kw == (line, col) and typ == 'function':
                return s.id
        elif s.kind in ('func', 'cls'):
            if s.namepos == (line, col) and s.name == name and typ == ('function' if s.kind == 'func' else 'class'):
                return s.id
    return UNKNOWN


def classify_suite_deviation(ex, pos, E, ti):
    """narrow classes for the known shapes; E = innermost def/class whose body holds the token leaves[ti]"""
    col = pos[1]
    leaves = ex['leaves']
    starts = [leaves[ti][0]]
    if ti > 0 and leaves[ti - 1][1] == pos:      # jedi takes the leaf that ends at the position
        starts.append(leaves[ti - 1][0])
    for st in starts:
        x = innermost_any(ex, st)
        while x is not None and x is not E:
            if x.kind == 'lam' and x.parent is E and E.kind == 'cls':
                return 'lambda-in-class'
            if x.kind in ('func', 'cls'):
                break
            x = x.parent
    if E.is_async and E.ind < col <= E.kw[1]:
        return 'async-keyword-column'
    if col <= E.ind:
        return 'continuation-dedent'
    return 'other'


class FileCase:
    """one source file: extraction, queries, observed results"""

    def __init__(self, src, path, root, modnames, label, objs=None):
        self.src, self.path, self.root, self.modnames, self.label, self.objs = src, path, root, modnames, label, objs
        self.ex = extract(src)
        self.positions = []   # = expansion of pos_lines (every column) followed by pos_sel
        self.pos_lines, self.pos_sel = [], []
        self.queries = []     # (kind, namepos) for parent chains
        self.qmeta = []
        self.fn = []          # (id, namepos, name) for full names
        self.obs = None


def set_all_positions(fc):
    ex = fc.ex
    fc.pos_lines = [(i, len(l)) for i, l in enumerate(ex['lines'], 1)]
    fc.pos_sel = []
    fc.positions = [(i, c) for (i, n) in fc.pos_lines for c in range(n + 1)]


def token_positions(ex, rng, per_file):
    """a sample of positions for big corpus files: token starts/insides/ends, line starts/ends, gaps"""
    out = set()
    lines = ex['lines']
    leaves = ex['leaves']
    idx = list(range(len(leaves)))
    rng.shuffle(idx)
    for i in idx[:per_file]:
        st, en, typ, s = leaves[i]
        out.add(st)
        if en[0] == st[0]:
            out.add((st[0], (st[1] + en[1]) // 2))
            out.add(en if typ != tokenize.NEWLINE else st)
        if st[1] > 0:
            out.add((st[0], st[1] - 1))
    ls = list(range(1, len(lines) + 1))
    rng.shuffle(ls)
    for l in ls[:per_file // 4]:
        n = len(lines[l - 1])
        out.update([(l, 0), (l, n), (l, min(n, 1)), (l, min(n, 4)), (l, min(n, 5)), (l, n // 2)])
    # definitions: every column of (a sample of) header lines and first body lines, and the line after the suite
    defs = [s for s in ex['scopes'] if s.kind in ('func', 'cls')]
    rng.shuffle(defs)
    for s in defs[:max(4, per_file // 20)]:
        for l in {s.kw[0], s.bodytok[0], s.end[0] - 1, s.end[0]}:
            if 1 <= l <= len(lines):
                for c in range(len(lines[l - 1]) + 1):
                    out.add((l, c))
    return sorted(p for p in out if 1 <= p[0] <= len(lines) and 0 <= p[1] <= len(lines[p[0] - 1]))


def build_case(fc, pre=''):
    """-> (definitions text, term of type list N)"""
    out = []
    file_defs(fc.ex, fc.modnames, out, pre)
    chunked(pre + 'pall', [x for (l, n) in fc.pos_lines for x in (l, n)], out)
    chunked(pre + 'psel', [x for p in fc.pos_sel for x in p], out)
    chunked(pre + 'qs', [x for q in fc.queries for x in (q[0], q[1][0], q[1][1])], out)
    chunked(pre + 'ns', [x for n in fc.fn for x in (n[0], n[1][0], n[1][1])], out)
    return '\n'.join(out) + '\n', '(answer {0}the_file {0}pall {0}psel {0}qs {0}ns)'.format(pre)


def coq_answers(cases, per_proc=2):
    """a few files per coqc (amortises start-up), processes in parallel;
    returns list of (list of ints | None, err)"""
    from concurrent.futures import ThreadPoolExecutor
    order = sorted(range(len(cases)), key=lambda i: -len(cases[i].positions))
    nb = max(1, (len(cases) + per_proc - 1) // per_proc)
    buckets = [order[b::nb] for b in range(nb)]      # big and small files mixed

    def one(bucket):
        defs, terms = [], []
        for j, i in enumerate(bucket):
            d, t = build_case(cases[i], 'c%d_' % j)
            defs.append(d)
            terms.append(t)
        res, err = common.coq_eval_N_lists(IMPORTS, '(fun x : list N => x)', terms, shard=len(terms), timeout=3000,
                                           defs=DEFS + ''.join(defs))
        return [(res[j] if res else None, err) for j in range(len(bucket))]

    out = [None] * len(cases)
    with ThreadPoolExecutor(max_workers=common.NPROC) as ex:
        for bucket, rs in zip(buckets, ex.map(one, buckets)):
            for i, r in zip(bucket, rs):
                out[i] = r
    return out


def leaf_cover(ex):
    """dict position -> token index for every character position that belongs to a token (single-line tokens)"""
    cov = {}
    for i, (st, en, typ, s) in enumerate(ex['leaves']):
        if typ == tokenize.NEWLINE:
            continue
        if st[0] == en[0]:
            for c in range(st[1], en[1]):
                cov[(st[0], c)] = i
        else:
            ln = ex['lines']
            for c in range(st[1], len(ln[st[0] - 1])):
                cov[(st[0], c)] = i
            for c in range(0, en[1]):
                cov[(en[0], c)] = i
    return cov


def _src(fc):
    # generated programs are always written out; corpus files are re-read from /repo on replay
    return None if fc.label.startswith('corpus:') else fc.src


def evaluate(ctx, cases, stream_tag):
    """cases: list of FileCase with .obs filled.  Evaluate the model, compare, run the oracles."""
    answers = coq_answers(cases)
    st = ctx.cov.setdefault('distribution', {})
    agg = st.setdefault('agg', dict(files=0, wf=0, positions=0, on_code=0, suite=0, header=0, outside=0,
                                    names=0, ndef=0, nparam=0, nother=0, fullnames=0, qual_checked=0,
                                    kinds={}, maxdepth=0, ctx_is_def=0, ctx_fullname=0, theorem_domain=0))
    for fc, (ans, err) in zip(cases, answers):
        if err or ans is None:
            raise RuntimeError('coq evaluation failed (%s, %s): %s' % (stream_tag, fc.label, err))
        ex = fc.ex
        key = (fc.label, fc.src if len(fc.src) < 3000 else hash(fc.src))
        rd = Reader(ans)
        wf = rd.n()
        agg['files'] += 1
        agg['wf'] += wf
        for s in ex['scopes']:
            agg['kinds'][s.kind] = agg['kinds'].get(s.kind, 0) + 1
            d, p = 0, s
            while p is not None:
                d, p = d + 1, p.parent
            agg['maxdepth'] = max(agg['maxdepth'], d)
        model_pos = [(rd.n(), rd.n(), rd.n()) for _ in fc.positions]
        model_ctx_full = {0: fc.modnames}
        for s in ex['scopes']:
            if s.kind in ('func', 'cls'):
                model_ctx_full[s.id] = rd.names()
        cov = leaf_cover(ex)
        leaves = ex['leaves']
        budget = dict(corr=3, spec=3, dev=6)
        for pos, ob, (m_ctx, m_strict, flags) in zip(fc.positions, fc.obs['ctx'], model_pos):
            m_on, m_ext_agrees, m_lcf = flags & 1, (flags >> 1) & 1, flags >> 2
            agg['positions'] += 1
            if isinstance(ob, dict):
                ctx.deviation(dict(stream='context', exc=ob['exc']['exc'], site=ob['exc']['site']),
                              dict(file=fc.label, source=_src(fc), line=pos[0], column=pos[1], error=ob['exc']),
                              'Script.get_context raised %s' % ob['exc']['exc'])
                continue
            impl = map_id(ex, ob)
            ti = cov.get(pos)
            ctx.count('context', (key, pos), nontrivial=impl != 0 or ti is not None)
            if impl:
                agg['ctx_is_def'] += 1
            data = dict(file=fc.label, source=_src(fc), path=fc.path, root=fc.root, line=pos[0], column=pos[1],
                        impl=ob, impl_id=impl, model_id=m_ctx)
            # the theorem context_general, re-checked on every case in its domain
            if wf and m_on and m_lcf:
                agg['theorem_domain'] += 1
                if not m_ext_agrees and budget['spec'] > 0:
                    budget['spec'] -= 1
                    ctx.violation('obligation', dict(what='model get_context differs from innermost_ext_col on a well-formed file '
                                                          'at an on-code position (contradicts theorem C18_context_general)', **data), nofail=True)
            # ---- the property's oracle (independent of the model)
            oracle_bad = None
            if ti is not None:
                agg['on_code'] += 1
                tok = leaves[ti]
                E, where, _ = py_oracle(ex, tok[0])
                agg[where] += 1
                if where == 'outside':
                    expect = 0
                elif where == 'suite':
                    expect = E.id
                else:  # header token
                    if pos == E.kw:
                        p = def_parent(E)
                        expect = p.id if p else 0
                        where = 'keyword-start'
                    elif pos[1] > E.kw[1]:
                        expect = E.id          # reading pinned by upstream's test_context
                    else:
                        expect = None          # continuation line of a header left of the keyword: unspecified
                data['oracle'] = dict(where=where, expect=expect, token=tok[3][:30])
                # spec side of the model vs the ast oracle
                if (where == 'suite' and m_strict != expect or where == 'outside' and m_strict != 0) and budget['spec'] > 0:
                    budget['spec'] -= 1
                    ctx.violation('obligation', dict(what='spec: model innermost in_body differs from the ast oracle', **data,
                                                     model_strict=m_strict), nofail=True)
                if not m_on and budget['spec'] > 0:
                    budget['spec'] -= 1
                    ctx.violation('obligation', dict(what='spec: model on_code false on a token position', **data), nofail=True)
                if expect is not None and impl != expect:
                    oracle_bad = where
            # ---- correspondence
            if impl != m_ctx:
                if oracle_bad:
                    if budget['dev'] > 0:
                        budget['dev'] -= 1
                        ctx.deviation(dict(stream='oracle', cls='context-' + oracle_bad, predicted=False), data,
                                      'get_context(%d, %d) is %r, not the innermost definition holding the position (id %s); the model predicts id %s' % (
                                          pos[0], pos[1], ob[1], data['oracle']['expect'], m_ctx))
                elif budget['corr'] > 0:
                    budget['corr'] -= 1
                    ctx.violation('obligation', dict(what='correspondence get_context: model and implementation differ; '
                                                          'the ast oracle has no objection at this position', **data), nofail=True)
                continue
            if oracle_bad:
                E = py_oracle(ex, leaves[ti][0])[0]
                if oracle_bad == 'keyword-start' and def_parent(E) is not None:
                    cls = classify_suite_deviation(ex, pos, def_parent(E), ti)
                elif oracle_bad == 'suite':
                    cls = classify_suite_deviation(ex, pos, E, ti)
                else:
                    cls = oracle_bad + '-other'
                ctx.deviation(dict(stream='oracle', cls=cls, predicted=True, where=oracle_bad), data,
                              'get_context(%d, %d) is %r but the innermost function/class whose body holds the position is id %s' % (
                                  pos[0], pos[1], ob[1], data['oracle']['expect']))
            # full_name of the context vs model
            fn_impl = ob[4].split('.') if ob[4] is not None else None
            if fn_impl is not None:
                agg['ctx_fullname'] += 1
            if fn_impl != model_ctx_full.get(impl) and budget['corr'] > 0:
                budget['corr'] -= 1
                ctx.violation('obligation', dict(what='correspondence full_name of the get_context result', **data,
                                                 impl_full=ob[4], model_full=model_ctx_full.get(impl)), nofail=True)
        # ---- get_names(all_scopes=False) = the definitions whose scope is the module
        # (parser_utils.get_parent_scope with its header rule); generated programs only
        if fc.objs is not None and fc.obs.get('toplevel') is not None:
            skip = ex['imports']
            got = sorted(tuple(x) for x in fc.obs['toplevel'] if not any(a <= x[0] <= b for a, b in skip))
            want = []
            for n in fc.obs['names']:
                npos = (n['line'], n['column'])
                inner = innermost_any(ex, npos)
                if inner is None or (inner.parent is None and inner.kind in ('func', 'cls') and npos < inner.colon
                                     and npos not in ex['args']):
                    want.append(npos)
            want.sort()
            ctx.count('toplevel', (key, 'toplevel'), nontrivial=len(want) > 0)
            if got != want:
                diff = sorted(set(got) ^ set(want))
                ctx.deviation(dict(stream='oracle', cls='module-level-names'),
                              dict(file=fc.label, source=_src(fc), path=fc.path, root=fc.root, differing=diff[:10]),
                              'get_names(all_scopes=False) is not the set of definitions whose scope is the module: differs at %s' % diff[:5])
        # ---- parent chains
        names = {(n['line'], n['column']): n for n in fc.obs['names']}
        budget = dict(corr=3, dev=4)
        for (k, npos), meta in zip(fc.queries, fc.qmeta):
            ln = rd.n()
            m_chain = [rd.n() for _ in range(ln)]
            n = names[npos]
            agg['names'] += 1
            agg[['ndef', 'nparam', 'nother'][k]] += 1
            data = dict(file=fc.label, source=_src(fc), path=fc.path, root=fc.root, name=n['name'], line=npos[0], column=npos[1],
                        name_kind=['def', 'param', 'other'][k])
            if 'exc' in n:
                ctx.deviation(dict(stream='parents', exc=n['exc']['exc'], site=n['exc']['site']), dict(error=n['exc'], **data),
                              'parent()/full_name raised %s' % n['exc']['exc'])
                continue
            impl_chain = [map_id(ex, r) for r in n['chain']]
            ctx.count('parents', (key, npos), nontrivial=len(impl_chain) > 1)
            data.update(impl=[r[:2] for r in n['chain']], impl_ids=impl_chain, model_ids=m_chain)
            # oracle: lexically enclosing defs/classes, innermost first, then the module;
            # lambda entries are tolerated when they do enclose the name (see notes)
            bad = False
            if meta['expect'] is not None:
                lam_ok = set(meta['lams'])
                stripped = [i for i in impl_chain if i not in lam_ok]
                data['expect'] = meta['expect']
                if stripped != meta['expect']:
                    bad = True
            if bad and budget['dev'] > 0:
                budget['dev'] -= 1
                ctx.deviation(dict(stream='oracle', cls='parent-chain' + meta.get('cls', ''), predicted=impl_chain == m_chain), data,
                              'parent() chain of %r is %s, not the chain of lexically enclosing definitions %s' % (
                                  n['name'], impl_chain, meta['expect']))
            elif impl_chain != m_chain and not bad and budget['corr'] > 0:
                budget['corr'] -= 1
                ctx.violation('obligation', dict(what='correspondence parent_chain: model and implementation differ', **data), nofail=True)
        # ---- full names
        budget = dict(corr=3, dev=4)
        for (sid, npos, name), meta in zip(fc.fn, fc.fnmeta):
            m_full = rd.names()
            m_qual = rd.names()
            n = names[npos]
            if 'exc' in n:
                continue
            agg['fullnames'] += 1
            impl_full = n['full_name'].split('.') if n['full_name'] is not None else None
            data = dict(file=fc.label, source=_src(fc), path=fc.path, root=fc.root, name=name, line=npos[0], column=npos[1],
                        impl=n['full_name'], model=m_full, runtime=meta.get('runtime'))
            ctx.count('fullname', (key, npos), nontrivial=impl_full is not None and len(impl_full) > len(fc.modnames) + 1)
            rt = meta.get('runtime')
            bad = False
            if rt is not None:
                agg['qual_checked'] += 1
                want = (rt[0] + '.' + rt[1]).split('.')
                if m_qual != want and budget['corr'] > 0:
                    budget['corr'] -= 1
                    ctx.violation('obligation', dict(what='spec: model qualname differs from the run-time __qualname__', **data,
                                                     model_qualname=m_qual), nofail=True)
                bad = impl_full != want
            if bad and budget['dev'] > 0:
                budget['dev'] -= 1
                ctx.deviation(dict(stream='oracle', cls='full-name', predicted=impl_full == m_full), data,
                              'full_name %r differs from module.__name__ + "." + __qualname__ = %r' % (n['full_name'], rt[0] + '.' + rt[1]))
            elif impl_full != m_full and not bad and budget['corr'] > 0:
                budget['corr'] -= 1
                ctx.violation('obligation', dict(what='correspondence full_name_def: model and implementation differ', **data), nofail=True)
        if rd.i != len(ans):
            raise RuntimeError('answer length mismatch for %s' % fc.label)


def prepare_queries(fc, names):
    """choose the parent()/full_name queries from the names jedi reports, classify them with ast/tokens"""
    ex = fc.ex
    leaves = ex['leaves']
    index = {lf[0]: i for i, lf in enumerate(leaves)}
    defpos = {s.namepos: s for s in ex['scopes'] if s.kind in ('func', 'cls')}
    fc.queries, fc.qmeta, fc.fn, fc.fnmeta = [], [], [], []
    for n in names:
        npos = (n['line'], n['column'])
        i = index.get(npos)
        if i is None:
            continue
        inner = innermost_any(ex, npos)
        if npos in defpos:
            s = defpos[npos]
            fc.queries.append((0, npos))
            fc.qmeta.append(dict(expect=def_chain(s), lams=[]))
            fc.fn.append((s.id, npos, s.name))
            fc.fnmeta.append(dict(scope=s))
        elif npos in ex['args']:
            # a parameter: of a def -> that def and its enclosing definitions; of a lambda -> no oracle (notes)
            expect = None
            if inner is not None and inner.kind == 'func' and npos < inner.colon:
                expect = [inner.id] + def_chain(inner)
            fc.queries.append((1, npos))
            fc.qmeta.append(dict(expect=expect, lams=[]))
        else:
            # plain name: oracle only when it is written in a suite (not in a header)
            expect, lams = None, []
            p, in_header = inner, False
            while p is not None:
                if p.kind == 'lam':
                    lams.append(p.id)
                if p.kind in ('func', 'cls') and npos < p.bodytok:
                    in_header = True
                p = p.parent
            cls = ''
            if not in_header:
                d = inner
                while d is not None and d.kind not in ('func', 'cls'):
                    if d.kind == 'lam' and d.parent is not None and d.parent.kind == 'cls':
                        cls = '-lambda-in-class'
                    d = d.parent
                expect = ([d.id] + def_chain(d)) if d is not None else [0]
            fc.queries.append((2, npos))
            fc.qmeta.append(dict(expect=expect, lams=lams, cls=cls))


# =============================================================================
def make_projects(ctx, nprog):
    """generated programs laid out as importable packages under ctx.tmp"""
    rng = ctx.rng
    cases, projects = [], []
    pi = 0
    while len(cases) < nprog:
        pi += 1
        root = os.path.join(ctx.tmp, 'proj%d' % pi)
        os.makedirs(root)
        mods = {}
        layout = [((), 'top%d' % pi), (('pk',), '__init__'), (('pk',), 'mod_a'), (('pk', 'sub'), '__init__'),
                  (('pk', 'sub'), 'deep'), (('pk', 'sub'), 'mod_b')]
        # directories WITHOUT __init__.py between the project root and the file: implicit namespace packages
        # (top level, nested, and a plain folder inside a regular package); Python imports them as ns.mod_n etc.
        ns_layout = [(('ns',), 'mod_n'), (('ns', 'inner'), 'mod_i'), (('pk', 'plain'), 'mod_p')]
        rng.shuffle(layout)
        rng.shuffle(ns_layout)
        for pk in (('pk',), ('pk', 'sub'), ('ns',), ('ns', 'inner'), ('pk', 'plain')):
            os.makedirs(os.path.join(root, *pk), exist_ok=True)
        for pkg, mod in layout[:rng.randint(3, 6)] + ns_layout[:rng.randint(1, 2)]:
            src, objs = gen_valid(rng)
            rel = os.path.join(*pkg, mod + '.py')
            mods[rel] = (src, objs, list(pkg) + ([mod] if mod != '__init__' else []))
        for pk in (('pk',), ('pk', 'sub')):
            rel = os.path.join(*pk, '__init__.py')
            if rel not in mods:
                with open(os.path.join(root, rel), 'w') as f:
                    f.write('')
        for rel, (src, objs, dotted) in mods.items():
            with open(os.path.join(root, rel), 'w', encoding='utf8') as f:
                f.write(src)
            fc = FileCase(src, os.path.join(root, rel), root, dotted, 'gen:proj%d/%s' % (pi, rel), objs)
            fc.dotted = '.'.join(dotted)
            cases.append(fc)
        projects.append((root, [c for c in cases if c.root == root]))
    return cases, projects


def run_runtime(ctx, projects):
    """import every generated module in a subprocess; obj paths -> (module.__name__, __qualname__)"""
    for root, fcs in projects:
        req = {fc.dotted: fc.objs for fc in fcs}
        try:
            p = subprocess.run([common.PY, '-c', QUAL_RUNNER, root], input=json.dumps(req), text=True,
                               capture_output=True, timeout=120, env=dict(os.environ, PYTHONDONTWRITEBYTECODE='1'))
            out = json.loads(p.stdout)
        except Exception as e:
            raise RuntimeError('runtime oracle failed: %r %s' % (e, getattr(p, 'stderr', '')[-500:]))
        for fc in fcs:
            r = out.get(fc.dotted, {})
            if 'error' in r:
                raise RuntimeError('generated module does not import: %s: %s\n%s' % (fc.label, r['error'], fc.src))
            fc.runtime = r['objs']
            fc.runtime_modname = r['name']


def attach_runtime(fc):
    """map run-time objects to definitions via their attribute path (unique names per class level)"""
    ex = fc.ex
    bypath = {}

    def walk(lst, prefix):
        for s in lst:
            if s.kind in ('func', 'cls'):
                bypath.setdefault('.'.join(prefix + [s.name]), []).append(s)
                if s.kind == 'cls':
                    walk(direct_defs(s), prefix + [s.name])

    def direct_defs(s):
        # defs directly in the class suite (through compound statements, which are not scopes)
        return [k for k in s.kids if k.kind in ('func', 'cls')]

    walk([s for s in ex['top'] if s.kind in ('func', 'cls')], [])
    for meta in fc.fnmeta:
        s = meta['scope']
        chain, p, ok = [s.name], s.parent, True
        while p is not None:
            if p.kind != 'cls':
                ok = False
            chain.append(p.name)
            p = p.parent
        key = '.'.join(reversed(chain))
        if ok and key in fc.runtime and len(bypath.get(key, [])) == 1 and fc.runtime[key][0] != '!':
            meta['runtime'] = fc.runtime[key]


def corpus_files(ctx):
    base = os.path.join(common.REPO, 'jedi')
    out = []
    for dp, dn, fn in os.walk(base):
        dn.sort()
        if 'third_party' in dp:
            continue
        for f in sorted(fn):
            if f.endswith('.py'):
                out.append(os.path.join(dp, f))
    return out


def run_batch(ctx, cases, want_names, tag):
    tasks = [dict(src=fc.src, path=fc.path, root=fc.root, positions=fc.positions, want_names=want_names,
                  import_lines=fc.ex['imports']) for fc in cases]
    results = common.pmap(_probe_task, tasks, chunksize=1)
    good = []
    for fc, r in zip(cases, results):
        if r['err']:
            ctx.deviation(dict(stream=tag, exc=r['err']['exc'], site=r['err']['site']),
                          dict(file=fc.label, source=fc.src if len(fc.src) < 6000 else None, error=r['err']), 'Script/get_names raised %s' % r['err']['exc'])
            continue
        fc.obs = r
        prepare_queries(fc, r['names'])
        good.append(fc)
    return good


def run(ctx):
    common.setup_jedi(os.path.join(ctx.tmp, 'cache'))
    ctx.proofs()
    fp = common.fingerprint(FP)
    ctx.cov['fingerprints'] = fp
    ctx.cov['rule'] = ('generated importable projects (nested classes/functions/async/lambdas/comprehensions/decorators, multi-line '
                       'headers, one-line bodies, continuation lines at arbitrary columns, blank/comment lines, trailing whitespace): '
                       'get_context at EVERY (line, col); corpus = every valid file of /repo/jedi (quick: a seeded subset) at sampled '
                       'token/whitespace/header positions; parent() chain and full_name of every non-import name of '
                       'get_names(all_scopes=True); non-trivial = position on a token or a definition context (context), chain longer than '
                       'the module (parents), dotted name with a class component (fullname); distinct by (file text, position)')
    ctx.assumptions += [
        'leaves and definition extents come from CPython tokenize/ast, not from parso; a disagreement between the two tokenisers '
        'shows up as a correspondence failure',
        'lambda entries in parent() chains are tolerated by the oracle when the lambda really encloses the name (a lambda has no name to report); '
        'parameters of lambdas and names written in headers have no oracle, only the model',
        'header positions are judged by the reading pinned in upstream test_context (they belong to the definition when right of its keyword column)']
    stream_generated(ctx)
    stream_corpus(ctx, fp)


def stream_generated(ctx):
    t0 = time.time()
    nprog = ctx.n(22, 160)
    cases, projects = make_projects(ctx, nprog)
    for fc in cases:
        set_all_positions(fc)
    run_runtime(ctx, projects)
    good = run_batch(ctx, cases, True, 'generated')
    for fc in good:
        attach_runtime(fc)
        if fc.runtime_modname != fc.dotted:
            raise RuntimeError('module name bookkeeping')
    ctx.stat('wall_generate_run', round(time.time() - t0, 1))
    t0 = time.time()
    evaluate(ctx, good, 'generated')
    ctx.stat('wall_evaluate_generated', round(time.time() - t0, 1))
    if good:
        fc = good[0]
        ctx.sample(dict(stream='context', file=fc.label, lines=len(fc.ex['lines']), scopes=len(fc.ex['scopes']),
                        positions=len(fc.positions), names=len(fc.queries), source_head=fc.src[:300]))



def stream_corpus(ctx, fp):
    t0 = time.time()
    files = corpus_files(ctx)
    changed = any(v.startswith('missing') for v in fp.values())
    nfiles = ctx.n(8, 60)
    ctx.rng.shuffle(files)
    ccases, skipped = [], 0
    for path in files:
        if len(ccases) >= nfiles:
            break
        try:
            src = open(path, encoding='utf8').read()
            if len(src) > ctx.n(16000, 40000):
                continue
            rel = os.path.relpath(path, common.REPO)
            dotted = rel[:-3].split(os.sep)
            if dotted[-1] == '__init__':
                dotted = dotted[:-1]
            fc = FileCase(src, path, common.REPO, dotted, 'corpus:' + rel)
        except Unsupported:
            skipped += 1
            continue
        fc.pos_lines, fc.pos_sel = [], token_positions(fc.ex, ctx.rng, ctx.n(260, 900))
        fc.positions = list(fc.pos_sel)
        ccases.append(fc)
    ctx.stat('corpus_files', len(ccases))
    ctx.stat('corpus_skipped', skipped)
    cgood = run_batch(ctx, ccases, True, 'corpus')
    for fc in cgood:
        # the dotted name of a corpus module depends on the environment's sys.path (e.g. jedi's helper
        # puts its own directory there); it is an input of the model, validated only on generated projects
        if fc.obs.get('modfull'):
            fc.modnames = fc.obs['modfull'].split('.')
        for m in fc.fnmeta:
            m.pop('runtime', None)
    evaluate(ctx, cgood, 'corpus')
    ctx.stat('wall_corpus', round(time.time() - t0, 1))


def replay(ctx, path):
    rec = json.load(open(path))
    print(json.dumps({k: v for k, v in rec.items() if k != 'source'}, indent=1, ensure_ascii=False)[:3000])
    common.setup_jedi(os.path.join(ctx.tmp, 'cache'))
    src = rec.get('source')
    if src is None and rec.get('file', '').startswith('corpus:'):
        src = open(os.path.join(common.REPO, rec['file'][7:]), encoding='utf8').read()
    if src is None or 'line' not in rec:
        return 0
    lines = src.split('\n')
    pos = (rec['line'], rec['column'])
    for i in range(max(1, pos[0] - 6), min(len(lines), pos[0] + 3) + 1):
        print('%4d %s %s' % (i, '>' if i == pos[0] else ' ', lines[i - 1]))
    fpath = rec.get('path') or os.path.join(ctx.tmp, 'replay.py')
    root = rec.get('root') or ctx.tmp
    if not os.path.isdir(root):
        root = ctx.tmp
        fpath = os.path.join(ctx.tmp, os.path.basename(fpath))
    ex = extract(src)
    r = _probe_task(dict(src=src, path=fpath, root=root, positions=[pos], want_names=True, import_lines=ex['imports']))
    print('implementation now: get_context%r = %r' % (pos, r['ctx']))
    nk = None
    for n in r['names']:
        if (n['line'], n['column']) == pos:
            print('name at the position:', n)
            nk = 0 if any(s.namepos == pos for s in ex['scopes']) else 1 if pos in ex['args'] else 2
    cov = leaf_cover(ex)
    if pos in cov:
        E, where, _ = py_oracle(ex, ex['leaves'][cov[pos]][0])
        print('ast oracle: token %r is in the %s of %s' % (ex['leaves'][cov[pos]][3], where, (E.name, E.id) if E else 'the module'))
    out = []
    file_defs(ex, ['replay'], out)
    exprs = ['get_context the_file %s' % g_pos(pos), 'oid (innermost in_body (scopes the_file) %s)' % g_pos(pos),
             'oid (innermost_ext_col (scopes the_file) %s)' % g_pos(pos),
             '(wf_file the_file, on_code the_file %s, lam_cls_free (scopes the_file) %s)' % (g_pos(pos), g_pos(pos))]
    if nk is not None:
        exprs.append('parent_chain (scopes the_file) (nk %d) %s' % (nk, g_pos(pos)))
    print('model (get_context id; strict innermost id; extent/column innermost id; (wf, on_code, lam_cls_free); parent chain):')
    print(common.coq_show(IMPORTS, exprs, defs=DEFS + '\n'.join(out) + '\n'))
    print('scope ids:', [(s.id, s.kind, s.name, s.kw) for s in ex['scopes']][:60])
    return 0
