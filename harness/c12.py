"""C12 - analysing sources with Script never executes them.

Streams
  sites     ROUTE ENUMERATION FROM THE SOURCE: every .py under $JEDI_REPO/jedi (third_party
            excluded) is parsed with `ast`; every call of a primitive that can execute code
            (__import__, importlib.*, exec/eval/compile, runpy, subprocess/os.system/exec*/spawn*,
            pickle load, loader.exec_module/load_module, pydoc/pkgutil importers, ctypes ...),
            every jedi-level forwarder to such a primitive (load_module, _load_builtin_module,
            pickle_load, _GeneralizedPopen, Environment(...) ...) and every write to sys.path /
            sys.modules / os.environ / os.chdir / sys.meta_path ... is listed as
            (file, enclosing qualname, kind).  The multiset must EQUAL the table SITES below, which
            mirrors `site_table` of the Coq model (Coq compares too).
  prog      the statement skeletons of access.load_module and functions.get_module_info are
            translated from the real Python AST into the model's `stmt` language and compared
            (in Coq) with load_module_prog / get_module_info_prog.
  swap      the real access.load_module / functions.get_module_info are run (forked workers) with
            the opaque call replaced by a stub that changes sys.path and/or raises; final
            sys.path, exit (returned / raised) and the path seen by the call vs the model's `exec`;
            the property clause (sys.path restored on every exit) is checked directly.
  route     the raw imports.import_module (under its plugin decorators) is driven with a stub
            inference state over generated (auto_import_modules, name, finder answer, unsafe flag,
            environment path, sys_path argument); observed action vs the model's `import_route`;
            the clause "compiled import searches only base directories" is checked directly.
  sentinel  generated project trees in which every Python file writes a sentinel when executed,
            adversarial names, all query/refactoring methods x project options; sentinel
            directory, host sys.modules/sys.path/cwd/environ, helper sys.modules/sys.path/cwd/
            environ (asked over its own request channel with the builtin `eval`), the executable
            and arguments of every helper start, every load_module request's search path.  The
            in-situ import decisions (captured by wrapping module globals in the worker) are
            compared with `import_route` as well.
  control   positive controls: the sentinel detector itself (direct import in a subprocess) and
            load_unsafe_extensions=True (model: project directory IS searched; implementation:
            the sentinel fires).
"""
import ast
import json
import os
import re
import shutil
import stat
import subprocess
import sys
import time
import zipfile

import common
from common import g_bool, g_list, g_opt

IMPORTS = 'From JV Require Import Base.Str Model.C12_Routes.\n'

# ASCII strings are written as Coq string literals and converted by `A` (numeral lists are slow)
ADEF = ''   # `A` (string literal -> str) is defined by the model


def gs(x):
    if x == '':
        return '(@nil N)'
    if all(32 <= ord(ch) <= 126 and ch != '"' for ch in x):
        return '(A "%s"%%string)' % x
    return common.g_str(x)


def gsl(xs):
    return g_list(xs, gs, 'list N')


FP = [('jedi/inference/imports.py', 'import_module'),
      ('jedi/inference/imports.py', '_load_builtin_module'),
      ('jedi/inference/imports.py', '_load_python_module'),
      ('jedi/inference/compiled/access.py', 'load_module'),
      ('jedi/inference/compiled/access.py', 'DirectObjectAccess.getattr_paths'),
      ('jedi/inference/compiled/subprocess/functions.py', 'get_module_info'),
      ('jedi/inference/compiled/subprocess/functions.py', '_find_module'),
      ('jedi/inference/compiled/subprocess/functions.py', '_find_module_py33'),
      ('jedi/inference/compiled/__init__.py', 'load_module'),
      ('jedi/api/project.py', 'Project.__init__'),
      ('jedi/api/project.py', 'Project._get_base_sys_path'),
      ('jedi/api/project.py', 'get_default_project'),
      ('jedi/api/environment.py', 'Environment._get_subprocess'),
      ('jedi/inference/compiled/subprocess/__init__.py', 'CompiledSubprocess._get_process')]

# fingerprints of the modelled definitions when the model was transcribed; a change raises no alarm, it
# multiplies the number of correspondence / sentinel cases (DESIGN §2 "change-directed intensification")
BASE_FP = {
    "jedi/inference/imports.py:import_module": "a18d442b872a67b3",
    "jedi/inference/imports.py:_load_builtin_module": "74196bb418ac6d10",
    "jedi/inference/imports.py:_load_python_module": "268579e362d6ded9",
    "jedi/inference/compiled/access.py:load_module": "b12ceefe21956d1d",
    "jedi/inference/compiled/access.py:DirectObjectAccess.getattr_paths": "9f49b2e4e906a813",
    "jedi/inference/compiled/subprocess/functions.py:get_module_info": "956dd70fbd60f509",
    "jedi/inference/compiled/subprocess/functions.py:_find_module": "f83bfc60d96e682a",
    "jedi/inference/compiled/subprocess/functions.py:_find_module_py33": "59c61244327e45f3",
    "jedi/inference/compiled/__init__.py:load_module": "249219f6afeb21e8",
    "jedi/api/project.py:Project.__init__": "2d57fdb059bcfe47",
    "jedi/api/project.py:Project._get_base_sys_path": "3b64cea3ba579917",
    "jedi/api/project.py:get_default_project": "2a6a031af624610d",
    "jedi/api/environment.py:Environment._get_subprocess": "17f2596405ee42c2",
    "jedi/inference/compiled/subprocess/__init__.py:CompiledSubprocess._get_process": "3afb511dc60fbfd3",
}
INTENSIFY = [1]


# =============================================================================================
# part 1: route enumeration from the source
# =============================================================================================

EXEC_BUILTINS = {'__import__', 'exec', 'eval', 'compile', 'execfile', 'breakpoint'}
# module -> attribute names whose call is listed (None = every attribute)
MOD_CALLS = {
    'importlib': {'import_module', '__import__', 'reload', 'find_loader'},
    'importlib.util': {'module_from_spec', 'spec_from_file_location', 'spec_from_loader', 'find_spec',
                       'resolve_name'},
    'imp': None, 'runpy': None, 'subprocess': None, 'multiprocessing': None, 'ctypes': None,
    'code': None, 'codeop': None, 'site': None, 'pty': None, 'shelve': None, 'cffi': None,
    'pickle': {'load', 'loads', 'Unpickler'}, '_pickle': {'load', 'loads', 'Unpickler'},
    'cPickle': {'load', 'loads', 'Unpickler'}, 'dill': None, 'marshal': {'load', 'loads'},
    'pkgutil': {'find_loader', 'get_loader', 'walk_packages', 'get_data', 'resolve_name'},
    'pydoc': {'locate', 'safeimport', 'resolve', 'render_doc', 'help', 'doc', 'importfile'},
    'builtins': EXEC_BUILTINS,
}
OS_EXEC = {'system', 'popen', 'chdir', 'fchdir', 'putenv', 'unsetenv', 'startfile', 'fork', 'forkpty',
           'posix_spawn', 'posix_spawnp', 'chroot'}
OS_PREFIX = ('exec', 'spawn')
METHOD_EXEC = {'exec_module', 'load_module', 'create_module', 'run_module', 'run_path'}
# jedi-level functions that forward to an exec primitive: who calls them is part of the table
ROUTE_NAMES = {'_load_builtin_module', 'load_module', 'pickle_load', '_GeneralizedPopen',
               'CompiledSubprocess', 'Environment', 'SameEnvironment', 'create_environment'}
MUT_METHODS = {'insert', 'append', 'extend', 'remove', 'pop', 'clear', 'sort', 'reverse', 'update',
               'setdefault', 'popitem', '__setitem__', '__delitem__', '__iadd__'}
STATE = {('sys', 'path'), ('sys', 'modules'), ('os', 'environ'), ('sys', 'meta_path'), ('sys', 'path_hooks'),
         ('sys', 'path_importer_cache'), ('sys', 'argv'), ('sys', 'stdout'), ('sys', 'stderr'), ('sys', 'stdin')}


def _dotted(node):
    parts = []
    while isinstance(node, ast.Attribute):
        parts.append(node.attr)
        node = node.value
    if isinstance(node, ast.Name):
        parts.append(node.id)
        return list(reversed(parts))
    return None


class _SiteVisitor(ast.NodeVisitor):
    def __init__(self, rel, tree):
        self.rel, self.scope, self.sites = rel, [], []
        self.alias = {}
        self.pickle_classes = set()
        for n in ast.walk(tree):          # pass 1: every import of the file, at any depth
            if isinstance(n, ast.Import):
                for a in n.names:
                    if a.asname:
                        self.alias[a.asname] = a.name
                    else:
                        top = a.name.split('.')[0]
                        self.alias.setdefault(top, top)
            elif isinstance(n, ast.ImportFrom) and n.level == 0 and n.module:
                for a in n.names:
                    self.alias[a.asname or a.name] = n.module + '.' + a.name

    def q(self):
        return '.'.join(self.scope) or '<module>'

    def add(self, kind):
        self.sites.append((self.rel, self.q(), kind))

    def resolve(self, node):
        d = _dotted(node)
        if not d:
            return None, False
        head = self.alias.get(d[0])
        if head is None:
            return d, False
        return head.split('.') + d[1:], True

    def _scoped(self, node):
        if isinstance(node, ast.ClassDef):
            for b in node.bases:
                r, imp = self.resolve(b)
                if imp and r and r[0] in ('pickle', '_pickle', 'cPickle') and r[-1] == 'Unpickler':
                    self.pickle_classes.add(node.name)
                    self.scope.append(node.name)
                    self.add('subclass:pickle.Unpickler')
                    self.scope.pop()
        self.scope.append(node.name)
        self.generic_visit(node)
        self.scope.pop()
    visit_FunctionDef = visit_AsyncFunctionDef = visit_ClassDef = _scoped

    def state_of(self, node):
        r, _ = self.resolve(node)
        if r and len(r) >= 2 and (r[0], r[1]) in STATE:
            return r[0] + '.' + r[1], len(r) == 2
        return None, False

    def visit_Call(self, node):
        f = node.func
        r, imported = self.resolve(f)
        if isinstance(f, ast.Name):
            if f.id in EXEC_BUILTINS and f.id not in self.alias:
                self.add('call:' + f.id)
            if f.id in ROUTE_NAMES:
                self.add('route:' + f.id)
            if f.id in self.pickle_classes:
                self.add('call:pickle.Unpickler(subclass)')
        if r and imported and len(r) >= 2:
            mod, name = '.'.join(r[:-1]), r[-1]
            if mod == 'os':
                if name in OS_EXEC or name.startswith(OS_PREFIX):
                    self.add('call:os.' + name)
            elif mod in MOD_CALLS:
                if MOD_CALLS[mod] is None or name in MOD_CALLS[mod]:
                    self.add('call:%s.%s' % (mod, name))
            elif r[0] in MOD_CALLS and MOD_CALLS[r[0]] is None:
                self.add('call:' + '.'.join(r))
        if isinstance(f, ast.Attribute):
            if f.attr in ROUTE_NAMES:
                self.add('route:' + f.attr)
            elif f.attr in METHOD_EXEC:
                self.add('method:' + f.attr)
            st, exact = self.state_of(f.value)
            if st and exact and f.attr in MUT_METHODS:
                self.add('mutate:%s.%s' % (st, f.attr))
        self.generic_visit(node)

    def _targets(self, t):
        if isinstance(t, (ast.Tuple, ast.List)):
            for e in t.elts:
                yield from self._targets(e)
        elif isinstance(t, ast.Starred):
            yield from self._targets(t.value)
        else:
            yield t

    def _write(self, t, how):
        for x in self._targets(t):
            base, sub = x, False
            if isinstance(x, ast.Subscript):
                base, sub = x.value, True
            st, exact = self.state_of(base)
            if st and exact:
                self.add('%s:%s%s' % (how, st, '[]' if sub else ''))
            elif st and not sub:
                self.add('%s:%s' % (how, '.'.join(self.resolve(base)[0])))

    def visit_Assign(self, node):
        for t in node.targets:
            self._write(t, 'assign')
        self.generic_visit(node)

    def visit_AugAssign(self, node):
        self._write(node.target, 'augassign')
        self.generic_visit(node)

    def visit_AnnAssign(self, node):
        if node.value is not None:
            self._write(node.target, 'assign')
        self.generic_visit(node)

    def visit_Delete(self, node):
        for t in node.targets:
            self._write(t, 'del')
        self.generic_visit(node)

    def visit_With(self, node):
        for it in node.items:
            if it.optional_vars is not None:
                self._write(it.optional_vars, 'assign')
        self.generic_visit(node)

    def visit_For(self, node):
        self._write(node.target, 'assign')
        self.generic_visit(node)

    def visit_NamedExpr(self, node):
        self.generic_visit(node)


def enumerate_sites(repo):
    out = []
    root = os.path.join(repo, 'jedi')
    for dp, dns, fns in os.walk(root):
        dns[:] = sorted(d for d in dns if d not in ('third_party', '__pycache__'))
        for fn in sorted(fns):
            if fn.endswith('.py'):
                p = os.path.join(dp, fn)
                rel = os.path.relpath(p, repo)
                tree = ast.parse(open(p, encoding='utf8').read())
                v = _SiteVisitor(rel, tree)
                v.visit(tree)
                out += v.sites
    return sorted(out)


# The table: mirror of `site_table` in coq/Model/C12_Routes.v (same order: sorted).
# role: ExecImport | RouteToExec | Spawn | Unpickle | PathSwap | HelperSetup | NotScript
_A = 'jedi/inference/compiled/access.py'
_F = 'jedi/inference/compiled/subprocess/functions.py'
_S = 'jedi/inference/compiled/subprocess/__init__.py'
_M = 'jedi/inference/compiled/subprocess/__main__.py'
_E = 'jedi/api/environment.py'
SITES = [
    ('jedi/__main__.py', '_complete', 'mutate:sys.argv.remove', 'NotScript'),
    ('jedi/_compatibility.py', 'Unpickler', 'subclass:pickle.Unpickler', 'Unpickle'),
    ('jedi/_compatibility.py', 'pickle_load', 'call:pickle.Unpickler(subclass)', 'Unpickle'),
    (_E, 'Environment._get_subprocess', 'route:CompiledSubprocess', 'Spawn'),
    (_E, '_get_virtual_env_from_var', 'route:create_environment', 'Spawn'),
    (_E, '_try_get_same_env', 'route:Environment', 'Spawn'),
    (_E, '_try_get_same_env', 'route:SameEnvironment', 'Spawn'),
    (_E, 'create_environment', 'route:Environment', 'Spawn'),
    (_E, 'create_environment', 'route:Environment', 'Spawn'),
    (_E, 'find_virtualenvs', 'route:Environment', 'Spawn'),
    (_E, 'get_system_environment', 'route:Environment', 'Spawn'),
    (_E, 'get_system_environment', 'route:Environment', 'Spawn'),
    (_E, 'get_system_environment', 'route:SameEnvironment', 'Spawn'),
    ('jedi/api/project.py', 'Project.get_environment', 'route:create_environment', 'Spawn'),
    ('jedi/inference/compiled/__init__.py', 'load_module', 'route:load_module', 'RouteToExec'),
    (_A, 'DirectObjectAccess.getattr_paths', 'call:__import__', 'ExecImport'),
    (_A, 'load_module', 'assign:sys.path', 'PathSwap'),
    (_A, 'load_module', 'assign:sys.path', 'PathSwap'),
    (_A, 'load_module', 'call:__import__', 'ExecImport'),
    (_S, 'CompiledSubprocess._get_process', 'route:_GeneralizedPopen', 'Spawn'),
    (_S, 'CompiledSubprocess._send', 'route:pickle_load', 'Unpickle'),
    (_S, 'Listener.listen', 'assign:sys.stdout', 'HelperSetup'),
    (_S, 'Listener.listen', 'route:pickle_load', 'Unpickle'),
    (_S, '_GeneralizedPopen', 'call:subprocess.Popen', 'Spawn'),
    (_M, '<module>', 'mutate:sys.meta_path.insert', 'HelperSetup'),
    (_M, '<module>', 'mutate:sys.meta_path.pop', 'HelperSetup'),
    (_F, '_find_module_py33', 'call:importlib.util.find_spec', 'RouteToExec'),
    (_F, 'get_module_info', 'assign:sys.path', 'PathSwap'),
    (_F, 'get_module_info', 'assign:sys.path', 'PathSwap'),
    (_F, 'load_module', 'route:load_module', 'RouteToExec'),
    ('jedi/inference/imports.py', '_load_builtin_module', 'route:load_module', 'RouteToExec'),
    ('jedi/inference/imports.py', 'import_module', 'route:_load_builtin_module', 'RouteToExec'),
    ('jedi/inference/imports.py', 'import_module', 'route:_load_builtin_module', 'RouteToExec'),
    ('jedi/utils.py', 'setup_readline.JediRL.complete', 'mutate:sys.path.insert', 'NotScript'),
    ('jedi/utils.py', 'setup_readline.JediRL.complete', 'mutate:sys.path.pop', 'NotScript'),
]


def g_site(s, role=None):
    t = '(%s, %s, %s)' % (gs(s[0]), gs(s[1]), gs(s[2]))
    return t


def coq_site_table_text():
    """Gallina text of the table (used once to write the model; kept for maintenance)."""
    rows = ['  (A "%s", A "%s", A "%s", Role%s)' % s for s in sorted(SITES)]
    return 'Definition site_table : list site := [\n' + ';\n'.join(rows) + '\n].'


def stream_sites(ctx):
    try:
        found = enumerate_sites(common.REPO)
    except Exception as e:
        ctx.violation('obligation', dict(sig=dict(obligation=1), what='route enumeration could not parse the sources: %r' % (e,)), nofail=True)
        return False
    expected = sorted((a, b, c) for (a, b, c, _) in SITES)
    ctx.stat('sites_found', len(found))
    from collections import Counter
    cf, ce = Counter(found), Counter(expected)
    new = sorted((cf - ce).elements())
    gone = sorted((ce - cf).elements())
    for s in found:
        ctx.count('sites', s + (found.count(s),), nontrivial=True)
    ok = True
    for s in new:
        ok = False
        ctx.violation('obligation', dict(sig=dict(obligation=2), what='route table broken: NEW site of an executing / state-changing primitive that the model does not '
                 'account for: %s in %s (%s)' % (s[2], s[1], s[0]),
            site=list(s), direction='new', stream='sites',
            note='the sentinel stream searched for an input that executes project code; see its result in this run'),
            nofail=True)
    for s in gone:
        ok = False
        ctx.violation('obligation', dict(sig=dict(obligation=3), what='route table broken: site listed in the model is gone or moved: %s in %s (%s)' % (s[2], s[1], s[0]),
            site=list(s), direction='removed', stream='sites'), nofail=True)
    # the Coq table must be the same list
    case = g_list(found, g_site, 'str * str * str')
    fails, err = common.coq_failing(
        IMPORTS, '(fun obs => sites_eqb (map site_key site_table) obs)', [case], defs=ADEF)
    if err:
        raise RuntimeError('coq evaluation failed (sites): ' + err)
    if fails and ok:
        ctx.violation('obligation', dict(sig=dict(obligation=4), what='harness table SITES and Coq site_table differ (the enumerated list equals '
                                              'SITES but not site_table)', stream='sites'), nofail=True)
        ok = False
    # configuration the table depends on: which names bypass the parser, and the default of the flag
    auto = current_auto_import()
    ctx.count('sites', ('auto_import_modules', tuple(auto)), nontrivial=True)
    if auto != AUTO_DEFAULT:
        ok = False
        ctx.violation('obligation', dict(sig=dict(obligation=5), what='route table broken: settings.auto_import_modules is %r, the model documents %r (more names are routed to a '
                 'real import); the sentinel trees of this run carry modules of those names' % (auto, AUTO_DEFAULT),
            stream='sites'), nofail=True)
    try:
        import inspect
        from jedi.api.project import Project
        dflt = inspect.signature(Project.__init__).parameters['load_unsafe_extensions'].default
    except Exception as e:
        dflt = repr(e)
    ctx.count('sites', ('load_unsafe_extensions default', repr(dflt)), nontrivial=True)
    if dflt is not False:
        ok = False
        ctx.violation('obligation', dict(sig=dict(obligation=6), what='route table broken: the default of Project(load_unsafe_extensions=...) is %r, the model (Explicit false / '
                 'Discovered None) says False' % (dflt,), stream='sites'), nofail=True)
    ctx.sample(dict(stream='sites', n=len(found), first=list(found[0]) if found else None))
    return ok


# =============================================================================================
# part 1b: the two try/finally functions, AST -> model `stmt`
# =============================================================================================

class _Unknown(Exception):
    pass


def _is_sys_path(n):
    return isinstance(n, ast.Attribute) and n.attr == 'path' and isinstance(n.value, ast.Name) and n.value.id == 'sys'


def _has_call_to(node, names):
    for n in ast.walk(node):
        if isinstance(n, ast.Call):
            f = n.func
            nm = f.id if isinstance(f, ast.Name) else (f.attr if isinstance(f, ast.Attribute) else None)
            if nm in names:
                return True
    return False


OPAQUE = {'__import__': 'KImport', '_find_module': 'KFind'}
HARMLESS_CALLS = {('warnings', 'warn'), ('debug', 'dbg'), ('debug', 'warning'), ('debug', 'speed')}


def _tr_block(stmts, st):
    out = []
    for s in stmts:
        t = _tr_stmt(s, st)
        if t is not None:
            out.append(t)
    if not out:
        return 'SSkip'
    r = out[-1]
    for t in reversed(out[:-1]):
        r = '(SSeq %s %s)' % (t, r)
    return r


def _tr_stmt(s, st):
    if isinstance(s, ast.Expr) and isinstance(s.value, ast.Constant) and isinstance(s.value.value, str):
        return None
    if isinstance(s, ast.Assign) and len(s.targets) == 1:
        t, v = s.targets[0], s.value
        if isinstance(t, ast.Tuple) and isinstance(v, ast.Tuple) and len(t.elts) == 2 == len(v.elts):
            pairs = list(zip(t.elts, v.elts))
            save = [(a, b) for a, b in pairs if isinstance(a, ast.Name) and _is_sys_path(b)]
            setp = [(a, b) for a, b in pairs if _is_sys_path(a) and isinstance(b, ast.Name)]
            if len(save) == 1 and len(setp) == 1 and setp[0][1].id == st['arg']:
                st['temp'] = save[0][0].id
                return 'SSwap'
            raise _Unknown(ast.unparse(s))
        if _is_sys_path(t):
            if isinstance(v, ast.Name) and st.get('temp') == v.id:
                return 'SRestore'
            raise _Unknown(ast.unparse(s))
        if isinstance(t, ast.Name) and not _has_call_to(v, set(OPAQUE)) and t.id not in (st['arg'], st.get('temp')):
            return None
        raise _Unknown(ast.unparse(s))
    if isinstance(s, ast.Expr) and isinstance(s.value, ast.Call):
        f = s.value.func
        if isinstance(f, ast.Name) and f.id in OPAQUE:
            return '(SCall %s)' % OPAQUE[f.id]
        d = _dotted(f)
        if d and tuple(d) in HARMLESS_CALLS and not _has_call_to(ast.Module(body=[ast.Expr(a) for a in s.value.args], type_ignores=[]), set(OPAQUE)):
            return None
        raise _Unknown(ast.unparse(s))
    if isinstance(s, ast.Return):
        if s.value is not None and isinstance(s.value, ast.Call) and isinstance(s.value.func, ast.Name) \
                and s.value.func.id in OPAQUE:
            return '(SSeq (SCall %s) SReturn)' % OPAQUE[s.value.func.id]
        if s.value is not None and _has_call_to(s.value, set(OPAQUE)):
            raise _Unknown(ast.unparse(s))
        return 'SReturn'
    if isinstance(s, ast.If) and not s.orelse:
        t = s.test
        if isinstance(t, ast.Compare) and isinstance(t.left, ast.Name) and t.left.id == st['arg'] and \
                len(t.ops) == 1 and isinstance(t.ops[0], ast.IsNot) and isinstance(t.comparators[0], ast.Constant) \
                and t.comparators[0].value is None:
            return '(SIfArg %s)' % _tr_block(s.body, st)
        raise _Unknown(ast.unparse(s.test))
    if isinstance(s, ast.Try) and not s.orelse:
        hs = 'HNil'
        for h in reversed(s.handlers):
            if isinstance(h.type, ast.Name) and h.type.id == 'ImportError':
                k = 'HImportError'
            elif isinstance(h.type, ast.Name) and h.type.id == 'Exception':
                k = 'HException'
            else:
                raise _Unknown('except ' + (ast.unparse(h.type) if h.type else '<bare>'))
            hs = '(HCons %s %s %s)' % (k, _tr_block(h.body, st), hs)
        return '(STry %s %s %s)' % (_tr_block(s.body, st), hs, _tr_block(s.finalbody, st))
    if isinstance(s, ast.Pass):
        return None
    raise _Unknown(ast.unparse(s)[:120])


def translate_function(rel, name, arg):
    tree = ast.parse(open(os.path.join(common.REPO, rel), encoding='utf8').read())
    fn = next(n for n in tree.body if isinstance(n, ast.FunctionDef) and n.name == name)
    params = [a.arg for a in fn.args.args + fn.args.kwonlyargs]
    if arg not in params:
        raise _Unknown('no parameter %s' % arg)
    return _tr_block(fn.body, dict(arg=arg))


def stream_prog(ctx):
    progs = [('jedi/inference/compiled/access.py', 'load_module', 'load_module_prog'),
             ('jedi/inference/compiled/subprocess/functions.py', 'get_module_info', 'get_module_info_prog')]
    ok = True
    cases, metas = [], []
    for rel, name, model in progs:
        try:
            term = translate_function(rel, name, 'sys_path')
        except (_Unknown, StopIteration, OSError, SyntaxError) as e:
            ok = False
            ctx.violation('obligation', dict(sig=dict(obligation=7), what='statement skeleton of %s (%s) is no longer the modelled try/finally program: '
                     'untranslatable statement %s' % (name, rel, e), stream='prog', function=name), nofail=True)
            continue
        cases.append('(%s, %s)' % (model, term))
        metas.append((rel, name, model, term))
        ctx.count('prog', (name, term), nontrivial=True)
    fails, err = common.coq_failing(IMPORTS, "(fun c => let '(a, b) := c in stmt_eqb a b)", cases)
    if err:
        raise RuntimeError('coq evaluation failed (prog): ' + err)
    for i in fails:
        ok = False
        rel, name, model, term = metas[i]
        ctx.violation('obligation', dict(sig=dict(obligation=8), what='statement skeleton of %s (%s) differs from the model program %s (sys.path swap / restore / '
                 'except / finally structure changed)' % (name, rel, model),
            observed=term, stream='prog', function=name), nofail=True)
    if metas:
        ctx.sample(dict(stream='prog', function=metas[0][1], skeleton=metas[0][3]))
    return ok


# =============================================================================================
# part 2: dynamic differential of the two functions ("swap")
# =============================================================================================

EXC_CLASSES = {'none': None, 'ImportError': ImportError, 'ModuleNotFoundError': ModuleNotFoundError,
               'ValueError': ValueError, 'RuntimeError': RuntimeError, 'KeyError': KeyError,
               'KeyboardInterrupt': KeyboardInterrupt, 'SystemExit': SystemExit, 'GeneratorExit': GeneratorExit}
EXC_MODEL = {'none': 'None', 'ImportError': '(Some ImportError)', 'ModuleNotFoundError': '(Some ImportError)',
             'ValueError': '(Some OtherException)', 'RuntimeError': '(Some OtherException)',
             'KeyError': '(Some OtherException)', 'KeyboardInterrupt': '(Some BaseExc)',
             'SystemExit': '(Some BaseExc)', 'GeneratorExit': '(Some BaseExc)'}
EFFECTS = ['id', 'append', 'insert0', 'rebind', 'clear', 'rebind_empty']


def _apply_effect(eff, extra):
    if eff == 'append':
        sys.path.append(extra)
    elif eff == 'insert0':
        sys.path.insert(0, extra)
    elif eff == 'rebind':
        sys.path = [extra, 'zz']
    elif eff == 'clear':
        del sys.path[:]
    elif eff == 'rebind_empty':
        sys.path = []


def g_effect(eff, extra):
    e = gs(extra)
    return {'id': '(fun p => p)', 'append': '(fun p => p ++ [%s])' % e, 'insert0': '(fun p => %s :: p)' % e,
            'rebind': '(fun _ => [%s; A "zz"%%string])' % e, 'clear': '(fun _ => @nil (list N))',
            'rebind_empty': '(fun _ => @nil (list N))'}[eff]


def _swap_task(case):
    """Runs in a forked worker.  case = (which, init_path, arg, eff, extra, excname)."""
    which, init, arg, eff, extra, excname = case
    from jedi.inference.compiled import access
    from jedi.inference.compiled.subprocess import functions
    seen = {}
    exc_cls = EXC_CLASSES[excname]

    def stub(*a, **k):
        seen['path'] = list(sys.path)
        seen['n'] = seen.get('n', 0) + 1
        _apply_effect(eff, extra)
        if exc_cls is not None:
            raise exc_cls('c12 stub')
        return ('found', True)

    saved = sys.path
    res = dict(ok=True)
    import warnings
    try:
        sys.path = list(init)
        with warnings.catch_warnings():
            warnings.simplefilter('ignore')
            if which == 'load':
                access.__dict__['__import__'] = stub
                old_cap = access.create_access_path
                access.create_access_path = lambda inference_state, module: 'ACCESS'
                try:
                    try:
                        r = access.load_module(None, 'sys', list(arg))
                        res['status'] = 'returned'
                        res['value'] = 'access' if r == 'ACCESS' else ('none' if r is None else 'other')
                    except BaseException as e:
                        res['status'] = 'raised'
                        res['exc'] = type(e).__name__
                finally:
                    access.__dict__.pop('__import__', None)
                    access.create_access_path = old_cap
            else:
                old = functions._find_module
                functions._find_module = stub
                try:
                    try:
                        kw = dict(full_name='m', string='m')
                        if arg is not None:
                            kw['sys_path'] = list(arg)
                        r = functions.get_module_info(None, **kw)
                        res['status'] = 'returned'
                        res['value'] = 'found' if r == ('found', True) else ('none' if r == (None, None) else 'other')
                    except BaseException as e:
                        res['status'] = 'raised'
                        res['exc'] = type(e).__name__
                finally:
                    functions._find_module = old
        res['final'] = list(sys.path)
        res['seen'] = seen.get('path')
        res['calls'] = seen.get('n', 0)
    except BaseException as e:
        res = dict(ok=False, sig=common.exc_sig(e))
    finally:
        sys.path = saved
    return res


def stream_swap(ctx):
    rng = ctx.rng
    toks = ['a', 'b', 'c', '', 'p/x', 'é']
    cases = []
    n = ctx.n(400, 4000) * INTENSIFY[0]
    # exhaustive core: every (function, arg given?, effect, exception)
    for which in ('load', 'info'):
        for given in (True, False):
            if which == 'load' and not given:
                continue
            for eff in EFFECTS:
                for ex in EXC_CLASSES:
                    cases.append((which, ['a', 'b'], ['c', 'a'] if given else None, eff, 'x', ex))
    while len(cases) < n:
        which = rng.choice(['load', 'info'])
        init = [rng.choice(toks) for _ in range(rng.randint(0, 4))]
        arg = [rng.choice(toks) for _ in range(rng.randint(0, 4))]
        if which == 'info' and rng.random() < 0.35:
            arg = None
        cases.append((which, init, arg, rng.choice(EFFECTS), rng.choice(toks + ['x']), rng.choice(list(EXC_CLASSES))))
    results = common.pmap(_swap_task, cases, chunksize=32)
    gcases, metas = [], []
    dist = {}
    for c, r in zip(cases, results):
        which, init, arg, eff, extra, ex = c
        if not r.get('ok'):
            ctx.violation('obligation', dict(sig=dict(obligation=9), what='swap stream: could not drive %s: %r' % (which, r.get('sig')),
                                             stream='swap'), nofail=True)
            continue
        dist[(which, ex)] = dist.get((which, ex), 0) + 1
        ctx.count('swap', c, nontrivial=(arg is not None))
        # the property clause, directly: sys.path restored whenever it was swapped
        if arg is not None and r['final'] != init:
            ctx.deviation(dict(stream='swap', cls='sys-path-not-restored', function=which,
                               exit=r['status'] + ':' + r.get('exc', r.get('value', ''))),
                          dict(function=which, initial_sys_path=init, sys_path_arg=arg, call_effect=eff,
                               call_raises=ex, final_sys_path=r['final'], exit=r['status']),
                          '%s leaves sys.path = %r instead of %r when the wrapped call %s' % (
                              'access.load_module' if which == 'load' else 'functions.get_module_info',
                              r['final'], init, 'raises ' + ex if ex != 'none' else 'returns'))
        status = 'Returned' if r['status'] == 'returned' else '(Raised %s)' % {
            'ImportError': 'ImportError', 'ModuleNotFoundError': 'ImportError', 'KeyboardInterrupt': 'BaseExc',
            'SystemExit': 'BaseExc', 'GeneratorExit': 'BaseExc'}.get(r.get('exc'), 'OtherException')
        gcases.append('(%s, %s, %s, %s, %s, (%s, %s, %s))' % (
            g_bool(which == 'load'), g_opt(arg, gsl), gsl(init), g_effect(eff, extra), EXC_MODEL[ex],
            gsl(r['final']), status, g_opt(r['seen'], gsl)))
        metas.append(dict(function=which, initial_sys_path=init, sys_path_arg=arg, call_effect=eff, call_raises=ex,
                          observed=r))
    ctx.stat('swap_cases', {'%s/%s' % k: v for k, v in sorted(dist.items())})
    defs = ADEF + '''
Definition status_eqb (a b : status) : bool :=
  match a, b with
  | Fall, Fall => true | Returned, Returned => true
  | Raised ImportError, Raised ImportError => true
  | Raised OtherException, Raised OtherException => true
  | Raised BaseExc, Raised BaseExc => true
  | _, _ => false end.
Definition seen_of (m : mem) : option (list str) :=
  match events m with EImport s :: _ => Some s | EFind s :: _ => Some s | [] => None end.
Definition opt_eqb (a b : option (list str)) : bool :=
  match a, b with None, None => true | Some x, Some y => list_str_eqb x y | _, _ => false end.
Definition swap_ok (c : bool * option (list str) * list str * (list str -> list str) * option exc
                        * (list str * status * option (list str))) : bool :=
  let '(is_load, arg, init, f, r, (fin, st, seen)) := c in
  let eff := {| on_path := f; raises := r |} in
  let '(m, s) := exec arg eff (if is_load then load_module_prog else get_module_info_prog) (init_mem init) in
  list_str_eqb (sys_path m) fin && status_eqb s st && opt_eqb (seen_of m) seen.
'''
    fails, err = common.coq_failing(IMPORTS, 'swap_ok', gcases, shard=300, defs=defs)
    if err:
        raise RuntimeError('coq evaluation failed (swap): ' + err)
    for i in fails[:4]:
        m = metas[i]
        bad_property = m['sys_path_arg'] is not None and m['observed']['final'] != m['initial_sys_path']
        if not bad_property:
            ctx.violation('obligation', dict(sig=dict(obligation=10), what='correspondence exec/load_module_prog/get_module_info_prog: the real function and the model '
                     'disagree on (final sys.path, exit, path seen by the call)', input=m, case=gcases[i],
                stream='swap'), nofail=True)
    if metas:
        ctx.sample(dict(stream='swap', **{k: metas[0][k] for k in ('function', 'sys_path_arg', 'call_effect', 'call_raises')},
                        final=metas[0]['observed']['final']))
    return not fails


# =============================================================================================
# part 3: the routing table ("route"): raw import_module with a stub inference state
# =============================================================================================

def _raw_import_module():
    from jedi.inference import imports
    f = imports.import_module
    seen = 0
    while hasattr(f, '__wrapped__') and seen < 5:
        f = f.__wrapped__
        seen += 1
    if f.__name__ != 'import_module' or f.__code__.co_filename != imports.__file__.replace('.pyc', '.py'):
        raise RuntimeError('raw import_module not found under the decorators')
    return f


def _route_task(case):
    """case = (auto, names, fr, unsafe, env, sp, top)"""
    auto, names, fr, unsafe, env, sp, top = case
    import types
    from jedi import settings
    from jedi.inference import imports, compiled
    from jedi.api.project import Project
    from jedi.inference.compiled.subprocess.functions import ImplicitNSInfo
    from jedi.file_io import KnownContentFileIO
    log = []

    class Sub:
        def get_module_info(self, **kw):
            log.append(('gmi', dict((k, (list(v) if isinstance(v, (list, tuple)) else v)) for k, v in kw.items())))
            if fr == 'notfound':
                return None, None
            if fr == 'nosource':
                return None, False
            if fr == 'nosource_pkg':
                return None, True
            if fr == 'namespace':
                return ImplicitNSInfo('.'.join(names), ['/ns']), True
            return KnownContentFileIO('/src/%s.py' % names[-1], b'x = 1\n'), fr == 'source_pkg'

        def load_module(self, **kw):
            log.append(('lm', kw.get('dotted_name'), list(kw.get('sys_path')) if kw.get('sys_path') is not None else None))
            return None

    class Envn:
        def get_sys_path(self):
            return list(env)

    class Parent:
        def py__path__(self):
            return ['/parent']

        def is_stub(self):
            return False

    class State:
        pass

    st = State()
    st.memoize_cache = {}
    st.compiled_subprocess = Sub()
    st.environment = Envn()
    st.project = Project('/proj', load_unsafe_extensions=unsafe)
    st.get_sys_path = lambda **kw: ['/fallback']
    old_auto = settings.auto_import_modules
    old_lpm = imports._load_python_module

    def fake_lpm(inference_state, file_io, import_names=None, is_package=False):
        log.append(('lpm', str(file_io.path), tuple(import_names), is_package))
        return object()

    res = dict(ok=True)
    import warnings
    try:
        raw = _raw_import_module()
        settings.auto_import_modules = list(auto)
        imports._load_python_module = fake_lpm
        with warnings.catch_warnings():
            warnings.simplefilter('ignore')
            out = raw(st, tuple(names), None if top else Parent(), list(sp))
        res['n_values'] = len(list(out))
        res['log'] = log
    except Exception as e:
        res = dict(ok=False, sig=common.exc_sig(e), log=log)
    finally:
        settings.auto_import_modules = old_auto
        imports._load_python_module = old_lpm
    return res


FR_MODEL = {'notfound': 'FNotFound', 'nosource': 'FNoSource', 'nosource_pkg': 'FNoSource', 'namespace': 'FNamespace'}


def g_fr(fr, names):
    if fr in FR_MODEL:
        return FR_MODEL[fr]
    return '(FSource %s)' % gs('/src/%s.py' % names[-1])


def g_action(a):
    if a[0] == 'parse':
        return '(ParseSource %s)' % gs(a[1])
    if a[0] == 'compiled':
        return '(CompiledImport %s %s)' % (gs(a[1]), gsl(a[2]))
    return {'namespace': 'NamespaceValue', 'nothing': 'Nothing'}[a[0]]


ROUTE_DEFS = ADEF + '''
Definition action_eqb (a b : action) : bool :=
  match a, b with
  | ParseSource x, ParseSource y => str_eqb x y
  | CompiledImport d s, CompiledImport d' s' => str_eqb d d' && list_str_eqb s s'
  | NamespaceValue, NamespaceValue => true
  | Nothing, Nothing => true
  | _, _ => false end.
Definition route_ok (c : list str * bool * list str * str * str * finder_result * list str * bool * action) : bool :=
  let '(auto, u, env, name0, dotted, fr, sp, asked, act) := c in
  let cf := {| auto_import := auto; unsafe := u; env_path := env |} in
  action_eqb (import_route cf name0 dotted fr sp) act && Bool.eqb (asks_finder cf name0) asked.
'''


def stream_route(ctx):
    rng = ctx.rng
    name_pool = ['gi', 'conftest', 'json', 'mod', 'pkg', 'sub', 'GI', 'g', 'gi2', 'é']
    base_pool = ['/b0', '/b1', '/b2', '', '/b0/x']
    proj_pool = ['/proj', '/proj/pkg', '/b0x', '/b', '/proj/../b0', 'b0', '/B0']
    frs = ['notfound', 'nosource', 'nosource_pkg', 'namespace', 'source', 'source_pkg']
    cases = []
    for auto in ([], ['gi'], ['gi', 'json']):           # exhaustive core
        for names in (['gi'], ['gi', 'sub'], ['json'], ['mod'], ['pkg', 'sub']):
            for fr in frs:
                for unsafe in (False, True):
                    for top in (True, False):
                        cases.append((auto, names, fr, unsafe, ['/b0', '', '/b1'], ['/proj', '/b1', '/proj/pkg', '/b0', ''], top))
    n = ctx.n(800, 6000) * INTENSIFY[0]
    while len(cases) < n:
        auto = rng.sample(name_pool, rng.randint(0, 3))
        names = [rng.choice(name_pool) for _ in range(rng.randint(1, 3))]
        env = [rng.choice(base_pool) for _ in range(rng.randint(0, 5))]
        sp = [rng.choice(base_pool + proj_pool) for _ in range(rng.randint(0, 6))]
        cases.append((auto, names, rng.choice(frs), rng.random() < 0.3, env, sp, rng.random() < 0.6))
    try:
        common.setup_jedi(os.path.join(ctx.tmp, 'cache'))
        _raw_import_module()
    except Exception as e:
        ctx.violation('obligation', dict(sig=dict(obligation=11), what='route stream: raw imports.import_module is not reachable any more (%r); '
                                              'the in-situ route cases of the sentinel stream still run' % (e,),
                                         stream='route'), nofail=True)
        return False
    results = common.pmap(_route_task, cases, chunksize=32)
    gcases, metas = [], []
    kinds = {}
    for c, r in zip(cases, results):
        auto, names, fr, unsafe, env, sp, top = c
        if not r.get('ok'):
            ctx.deviation(dict(stream='route', exc=r['sig']['exc'], site=r['sig']['site']), dict(case=list(c), error=r['sig']),
                          'import_module raised %s on a stub inference state' % r['sig']['exc'])
            continue
        log = r['log']
        asked = any(e[0] == 'gmi' for e in log)
        lms = [e for e in log if e[0] == 'lm']
        lpms = [e for e in log if e[0] == 'lpm']
        if lms:
            act = ('compiled', lms[0][1], lms[0][2])
        elif lpms:
            act = ('parse', lpms[0][1])
        elif fr == 'namespace' and r['n_values'] == 1:
            act = ('namespace',)
        else:
            act = ('nothing',)
        kinds[act[0]] = kinds.get(act[0], 0) + 1
        ctx.count('route', c, nontrivial=act[0] != 'nothing')
        # the finder must be asked with the sys_path argument for a global search, with the parent path otherwise
        for e in log:
            if e[0] == 'gmi':
                kw = e[1]
                good = (kw.get('sys_path') == list(sp) and kw.get('is_global_search') is True) if top else \
                    (kw.get('path') == ['/parent'] and kw.get('sys_path') is None and kw.get('is_global_search') is False)
                if not good:
                    ctx.violation('obligation', dict(sig=dict(obligation=12), what='route stream: get_module_info called with unexpected arguments',
                                                     case=list(c), call=kw, stream='route'), nofail=True)
        # the clause, directly
        if act[0] == 'compiled' and not unsafe:
            base = list(env)
            if '' in base:
                base.remove('')
            outside = [d for d in act[2] if d not in base]
            if outside:
                ctx.deviation(dict(stream='route', cls='compiled-import-searches-outside-base'),
                              dict(case=dict(auto_import_modules=auto, import_names=names, finder=fr, environment_sys_path=env,
                                             sys_path=sp, load_unsafe_extensions=unsafe),
                                   search=act[2], outside_base=outside),
                              'with load_unsafe_extensions=False the helper is asked to __import__ %r with %r on its path '
                              '(not directories of the environment)' % (act[1], outside))
        if act[0] == 'compiled' and len(lms) + len(lpms) != 1 or act[0] == 'parse' and len(lpms) != 1:
            ctx.violation('obligation', dict(sig=dict(obligation=13), what='route stream: more than one action for one import', case=list(c), log=log,
                                             stream='route'), nofail=True)
        gcases.append('(%s, %s, %s, %s, %s, %s, %s, %s, %s)' % (
            gsl(auto), g_bool(unsafe), gsl(env), gs(names[0]), gs('.'.join(names)), g_fr(fr, names), gsl(sp),
            g_bool(asked), g_action(act)))
        metas.append(dict(auto_import_modules=auto, import_names=names, finder=fr, load_unsafe_extensions=unsafe,
                          environment_sys_path=env, sys_path=sp, top_level=top, observed_action=list(act), asked_finder=asked))
    ctx.stat('route_actions', kinds)
    fails, err = common.coq_failing(IMPORTS, 'route_ok', gcases, shard=400, defs=ROUTE_DEFS)
    if err:
        raise RuntimeError('coq evaluation failed (route): ' + err)
    for i in fails[:4]:
        ctx.violation('obligation', dict(sig=dict(obligation=14), what='correspondence import_route: the real import_module and the model take '
                                              'different actions (the direct clause check accepted the search path)',
                                         input=metas[i], case=gcases[i], stream='route'), nofail=True)
    if metas:
        ctx.sample(dict(stream='route', **metas[1 if len(metas) > 1 else 0]))
    return not fails


# =============================================================================================
# part 4: sentinel projects
# =============================================================================================

SO_NAME = 'mod.cpython-312-x86_64-linux-gnu.so'
REAL_PY = common.PY


def _prelude(sdir, tag, rel):
    name = '%s__%s' % (tag, rel.replace('/', '__'))
    return ("try:\n    open(%r, 'a').close()\nexcept Exception:\n    pass\n" % os.path.join(sdir, name)), name


def _body(stem, rng, extra=''):
    s = stem.replace('-', '_').replace('.', '_')
    lines = ['X_%s = 1' % s,
             'class K_%s:' % s, '    attr_%s = 2' % s, '    def meth(self, a, b=2):', '        return a',
             'def f_%s(a, b=1):' % s, '    return K_%s()' % s,
             'obj_%s = K_%s()' % (s, s)]
    return '\n'.join(lines) + '\n' + extra


AUTO_DEFAULT = ['gi']      # settings.auto_import_modules as modelled (ex_cfg / the documented default)


def current_auto_import():
    try:
        from jedi import settings
        return [str(x) for x in settings.auto_import_modules]
    except Exception:
        return list(AUTO_DEFAULT)


def gen_tree(rng, sdir, tag, variant):
    """Returns dict(files={rel: (text, mode)}, sentinels={name: rel}, modules=[...]).  Every Python file
    (and every file Python might execute: .pth, shell wrappers) writes its own sentinel when run."""
    files, sentinels = {}, {}

    def py(rel, extra='', body=True):
        pre, name = _prelude(sdir, tag, rel)
        stem = os.path.splitext(os.path.basename(rel))[0]
        if stem == '__init__':
            stem = os.path.basename(os.path.dirname(rel)) or 'root'
        files[rel] = (pre + (_body(stem, rng, extra) if body else extra), 0o644)
        sentinels[name] = rel

    always = ['conftest.py', 'setup.py']
    optional = ['sitecustomize.py', 'usercustomize.py', 'manage.py', 'json.py', 'typing.py', 'os.py', 'builtins.py',
                'types.py', 'abc.py', 'sys.py', 'site.py', 'encodings/__init__.py', 'collections/__init__.py',
                '__init__.py', '__main__.py', 'pytest.py', '_pytest/__init__.py', '_pytest/fixtures.py',
                'plugmod.py', 'lib/libmod.py', 'lib/gi.py', 'ns/m.py', 'ns/deep/n.py', 'src/inner/__init__.py',
                'src/inner/leaf.py', 'importlib/__init__.py', 'pickle.py', 'warnings.py']
    chosen = always + [f for f in optional if rng.random() < 0.55]
    gi_kind = rng.choice(['module', 'package', 'package', 'both', 'none'] if variant != 'control' else ['module'])
    if gi_kind in ('module', 'both'):
        chosen.append('gi.py')
    if gi_kind in ('package', 'both'):
        chosen += ['gi/__init__.py', 'gi/repository.py', 'gi/overrides/__init__.py']
    for extra_auto in [n for n in current_auto_import() if n != 'gi' and n.isidentifier()]:
        if extra_auto + '.py' not in chosen:
            chosen.append(extra_auto + '.py')
        chosen.append('lib/%s.py' % extra_auto)
    for rel in chosen:
        extra = ''
        if rel == 'manage.py':
            extra = "import os\nos.environ.setdefault('DJANGO_SETTINGS_MODULE', 'settings')\n"
        if rel == 'conftest.py':
            extra = ("import pytest\npytest_plugins = ['gi', 'plugmod', 'gi.repository']\n"
                     "@pytest.fixture\ndef fixt_root():\n    return K_conftest()\n"
                     "@pytest.fixture()\ndef fixt_gen():\n    yield obj_conftest\n")
        if rel == 'setup.py':
            extra = "from setuptools import setup\nsetup(name='evil', py_modules=['gi'])\n"
        if rel in ('json.py', 'typing.py', 'os.py', 'pickle.py', 'warnings.py'):
            extra = 'def dumps(o):\n    return K_%s()\npath = obj_%s\nenviron = {}\n' % ((os.path.splitext(rel)[0],) * 2)
        if rel == 'gi/__init__.py':
            extra = 'from gi import repository\nrequire_version = f_gi\n'
        if rel == 'gi/repository.py':
            extra = 'Gtk = K_repository()\n'
        py(rel, extra)
    # packages with __init__ everywhere, extension-looking text files, nested conftest
    py('pkg/__init__.py', 'from . import sub\n')
    py('pkg/sub.py')
    py('pkg/conftest.py', "import pytest\n@pytest.fixture\ndef fixt_pkg():\n    return K_conftest()\n")
    py('pkg/user.py', 'import gi\nfrom . import sub\nfrom .. import conftest\n')
    py('tests/__init__.py')
    py('tests/conftest.py', "import pytest\n@pytest.fixture\ndef fixt_local(fixt_root):\n    return fixt_root\n")
    for so in [SO_NAME, 'pkg/ext.cpython-312-x86_64-linux-gnu.so', 'pkg/abi.abi3.so', 'plain.so', 'gi/_gi.cpython-312-x86_64-linux-gnu.so']:
        if so.startswith('gi/') and gi_kind not in ('package', 'both'):
            continue
        pre, name = _prelude(sdir, tag, so)
        files[so] = (pre + 'X_so = 1\n', 0o755)
        sentinels[name] = so
    # stub files: Python syntax too
    if rng.random() < 0.6:
        py('pkg/sub.pyi', '', body=True)
        py('stubbed-stubs/__init__.pyi')
        py('stubbed/__init__.py')
    # *.pth: lines starting with `import` are executed by site.py for site directories
    for rel in ['evil.pth', 'lib/evil.pth']:
        name = '%s__%s' % (tag, rel.replace('/', '__'))
        files[rel] = ("import os; open(%r, 'a').close()\nlib\n" % os.path.join(sdir, name), 0o644)
        sentinels[name] = rel
    # buildout: bin/ scripts whose first line names python are read for sys.path insertions
    if rng.random() < 0.6:
        files['buildout.cfg'] = ('[buildout]\nparts =\n', 0o644)
        pre, name = _prelude(sdir, tag, 'bin/buildout-script')
        files['bin/buildout-script'] = ('#!/usr/bin/python\n' + pre +
                                        "import sys\nsys.path[0:0] = [\n  '%(R)s/lib',\n  '%(R)s/eggs/evil.egg',\n  ]\nimport gi\n", 0o755)
        sentinels[name] = 'bin/buildout-script'
        py('eggs/evil.egg/eggmod.py')
    # an interpreter-looking wrapper inside the project (venv layout): runs only if jedi spawns it
    name = '%s__INTERPRETER' % tag
    wrapper = "#!/bin/sh\n: >> '%s'\nexec %s \"$@\"\n" % (os.path.join(sdir, name), REAL_PY)
    files['venv/bin/python'] = (wrapper, 0o755)
    files['venv/bin/activate'] = ('# activate\n', 0o644)
    files['venv/pyvenv.cfg'] = ('home = /usr/bin\n', 0o644)
    files['.venv/bin/python'] = (wrapper, 0o755)
    sentinels[name] = 'venv/bin/python'
    for marker in rng.sample(['requirements.txt', 'MANIFEST.in', 'pyproject.toml', 'setup.cfg', 'tox.ini', '.git/HEAD'], 3):
        files[marker] = ('[tool.pytest.ini_options]\npythonpath = ["."]\n' if marker == 'pyproject.toml' else 'x\n', 0o644)
    files['.gitignore'] = ('*.pyc\n', 0o644)
    # zip archive on the path (zipimport gives source: parse only)
    zipmods = None
    if rng.random() < 0.5:
        pre, name = _prelude(sdir, tag, 'lib.zip/zipmod.py')
        zipmods = {'zipmod.py': pre + _body('zipmod', rng), 'gi.py': _prelude(sdir, tag, 'lib.zip/gi.py')[0] + 'X = 1\n'}
        sentinels[name] = 'lib.zip/zipmod.py'
        sentinels[_prelude(sdir, tag, 'lib.zip/gi.py')[1]] = 'lib.zip/gi.py'
    # project.json in the tree (what get_default_project picks up)
    pj = None
    if variant == 'json-benign':
        pj = dict(path='%(R)s', added_sys_path=['%(R)s/lib'], smart_sys_path=rng.random() < 0.5)
    elif variant == 'json-unsafe':
        pj = dict(path='%(R)s', load_unsafe_extensions=True)
    elif variant == 'json-env':
        pj = dict(path='%(R)s', environment_path=rng.choice(['%(R)s/venv', '%(R)s/venv/bin/python']))
    elif variant == 'json-both':
        pj = dict(path='%(R)s', environment_path='%(R)s/venv', load_unsafe_extensions=True, sys_path=None)
    if pj is not None:
        files['.jedi/project.json'] = (json.dumps([1, pj]), 0o644)
    return dict(files=files, sentinels=sentinels, zip=zipmods, gi_kind=gi_kind, variant=variant, project_json=pj)


def write_tree(root, tree):
    for rel, (text, mode) in tree['files'].items():
        p = os.path.join(root, rel)
        os.makedirs(os.path.dirname(p), exist_ok=True)
        with open(p, 'w', encoding='utf8') as f:
            f.write(text.replace('%(R)s', root))
        os.chmod(p, mode)
    if tree.get('zip'):
        with zipfile.ZipFile(os.path.join(root, 'lib.zip'), 'w') as z:
            for n, t in tree['zip'].items():
                z.writestr(n, t)


IMPORT_LINES = [
    'import gi', 'from gi import repository', 'from gi.repository import Gtk', 'import gi.repository', 'import gi.overrides',
    'from gi import _gi', 'import conftest', 'import setup', 'import sitecustomize, usercustomize', 'import manage',
    'import json', 'import typing', 'import os', 'import collections', 'import builtins', 'import types', 'import abc',
    'import sys', 'import site', 'import encodings', 'import importlib', 'import pickle', 'import warnings',
    'import mod', 'from mod import X_so', 'import plain', 'from pkg import ext', 'import pkg.ext', 'from pkg import abi',
    'import pkg.sub', 'from pkg import sub', 'from pkg.sub import K_sub', 'import plugmod', 'import libmod', 'import zipmod',
    'import ns.m', 'from ns.deep import n', 'import stubbed', 'import eggmod', 'import pytest', 'import _pytest.fixtures',
    'from src.inner import leaf', 'import __main__', 'import math', 'import _json', 'import zlib',
]
USE_LINES = [
    'gi.', 'gi.repository.', 'gi.require_version(', 'Gtk.', 'repository.Gtk.', 'conftest.fixt_root(', 'conftest.', 'setup.',
    'json.dumps(', 'json.', 'os.path.', 'os.environ', 'typing.', 'collections.', 'mod.', 'mod.X_so', 'ext.', 'abi.', 'plain.',
    'pkg.sub.K_sub().', 'sub.f_sub(', 'K_sub().meth(', 'plugmod.', 'libmod.K_libmod.', 'zipmod.obj_zipmod.', 'ns.m.', 'n.',
    'sitecustomize.', 'usercustomize.X_usercustomize', 'manage.', 'math.', '_json.', 'zlib.', 'sys.path', 'pytest.', 'leaf.',
    'x = gi.repository.Gtk', 'y = conftest.obj_conftest', 'z = json.dumps(1)', 'w = mod', 'print(gi, conftest, json, mod)',
]
PATH_LINES = [
    "import sys\nsys.path.append('%(R)s/lib')", "import sys\nsys.path.insert(0, '%(R)s/lib.zip')",
    "import sys\nsys.path[0:0] = ['%(R)s/src', '%(R)s/eggs/evil.egg']", "import sys\nsys.path += ['lib']",
]
BUFFER_PATHS = ['main.py', 'pkg/user2.py', 'tests/test_it.py', 'src/inner/work.py', 'conftest.py', 'setup.py', 'gi.py',
                'pkg/__init__.py', 'scratch.pyi', None, None]
METHODS = ['complete', 'complete_fuzzy', 'infer', 'goto', 'goto_follow', 'help', 'get_references', 'get_references_file',
           'get_signatures', 'get_context', 'get_names', 'get_syntax_errors', 'search', 'complete_search', 'rename', 'inline',
           'extract_variable', 'extract_function', 'project_search', 'project_complete_search']
PROJECT_OPTIONS = ['default', 'explicit', 'sys_path', 'sys_path_plus_env', 'added', 'smart_off', 'smart_off_added',
                   'sys_path_smart_off', 'explicit_cwd_inside', 'default_cwd_inside', 'env_sibling']
# env_sibling: an explicit environment whose own sys.path has a directory whose NAME is a string prefix of the
# project directory (/T/t01 vs /T/t012): only exact membership in the base path may let a directory through


def gen_buffer(rng, path):
    lines = []
    if rng.random() < 0.35:
        lines += rng.choice(PATH_LINES).split('\n')
    lines += rng.sample(IMPORT_LINES, rng.randint(3, 8))
    for extra_auto in [n for n in current_auto_import() if n != 'gi' and n.isidentifier()]:
        lines += ['import %s' % extra_auto, '%s.' % extra_auto]
    if path and os.path.basename(path).startswith('test_') or rng.random() < 0.15:
        lines += ['import pytest', '@pytest.fixture', 'def fixt_here(fixt_root):', '    return fixt_root',
                  'def test_one(fixt_root, fixt_local, fixt_pkg, fixt_gen, fixt_here, monkeypatch, fixt_', '):',
                  '    fixt_root.', '    fixt_local.attr_conftest', '    fixt_gen.meth(']
    if path and path.startswith('pkg/'):
        lines += ['from . import sub, conftest', 'from .sub import K_sub', 'from .. import gi']
    uses = rng.sample(USE_LINES, rng.randint(4, 9))
    lines += uses
    lines += ['v_local = 1', 'v_other = v_local + 2', 'def helper(a):', '    t = a + v_local', '    return t * 2']
    return '\n'.join(lines) + '\n'


def gen_queries(rng, code, n):
    """(method, line, col) tuples; positions at identifier ends / after dots / inside calls."""
    lines = code.split('\n')
    spots = []
    for i, l in enumerate(lines, 1):
        for m in re.finditer(r'\w+', l):
            spots.append((i, m.end()))
            if m.end() - m.start() > 2:
                spots.append((i, m.start() + 1))
        if l.endswith(('.', '(')):
            spots.append((i, len(l)))
    dotty = [s for s in spots if lines[s[0] - 1][:s[1]].endswith(('.', '('))]
    out = []
    for _ in range(n):
        meth = rng.choice(METHODS)
        if meth.startswith('complete') and dotty and rng.random() < 0.6 or meth == 'get_signatures' and dotty:
            line, col = rng.choice(dotty)
        else:
            line, col = rng.choice(spots)
        out.append((meth, line, col))
    return out


def gen_case(rng, idx, sdir, variant=None, nq=24):
    tag = 't%03d' % idx
    if variant is None:
        variant = rng.choice(['plain'] * 6 + ['json-benign', 'json-unsafe', 'json-env', 'json-both'])
    tree = gen_tree(rng, sdir, tag, variant)
    bufs = []
    for _ in range(3):
        path = rng.choice(BUFFER_PATHS)
        code = gen_buffer(rng, path)
        option = rng.choice(PROJECT_OPTIONS)
        if variant.startswith('json') and rng.random() < 0.7:
            option = rng.choice(['default', 'default_cwd_inside'])
        bufs.append(dict(path=path, code=code, option=option, queries=gen_queries(rng, code, nq // 3)))
    return dict(idx=idx, tag=tag, sdir=sdir, tree=tree, buffers=bufs, variant=variant)


# ---------------------------------------------------------------- worker-side instrumentation

_LOG = []
_INSTALLED = [False]


def _install_instrumentation():
    if _INSTALLED[0]:
        return
    _INSTALLED[0] = True
    from jedi.inference import imports
    from jedi.inference.compiled import subprocess as sp
    orig_lbm, orig_lpm = imports._load_builtin_module, imports._load_python_module
    orig_run, orig_popen = sp.CompiledSubprocess.run, sp._GeneralizedPopen

    def lbm(inference_state, import_names, sys_path):
        proj = inference_state.project
        _LOG.append(('lbm', tuple(import_names), None if sys_path is None else list(sys_path),
                     bool(proj._load_unsafe_extensions), list(inference_state.environment.get_sys_path())))
        return orig_lbm(inference_state, import_names, sys_path)

    def lpm(inference_state, file_io, import_names=None, is_package=False):
        _LOG.append(('lpm', str(file_io.path)))
        return orig_lpm(inference_state, file_io, import_names=import_names, is_package=is_package)

    def run(self, inference_state_id, function, args=(), kwargs={}):
        name = getattr(function, '__name__', repr(function))
        if name == 'load_module':
            _LOG.append(('lm', kwargs.get('dotted_name'), list(kwargs.get('sys_path') or []), self._executable))
        res = orig_run(self, inference_state_id, function, args, kwargs)
        if name == 'get_module_info':
            f, is_pkg = res
            if is_pkg is None:
                fr = ('notfound',)
            elif f is None:
                fr = ('nosource',)
            elif type(f).__name__ == 'ImplicitNSInfo':
                fr = ('namespace',)
            else:
                fr = ('source', str(f.path))
            _LOG.append(('gmi', kwargs.get('string'), kwargs.get('full_name'),
                         None if kwargs.get('sys_path') is None else list(kwargs['sys_path']), fr))
        else:
            _LOG.append(('req', name))
        return res

    def popen(args, **kw):
        _LOG.append(('spawn', list(args), kw.get('cwd'), None if kw.get('env') is None else dict(kw['env'])))
        return orig_popen(args, **kw)

    imports._load_builtin_module = lbm
    imports._load_python_module = lpm
    sp.CompiledSubprocess.run = run
    sp._GeneralizedPopen = popen


HELPER_PROBE = ("(os.getpid(), [(k, getattr(v, '__file__', None)) for k, v in sorted(sys.modules.items())], "
                "list(sys.path), os.getcwd(), dict(os.environ))")


def _helper_snapshot(script):
    """Ask the helper about itself over its own request channel: (None, eval, (expr,)) is run by
    Listener._run as eval(expr) in the globals of jedi.inference.compiled.subprocess."""
    env = script._inference_state.environment
    getsub = getattr(env, '_get_subprocess', None)
    if getsub is None:
        return None                    # InterpreterEnvironment: no helper
    sub = getsub()
    pid, mods, path, cwd, environ = sub._send(None, eval, (HELPER_PROBE,), {})
    return dict(pid=pid, modules=mods, sys_path=path, cwd=cwd, environ=environ, executable=sub._executable)


def _host_snapshot():
    return dict(modules=sorted(sys.modules), sys_path=list(sys.path), cwd=os.getcwd(), environ=dict(os.environ),
                meta_path=[repr(type(x)) for x in sys.meta_path], path_hooks=len(sys.path_hooks))


def _stdlib_roots():
    import sysconfig
    roots = {sysconfig.get_paths().get(k) for k in ('stdlib', 'platstdlib')}
    roots.add(os.path.dirname(os.__file__))
    return sorted(os.path.realpath(r) for r in roots if r)


def _under(path, root):
    path, root = os.path.realpath(path), os.path.realpath(root)
    return path == root or path.startswith(root.rstrip(os.sep) + os.sep)


def _touch_results(res, depth=1):
    """Use the returned objects the way an editor would: this triggers the lazy inference."""
    out = 0
    if res is None:
        return 0
    if hasattr(res, 'get_diff'):
        res.get_diff()
        res.get_changed_files()
        res.get_renames()
        return 1
    if not isinstance(res, (list, tuple)):
        res = [res] if hasattr(res, 'name') else list(res)
    for d in list(res)[:8]:
        out += 1
        for attr in ('name', 'type', 'module_name', 'module_path', 'full_name', 'description', 'line', 'column',
                     'complete', 'name_with_symbols', 'index', 'bracket_start'):
            try:
                getattr(d, attr, None)
            except Exception:
                pass
        for meth in ('docstring', 'get_signatures', 'get_type_hint', 'defined_names', 'is_definition', 'in_builtin_module',
                     'get_line_code', 'parent', 'to_string', 'is_stub', 'is_side_effect'):
            f = getattr(d, meth, None)
            if f is not None:
                try:
                    f()
                except Exception:
                    pass
        if depth:
            for meth in ('infer', 'goto'):
                f = getattr(d, meth, None)
                if f is not None:
                    try:
                        out += _touch_results(f(), depth - 1)
                    except Exception:
                        pass
    return out


def _make_script(jedi, root, buf, unsafe=False):
    from pathlib import Path
    opt = buf['option']
    path = os.path.join(root, buf['path']) if buf['path'] else None
    code = buf['code'].replace('%(R)s', root)
    kw = {}
    if unsafe:
        kw['load_unsafe_extensions'] = True
    if opt in ('default', 'default_cwd_inside') and not unsafe:
        project = None
    elif opt in ('explicit', 'explicit_cwd_inside', 'default', 'default_cwd_inside'):
        project = jedi.Project(root, **kw)
    elif opt == 'sys_path':
        project = jedi.Project(root, sys_path=[root, os.path.join(root, 'lib'), os.path.join(root, 'lib.zip')], **kw)
    elif opt == 'sys_path_plus_env':
        project = jedi.Project(Path(root), sys_path=[root] + [p for p in sys.path if p] + [os.path.join(root, 'lib')], **kw)
    elif opt == 'added':
        project = jedi.Project(root, added_sys_path=[root, os.path.join(root, 'lib'), os.path.join(root, 'lib.zip'),
                                                     os.path.join(root, 'src')], **kw)
    elif opt == 'smart_off':
        project = jedi.Project(root, smart_sys_path=False, **kw)
    elif opt == 'smart_off_added':
        project = jedi.Project(root, smart_sys_path=False, added_sys_path=[root, os.path.join(root, 'pkg')], **kw)
    elif opt == 'sys_path_smart_off':
        project = jedi.Project(root, smart_sys_path=False, sys_path=[root, os.path.join(root, 'lib')], **kw)
    elif opt == 'env_sibling':
        project = jedi.Project(root, **kw)
        sibling = root[:-1]
        env = dict(os.environ)
        env['PYTHONPATH'] = os.pathsep.join([common.REPO, sibling])
        environment = jedi.create_environment(REAL_PY, safe=False, env_vars=env)
        return jedi.Script(code, path=path, project=project, environment=environment), project
    else:
        raise ValueError(opt)
    return jedi.Script(code, path=path, project=project), project


def _run_query(script, project, q):
    meth, line, col = q
    if meth == 'complete':
        return script.complete(line, col)
    if meth == 'complete_fuzzy':
        return script.complete(line, col, fuzzy=True)
    if meth == 'infer':
        return script.infer(line, col)
    if meth == 'goto':
        return script.goto(line, col)
    if meth == 'goto_follow':
        return script.goto(line, col, follow_imports=True, follow_builtin_imports=True)
    if meth == 'help':
        return script.help(line, col)
    if meth == 'get_references':
        return script.get_references(line, col)
    if meth == 'get_references_file':
        return script.get_references(line, col, scope='file')
    if meth == 'get_signatures':
        return script.get_signatures(line, col)
    if meth == 'get_context':
        return script.get_context(line, col)
    if meth == 'get_names':
        return script.get_names(all_scopes=True, definitions=True, references=True)
    if meth == 'get_syntax_errors':
        script.get_syntax_errors()
        return None
    if meth == 'search':
        return list(script.search(['gi', 'fixt', 'K_', 'conftest.fixt_root', 'json'][col % 5], all_scopes=bool(line % 2)))[:10]
    if meth == 'complete_search':
        return list(script.complete_search(['gi', 'fix', 'K_c', 'mo', 'gi.re'][col % 5]))[:10]
    if meth == 'rename':
        return script.rename(line, col, new_name='renamed_c12')
    if meth == 'inline':
        return script.inline(line, col)
    if meth == 'extract_variable':
        return script.extract_variable(line, max(0, col - 1), new_name='ev_c12')
    if meth == 'extract_function':
        return script.extract_function(line, max(0, col - 1), new_name='ef_c12')
    proj = project or script._inference_state.project
    if meth == 'project_search':
        return list(proj.search(['gi', 'K_conftest', 'fixt_root', 'mod', 'gi.repository'][col % 5], all_scopes=bool(line % 2)))[:10]
    if meth == 'project_complete_search':
        return list(proj.complete_search(['gi', 'K_', 'fix', 'mo'][col % 4]))[:10]
    raise ValueError(meth)


def _fired(sdir, tag):
    try:
        return sorted(n for n in os.listdir(sdir) if n.startswith(tag + '__'))
    except OSError:
        return []


def _diff_env(a, b):
    keys = sorted(set(a) | set(b))
    return {k: [a.get(k), b.get(k)] for k in keys if a.get(k) != b.get(k)}


def _sentinel_task(case, unsafe=False):
    """Builds the tree, runs every query, and reports every observation that is not 'nothing happened'."""
    import warnings
    warnings.simplefilter('ignore')
    import jedi
    from jedi import settings
    _install_instrumentation()
    root = os.path.join(case['root_base'], case['tag'])
    shutil.rmtree(root, ignore_errors=True)
    os.makedirs(root)
    root = os.path.realpath(root)
    write_tree(root, case['tree'])
    tmp_root = os.path.realpath(case['root_base'])
    sdir, tag = case['sdir'], case['tag']
    stdlib = _stdlib_roots()
    import parso
    allowed_host_roots = stdlib + [os.path.realpath(os.path.join(common.REPO, 'jedi')),
                                   os.path.realpath(os.path.dirname(parso.__file__))]
    out = dict(idx=case['idx'], tag=tag, findings=[], errors={}, n_queries=0, n_results=0, insitu=[], requests={},
               lm_requests=0, host_lazy=set(), helper_new=set(), spawns=0)
    home_cwd = os.getcwd()

    def finding(cls, **data):
        out['findings'].append(dict(cls=cls, **data))

    reported_modules = set()

    def check_helper_modules(snap, where):
        for name, f in snap['modules']:
            if f and (_under(f, root) or _under(f, tmp_root)) and (name, f) not in reported_modules:
                reported_modules.add((name, f))
                finding('helper-module-from-project', module=name, file=f.replace(root, '$R'), where=where)

    seen_fired = set()
    try:
        for bi, buf in enumerate(case['buffers']):
            inside = buf['option'].endswith('cwd_inside')
            if inside:
                os.chdir(root)
            n_before = len(out['findings'])
            try:
                del _LOG[:]
                host0 = _host_snapshot()
                try:
                    script, project = _make_script(jedi, root, buf, unsafe=unsafe)
                except Exception as e:
                    out['errors']['Script:' + type(e).__name__] = out['errors'].get('Script:' + type(e).__name__, 0) + 1
                    script = None
                if script is not None:
                    try:
                        h0 = _helper_snapshot(script)
                    except Exception as e:
                        h0 = None
                        out['errors']['probe:' + type(e).__name__] = 1
                    if h0:
                        check_helper_modules(h0, dict(buffer=bi, query=['<first-contact>', 0, 0], option=buf['option'],
                                                      path=buf['path']))
                queries = buf['queries'] if script is not None else []
                for qi, q in enumerate([('<construct>', 0, 0)] + list(queries)):
                    where = dict(buffer=bi, query=list(q), option=buf['option'], path=buf['path'])
                    if qi > 0:
                        del _LOG[:]
                        host0 = _host_snapshot()
                        out['n_queries'] += 1
                        try:
                            with warnings.catch_warnings():
                                warnings.simplefilter('ignore')
                                res = _run_query(script, project, q)
                                out['n_results'] += _touch_results(res)
                        except Exception as e:
                            k = '%s:%s' % (q[0], type(e).__name__)
                            out['errors'][k] = out['errors'].get(k, 0) + 1
                    host1 = _host_snapshot()
                    log = list(_LOG)
                    lm_proj = [[e[1], [os.path.relpath(d, root) for d in e[2] if _under(d, root)]]
                               for e in log if e[0] == 'lm']
                    lm_proj = [x for x in lm_proj if x[1]][:20]
                    where['imports_searching_project'] = lm_proj
                    # ---- sentinels
                    now = set(_fired(sdir, tag))
                    if now - seen_fired:
                        finding('sentinel-fired', fired=sorted(now - seen_fired), where=where,
                                spawned=[e[1][0].replace(root, '$R') for e in log if e[0] == 'spawn'])
                        seen_fired |= now
                    # ---- host state
                    if host1['sys_path'] != host0['sys_path']:
                        finding('host-sys-path-changed', before=host0['sys_path'], after=host1['sys_path'], where=where)
                    if host1['cwd'] != host0['cwd']:
                        finding('host-cwd-changed', before=host0['cwd'], after=host1['cwd'], where=where)
                    if host1['environ'] != host0['environ']:
                        finding('host-environ-changed', diff=_diff_env(host0['environ'], host1['environ']), where=where)
                    if host1['meta_path'] != host0['meta_path'] or host1['path_hooks'] != host0['path_hooks']:
                        finding('host-import-hooks-changed', before=host0['meta_path'], after=host1['meta_path'], where=where)
                    if host1['modules'] != host0['modules']:
                        gone = sorted(set(host0['modules']) - set(host1['modules']))
                        if gone:
                            finding('host-module-removed', modules=gone, where=where)
                        for name in sorted(set(host1['modules']) - set(host0['modules'])):
                            m = sys.modules.get(name)
                            f = getattr(m, '__file__', None)
                            okm = (f is None and (name.split('.')[0] in sys.stdlib_module_names or name in sys.builtin_module_names)) \
                                or (f is not None and any(_under(f, r) for r in allowed_host_roots)
                                    and not _under(f, tmp_root) and 'site-packages' not in f)
                            if okm:
                                out['host_lazy'].add(name)
                            else:
                                finding('host-module-loaded', module=name, file=(f or '').replace(root, '$R'), where=where)
                    # ---- helper state
                    if script is not None:
                        try:
                            h1 = _helper_snapshot(script)
                        except Exception as e:
                            h1 = None
                            out['errors']['probe:' + type(e).__name__] = out['errors'].get('probe:' + type(e).__name__, 0) + 1
                        if h0 and h1 and h0['pid'] == h1['pid']:
                            if h1['sys_path'] != h0['sys_path']:
                                finding('helper-sys-path-changed', before=h0['sys_path'], after=h1['sys_path'], where=where)
                            if h1['cwd'] != h0['cwd']:
                                finding('helper-cwd-changed', before=h0['cwd'], after=h1['cwd'], where=where)
                            if h1['environ'] != h0['environ']:
                                finding('helper-environ-changed', diff=_diff_env(h0['environ'], h1['environ']), where=where)
                            old = dict(h0['modules'])
                            for name, f in h1['modules']:
                                if name not in old:
                                    out['helper_new'].add(name)
                                    bases = [p for p in h0['sys_path'] if p]
                                    if f and (_under(f, root) or _under(f, tmp_root) or not any(_under(f, b) for b in bases)):
                                        reported_modules.add((name, f))
                                        finding('helper-module-from-project', module=name, file=f.replace(root, '$R'), where=where)
                        elif h0 and h1:
                            finding('helper-restarted', where=where)
                        if h1:
                            h0 = h1
                    # ---- requests of this query
                    pending = None
                    for i, e in enumerate(log):
                        if e[0] == 'spawn':
                            out['spawns'] += 1
                            args, cwd, envv = e[1], e[2], e[3]
                            pp = (envv if envv is not None else os.environ).get('PYTHONPATH', '')
                            declared = root[:-1] if buf['option'] == 'env_sibling' else None
                            bad = _under(args[0], tmp_root) or (cwd and _under(cwd, tmp_root)) or \
                                any(p and p != declared and _under(p, tmp_root) for p in pp.split(os.pathsep)) or \
                                not _under(args[1], common.REPO)
                            if bad:
                                finding('interpreter-from-project', args=[a.replace(root, '$R') for a in args[:2]], where=where)
                        elif e[0] == 'req':
                            out['requests'][e[1]] = out['requests'].get(e[1], 0) + 1
                        elif e[0] == 'lm':
                            out['lm_requests'] += 1
                        elif e[0] == 'gmi':
                            pending = (i, e)
                        if e[0] == 'lbm':
                            names, sp, unsafe_flag, envp = e[1], e[2], e[3], e[4]
                            nxt = log[i + 1] if i + 1 < len(log) else None
                            fr = None
                            if pending is not None and pending[0] == i - 1 and pending[1][2] == '.'.join(names):
                                fr = pending[1][4]
                            if sp is not None and nxt is not None and nxt[0] == 'lm':
                                base = list(envp)
                                if '' in base:
                                    base.remove('')
                                outside = [d for d in nxt[2] if d not in base]
                                if outside and not unsafe_flag:
                                    finding('load-module-search-outside-base', dotted=nxt[1],
                                            outside=[d.replace(root, '$R') for d in outside], where=where)
                                toks = {}

                                def tok(p):
                                    if p == '':
                                        return ''
                                    return toks.setdefault(p, 'd%d' % len(toks))
                                out['insitu'].append(dict(names=list(names), fr=fr, unsafe=unsafe_flag,
                                                          env=[tok(p) for p in envp], sp=[tok(p) for p in sp],
                                                          search=[tok(p) for p in nxt[2]], dotted=nxt[1],
                                                          auto=list(settings.auto_import_modules),
                                                          project_dirs_in_search=[d.replace(root, '$R') for d in nxt[2] if _under(d, tmp_root)]))
                        if e[0] == 'lpm' and pending is not None and pending[0] == i - 1 and pending[1][4][0] == 'source':
                            toks = {}
                            out['insitu'].append(dict(names=pending[1][2].split('.'), fr=pending[1][4][:1] + ('f',), unsafe=False,
                                                      env=[], sp=[], parsed=(e[1] == pending[1][4][1]),
                                                      auto=list(settings.auto_import_modules)))
            finally:
                if inside:
                    os.chdir(home_cwd)
                if len(out['findings']) > n_before:
                    # project code ran in the long-lived helper (its sys.modules now holds project packages, whose
                    # __path__ would serve later `import pkg.sub` requests whatever sys.path is): the next buffer
                    # starts with a fresh helper so that every buffer is an independent observation
                    script = project = None
                    common.drop_parent_helper()
    finally:
        try:
            os.chdir(home_cwd)
        except OSError:
            pass
        shutil.rmtree(root, ignore_errors=True)
        if out['findings'] or unsafe:
            # project code ran inside the (long-lived, shared) helper: later cases get a fresh one
            script = project = None
            common.drop_parent_helper()
    out['host_lazy'] = sorted(out['host_lazy'])
    out['helper_new'] = sorted(out['helper_new'])
    return out


def _sentinel_task_unsafe(case):
    return _sentinel_task(case, unsafe=True)


def predicted_by_model(case, f):
    """Classifier for the .jedi/project.json finding: is this observation what the model predicts for a
    configuration discovered in the analysed tree (effective_unsafe (Discovered (Some true)) / an
    environment_path inside the tree)?"""
    pj = case['tree'].get('project_json') or {}
    opt = f.get('where', {}).get('option', '')
    if not opt.startswith('default'):
        return None
    reqs = (f.get('where') or {}).get('imports_searching_project') or []
    if f['cls'] in ('sentinel-fired',):
        fired = [case['tree']['sentinels'].get(n, n) for n in f['fired']]
        interp = [x for x in fired if x == 'venv/bin/python']
        mods = [x for x in fired if x != 'venv/bin/python']
        mech = []
        if interp:
            if not pj.get('environment_path'):
                return None
            mech.append('environment_path')
        if mods:
            # with unsafe=true the model routes auto-import names and source-less modules to a real import
            # whose search path contains project directories (import_route, validated in situ against Coq);
            # such an import runs the top-level package/module of the dotted name found in those directories
            if not pj.get('load_unsafe_extensions'):
                return None
            for x in mods:
                ok = False
                for dotted, dirs in reqs:
                    for d in dirs:
                        pre = '' if d == '.' else d + '/'
                        if x.startswith(pre):
                            top = x[len(pre):].split('/')[0]
                            top = top.split('.')[0]
                            if top == dotted.split('.')[0]:
                                ok = True
                if not ok:
                    return None
            mech.append('load_unsafe_extensions')
        return '+'.join(mech) if mech else None
    if f['cls'] == 'interpreter-from-project' and pj.get('environment_path'):
        return 'environment_path'
    if f['cls'] == 'helper-module-from-project' and pj.get('load_unsafe_extensions'):
        top = f.get('module', '').split('.')[0]
        if any(dotted.split('.')[0] == top for dotted, dirs in reqs):
            return 'load_unsafe_extensions'
    return None


INSITU_DEFS = ROUTE_DEFS


def stream_sentinel(ctx, broken_tie=False):
    rng = ctx.rng
    sdir = os.path.join(ctx.tmp, 'sentinels')
    os.makedirs(sdir, exist_ok=True)
    root_base = os.path.join(ctx.tmp, 'trees')
    os.makedirs(root_base, exist_ok=True)
    os.environ['C12_SENTINEL_DIR'] = sdir
    ncase = ctx.n(40, 240) * (2 if (broken_tie or INTENSIFY[0] > 1) else 1)
    nq = ctx.n(21, 36)
    cases = []
    fixed_variants = ['plain', 'plain', 'json-benign', 'json-unsafe', 'json-env', 'json-both']
    for i in range(ncase):
        c = gen_case(rng, i, sdir, variant=fixed_variants[i] if i < len(fixed_variants) else None, nq=nq)
        c['root_base'] = root_base
        cases.append(c)
    results = common.pmap(_sentinel_task, cases, chunksize=1, timeout=3600)
    errors, requests, lazy, helper_new = {}, {}, set(), set()
    nq_total = nres = nlm = nspawn = 0
    variants, options = {}, {}
    gcases, gmeta = [], []
    n_find = 0
    for c, r in zip(cases, results):
        variants[c['variant']] = variants.get(c['variant'], 0) + 1
        for b in c['buffers']:
            options[b['option']] = options.get(b['option'], 0) + 1
            for q in b['queries']:
                ctx.count('sentinel', (c['variant'], b['path'], b['option'], b['code'], q), nontrivial=True)
        for k, v in r['errors'].items():
            errors[k] = errors.get(k, 0) + v
        for k, v in r['requests'].items():
            requests[k] = requests.get(k, 0) + v
        lazy |= set(r['host_lazy'])
        helper_new |= set(r['helper_new'])
        nq_total += r['n_queries']
        nres += r['n_results']
        nlm += r['lm_requests']
        nspawn += r['spawns']
        for f in r['findings']:
            n_find += 1
            mech = predicted_by_model(c, f)
            where = f.get('where') if isinstance(f.get('where'), dict) else {}
            if mech:
                sig = dict(stream='sentinel', cls='project-json-opt-in', predicted=True)
            else:
                sig = dict(stream='sentinel', cls=f['cls'])
            ctx.deviation(sig, dict(observation=f, mechanism=mech, case=_case_for_replay(c, where.get('buffer'))),
                          _describe(f, c))
        for ins in r['insitu']:
            if 'parsed' in ins:
                ctx.count('insitu', ('parse', tuple(ins['names'])), nontrivial=True)
                if not ins['parsed']:
                    ctx.violation('obligation', dict(sig=dict(obligation=15), what='in-situ: finder returned a source file but another file was parsed',
                                                     input=ins, stream='sentinel'), nofail=True)
                continue
            fr = ins['fr']
            in_auto = ins['names'][0] in ins['auto']
            frg = 'FNoSource' if (fr and fr[0] == 'nosource') else ('FNotFound' if fr is None else
                                                                    {'notfound': 'FNotFound', 'namespace': 'FNamespace'}.get(fr[0], '(FSource (A "f"%string))'))
            gcases.append('(%s, %s, %s, %s, %s, %s, %s, %s, %s)' % (
                gsl(ins['auto']), g_bool(ins['unsafe']), gsl(ins['env']), gs(ins['names'][0]), gs(ins['dotted']), frg,
                gsl(ins['sp']), g_bool(fr is not None), g_action(('compiled', ins['dotted'], ins['search']))))
            gmeta.append(ins)
            ctx.count('insitu', ('compiled', tuple(ins['names']), tuple(ins['sp']), tuple(ins['env'])), nontrivial=True)
    ctx.stat('sentinel_cases', dict(cases=len(cases), queries=nq_total, touched_results=nres, variants=variants, options=options,
                                    load_module_requests=nlm, helper_starts=nspawn, observations=n_find))
    ctx.stat('sentinel_query_errors', dict(sorted(errors.items(), key=lambda kv: -kv[1])[:25]))
    ctx.stat('helper_requests', requests)
    ctx.stat('host_lazy_imports', sorted(lazy)[:40])
    ctx.stat('helper_new_modules', sorted(helper_new)[:40])
    left = sorted(os.listdir(sdir))
    ctx.stat('sentinel_files_at_end', len(left))
    fails, err = common.coq_failing(IMPORTS, 'route_ok', gcases, shard=300, defs=INSITU_DEFS)
    if err:
        raise RuntimeError('coq evaluation failed (insitu): ' + err)
    for i in fails[:4]:
        ctx.violation('obligation', dict(sig=dict(obligation=16), what='in-situ correspondence import_route: a real query routed an import differently '
                                              'from the model (finder asked / search path given to the helper)',
                                         input=gmeta[i], case=gcases[i], stream='sentinel'), nofail=True)
    if cases:
        c = cases[0]
        ctx.sample(dict(stream='sentinel', variant=c['variant'], files=sorted(c['tree']['files'])[:12],
                        buffer=c['buffers'][0]['code'][:200], option=c['buffers'][0]['option'],
                        queries=[list(q) for q in c['buffers'][0]['queries'][:4]]))
    return nq_total


def _case_for_replay(c, bi):
    d = dict(idx=c['idx'], tag=c['tag'], variant=c['variant'], tree=c['tree'])
    d['buffers'] = [c['buffers'][bi]] if bi is not None and bi < len(c['buffers']) else c['buffers']
    return d


def _describe(f, c):
    w = f.get('where') if isinstance(f.get('where'), dict) else {}
    q = w.get('query')
    at = 'during %s at %s of a buffer %s (project option %s)' % (
        q[0] if q else '?', tuple(q[1:]) if q else '', w.get('path') or '<no path>', w.get('option'))
    if f['cls'] == 'sentinel-fired':
        names = [c['tree']['sentinels'].get(n, n) for n in f['fired']]
        return 'project code was executed (%s) %s' % (', '.join(names), at)
    return '%s %s: %s' % (f['cls'], at, {k: v for k, v in f.items() if k not in ('cls', 'where')})


# =============================================================================================
# part 5: positive controls
# =============================================================================================

def stream_control(ctx):
    sdir = os.path.join(ctx.tmp, 'sentinels')
    os.makedirs(sdir, exist_ok=True)
    root_base = os.path.join(ctx.tmp, 'trees')
    os.makedirs(root_base, exist_ok=True)
    import random
    rng = random.Random(ctx.seed)
    # (a) the detector itself: import a sentinel module directly, in a subprocess
    tree = gen_tree(rng, sdir, 'ctl', 'control')
    root = os.path.join(root_base, 'ctl')
    shutil.rmtree(root, ignore_errors=True)
    os.makedirs(root)
    write_tree(root, tree)
    p = subprocess.run([common.PY, '-c', 'import sys; sys.path.insert(0, %r); import gi, pkg.sub' % root],
                       env=common.jedi_env(), capture_output=True, text=True, timeout=60, cwd=root_base)
    fired = [tree['sentinels'][n] for n in _fired(sdir, 'ctl')]
    ctx.count('control', ('detector', tuple(fired)), nontrivial=True)
    if not {'gi.py', 'pkg/__init__.py', 'pkg/sub.py'} <= set(fired):
        ctx.violation('obligation', dict(sig=dict(obligation=17), what='positive control failed: importing sentinel modules directly did not leave '
                                              'their sentinel files (detector broken)', fired=fired, stderr=p.stderr[-500:],
                                         stream='control'), nofail=True)
    p = subprocess.run([os.path.join(root, 'venv/bin/python'), '-c', 'pass'], capture_output=True, timeout=60)
    if 'ctl__INTERPRETER' not in _fired(sdir, 'ctl'):
        ctx.violation('obligation', dict(sig=dict(obligation=18), what='positive control failed: the interpreter wrapper leaves no sentinel',
                                         stream='control'), nofail=True)
    for n in _fired(sdir, 'ctl'):
        os.unlink(os.path.join(sdir, n))
    shutil.rmtree(root, ignore_errors=True)
    # (b) load_unsafe_extensions=True: the model says the project directory IS searched
    #     (C12_unsafe_searches_project_refuted); the implementation must execute the project's gi.py
    case = dict(idx=900, tag='t900', sdir=sdir, root_base=root_base, variant='control',
                tree=gen_tree(rng, sdir, 't900', 'control'),
                buffers=[dict(path='main.py', code='import gi\ngi.\nfrom gi import X_gi\n', option=o,
                              queries=[('complete', 2, 3), ('infer', 3, 18), ('goto_follow', 1, 8)])
                         for o in ('explicit', 'added', 'default')])
    r = common.pmap(_sentinel_task_unsafe, [case], procs=1)[0]
    fired = sorted({case['tree']['sentinels'].get(n, n) for f in r['findings'] if f['cls'] == 'sentinel-fired' for n in f['fired']})
    searched = [i for i in r['insitu'] if i.get('project_dirs_in_search')]
    ctx.count('control', ('unsafe', tuple(fired), len(searched)), nontrivial=True)
    ctx.stat('control_unsafe', dict(fired=fired, load_module_requests_searching_project=len(searched)))
    if 'gi.py' not in fired or not searched:
        ctx.violation('obligation', dict(sig=dict(obligation=19), what='positive control failed: with load_unsafe_extensions=True the model routes `import gi` to a real import '
                 'that searches the project, but no sentinel fired / no such request was seen (the sentinel stream or the '
                 'model is not observing the real route)', fired=fired, insitu=r['insitu'][:3], errors=r['errors'],
            stream='control'), nofail=True)
    # the same case with the flag off must be silent (and is what the theorem is about)
    r2 = common.pmap(_sentinel_task, [dict(case, tag='t901', idx=901, tree=gen_tree(rng, sdir, 't901', 'control'))], procs=1)[0]
    quiet = not [f for f in r2['findings'] if f['cls'] == 'sentinel-fired']
    ctx.count('control', ('safe', quiet), nontrivial=True)
    if not quiet:
        for f in r2['findings']:
            ctx.deviation(dict(stream='control', cls=f['cls']), dict(observation=f), 'control case with the flag off: ' + str(f)[:300])
    ctx.sample(dict(stream='control', unsafe_fired=fired, safe_quiet=quiet))


# =============================================================================================

def run(ctx):
    common.setup_jedi(os.path.join(ctx.tmp, 'cache'))
    ctx.proofs()
    ctx.cov['fingerprints'] = common.fingerprint(FP)
    changed = sorted(k for k, v in ctx.cov['fingerprints'].items() if BASE_FP.get(k) != v)
    ctx.cov['fingerprints_changed'] = changed
    if changed and ctx.quick:
        INTENSIFY[0] = 3
    ctx.cov['intensified'] = INTENSIFY[0] > 1
    ctx.cov['rule'] = (
        'sites: every listed primitive call / state write in every .py of jedi/ (exhaustive, seed-independent); '
        'prog: the two functions (exhaustive); swap: exhaustive function x arg-given x effect x exception core + seeded '
        'path lists (non-trivial = a sys_path argument is given); route: exhaustive auto-list x name x finder answer x flag x '
        'top-level core + seeded lists (non-trivial = an action is taken); sentinel: seeded trees x buffers x project options '
        'x methods x positions (every query counts; distinct by variant, buffer text, option, query); insitu: import decisions '
        'captured inside those queries; control: 3 fixed cases')
    ctx.assumptions += [
        'the model covers the decision logic (routing table, path filter, swap/restore, helper state machine); that no OTHER '
        'route to code execution exists is pinned by the site enumeration and searched by the sentinel stream, not proved',
        'getattr tricks / dynamically computed attribute names are outside the AST matcher',
        'calls that run under the helper\'s ambient sys.path (environment code) are assumed not to change sys.path themselves',
        'the helper\'s sys.modules holds no project package at the start of a query (submodules are resolved through the '
        'parent\'s __path__, not sys.path); the harness restarts the helper after any buffer in which project code ran',
        'parso (outside jedi/) unpickles its parser cache from settings.cache_directory: trusted, not project-controlled',
        'new host modules that are jedi/parso/stdlib modules imported lazily are not counted as a change of sys.modules']
    t = time.time()
    tie_ok = stream_sites(ctx)
    tie_ok = stream_prog(ctx) and tie_ok
    ctx.stat('wall_static', round(time.time() - t, 1))
    for f in (stream_swap, stream_route):
        t = time.time()
        tie_ok = f(ctx) and tie_ok
        ctx.stat('wall_' + f.__name__, round(time.time() - t, 1))
    t = time.time()
    stream_control(ctx)
    ctx.stat('wall_stream_control', round(time.time() - t, 1))
    t = time.time()
    stream_sentinel(ctx, broken_tie=not tie_ok)
    ctx.stat('wall_stream_sentinel', round(time.time() - t, 1))
    ctx.stat('tie_intact', bool(tie_ok))


def replay(ctx, path):
    if not os.path.isabs(path) and not os.path.exists(path):
        path = os.path.join(common.VERIF, path)
    rec = json.load(open(path))
    print(json.dumps({k: v for k, v in rec.items() if k != 'case'}, indent=1, ensure_ascii=False)[:3000])
    case = rec.get('case')
    common.setup_jedi(os.path.join(ctx.tmp, 'cache'))
    inp = rec.get('input') or {}
    if 'call_effect' in inp or 'call_effect' in rec:         # swap stream
        m = inp if 'call_effect' in inp else rec
        c = (m['function'], m['initial_sys_path'], m['sys_path_arg'], m['call_effect'], 'x', m['call_raises'])
        print('implementation now:', common.pmap(_swap_task, [c], procs=1)[0])
        print('model:', common.coq_show(IMPORTS, [
            'let r := exec %s {| on_path := %s; raises := %s |} %s (init_mem %s) in (sys_path (fst r), snd r)' % (
                g_opt(c[2], gsl), g_effect(c[3], c[4]), EXC_MODEL[c[5]],
                'load_module_prog' if c[0] == 'load' else 'get_module_info_prog', gsl(c[1]))]))
        return 0
    if 'finder' in inp or isinstance(case, dict) and 'finder' in case:       # route stream
        m = inp if 'finder' in inp else case
        c = (m['auto_import_modules'], m['import_names'], m['finder'], m['load_unsafe_extensions'],
             m['environment_sys_path'], m['sys_path'], m.get('top_level', True))
        print('implementation now:', common.pmap(_route_task, [c], procs=1)[0])
        print('model:', common.coq_show(IMPORTS, [
            'import_route {| auto_import := %s; unsafe := %s; env_path := %s |} %s %s %s %s' % (
                gsl(c[0]), g_bool(c[3]), gsl(c[4]), gs(c[1][0]), gs('.'.join(c[1])), g_fr(c[2], c[1]), gsl(c[5]))]))
        return 0
    if not isinstance(case, dict) or 'tree' not in case:
        return 0
    sdir = os.path.join(ctx.tmp, 'sentinels')
    os.makedirs(sdir, exist_ok=True)
    root_base = os.path.join(ctx.tmp, 'trees')
    os.makedirs(root_base, exist_ok=True)
    # the recorded tree has the old sentinel directory baked in: point it at the new one
    old = None
    for rel, (text, mode) in case['tree']['files'].items():
        m = re.search(r"open\('([^']+)/" + re.escape(case['tag']) + '__', text)
        if m:
            old = m.group(1)
            break
    if old:
        for rel, (text, mode) in list(case['tree']['files'].items()):
            case['tree']['files'][rel] = (text.replace(old, sdir), mode)
        if case['tree'].get('zip'):
            case['tree']['zip'] = {k: v.replace(old, sdir) for k, v in case['tree']['zip'].items()}
    case['sdir'], case['root_base'] = sdir, root_base
    for b in case['buffers']:
        b['queries'] = [tuple(q) for q in b['queries']]
    r = common.pmap(_sentinel_task, [case], procs=1)[0]
    print('implementation now: findings =')
    for f in r['findings']:
        print('  ', json.dumps(f, default=repr, ensure_ascii=False)[:600])
    print('query errors:', r['errors'])
    print('model: import_route with the flag as recorded:')
    print(common.coq_show(IMPORTS, ['import_route (ex_cfg true) ex_gi ex_gi FNotFound (ex_proj :: ex_env)',
                                    'import_route (ex_cfg false) ex_gi ex_gi FNotFound (ex_proj :: ex_env)']))
    return 0
