"""C20 — Project settings round-trip and shape sys.path as documented.

Streams
  compose    Project(...) from generated constructor arguments (str/Path, relative/absolute,
             unicode, duplicates, string-prefix entries, '' entries, fake/real environment
             path, buildout, _django) x script location (inside/outside/prefix-sibling/above
             the project, depth 0..4, __init__.py as file / as directory / absent) :
             script._inference_state.get_sys_path(add_parent_paths, add_init_paths) for the 4
             flag combinations and the Project attributes  vs  the Gallina model; the
             property's clauses are checked directly on the real list by an independent oracle.
  roundtrip  Project(...).save() ; Project.load(...) : attributes before/after vs the model
             (mk_project / save / load) and directly against each other (the property;
             environment_path is compared by its str and must load back as a str);
             the JSON file is inspected.  save() raising is always a deviation.
  import     public API only: which of several same-named modules `import zqmod` resolves to
             (goto/infer module_path), which uniquely named modules are importable (goto) and
             offered by import completion (complete)  vs  first-match over the model's composed
             path, vs CPython's PathFinder on the same path, vs the independent oracle.
"""
import importlib
import importlib.machinery
import json
import os
import shutil
import tempfile
import time
from pathlib import Path

import common
from common import g_str, g_bool, g_opt, g_list

IMPORTS = 'From JV Require Import Base.Str Model.C20_SysPath.\n'

FP = [('jedi/api/project.py', '_remove_duplicates_from_path'),
      ('jedi/api/project.py', 'Project.__init__'),
      ('jedi/api/project.py', 'Project.save'),
      ('jedi/api/project.py', 'Project.load'),
      ('jedi/api/project.py', 'Project._get_base_sys_path'),
      ('jedi/api/project.py', 'Project._get_sys_path'),
      ('jedi/inference/__init__.py', 'InferenceState.get_sys_path'),
      ('jedi/inference/imports.py', 'Importer._sys_path_with_modifications'),
      ('jedi/api/__init__.py', 'Script.__init__')]

# fingerprints of the modelled definitions at the time the model was transcribed; a change only
# multiplies the number of correspondence cases (DESIGN §2 "change-directed intensification")
BASE_FP = {
    'jedi/api/project.py:_remove_duplicates_from_path': '4d7c0dbc96834d2d',
    'jedi/api/project.py:Project.__init__': '2d57fdb059bcfe47',
    'jedi/api/project.py:Project.save': '37bbb830064658dd',   # after ba5f9c2 (environment_path stringified)
    'jedi/api/project.py:Project.load': '624332aa5b42da4b',
    'jedi/api/project.py:Project._get_base_sys_path': '3b64cea3ba579917',
    'jedi/api/project.py:Project._get_sys_path': '5707302c0d6202cb',
    'jedi/inference/__init__.py:InferenceState.get_sys_path': '21c7889f6d3c4c8a',
    'jedi/inference/imports.py:Importer._sys_path_with_modifications': 'a2df30512beafe87',
    'jedi/api/__init__.py:Script.__init__': 'b7e4a0e95c2edeae',
}

NAMES = ['d0', 'pkg', 'sub', 'é', '日本', 'a b', 'x', 'xy', 'ü𝒳', 'd.e', 'src']
COQ_TIMEOUT = 2400   # per shard; a shard needs ~10 s on an idle machine, but the box may be heavily shared
FLAGS = [(True, False), (True, True), (False, False), (False, True)]   # (add_parent_paths, add_init_paths)


# ----------------------------------------------------------------------------- Gallina printers
def g_optT(x, f, ty):
    return '(@None (%s))' % ty if x is None else '(Some %s)' % f(x)


# ASCII runs are written as Coq string literals (parsed natively) and converted by `A`; coqc spends
# several ms on every numeral of a `[47;116;...]%N` list, which would dominate the run time.
ADEF = ('Fixpoint A (s : String.string) : list N := match s with String.EmptyString => nil '
        '| String.String c r => Ascii.N_of_ascii c :: A r end.\n')


def g_str2(x):
    if x == '':
        return '(@nil N)'
    parts, i = [], 0
    safe = lambda ch: 32 <= ord(ch) <= 126 and ch != '"'
    while i < len(x):
        j = i
        if safe(x[i]):
            while j < len(x) and safe(x[j]):
                j += 1
            parts.append('A "%s"%%string' % x[i:j])
        else:
            while j < len(x) and not safe(x[j]):
                j += 1
            parts.append('[' + ';'.join(str(ord(ch)) for ch in x[i:j]) + ']%N')
        i = j
    return '(' + ' ++ '.join(parts) + ')'


class G:
    """Printer for one case term.  Strings are interned (`let sK := ... in`) and a common
    directory prefix is shared, because parsing long numeral lists dominates coqc's time."""

    def __init__(self, prefix=None):
        self.names = {}
        self.prefix = prefix if prefix and len(prefix) > 4 else None

    def s(self, x):
        n = self.names.get(x)
        if n is None:
            n = self.names[x] = 's%d' % len(self.names)
        return n

    def parg(self, a):
        return '(%s %s)' % ('PStr' if a[0] == 'str' else 'PPath', self.s(a[1]))

    def strs(self, l):
        return g_list(l, self.s, 'str')

    def args(self, a):
        return '(mkargs %s %s %s %s %s %s)' % (
            self.parg(a['path']), g_optT(a['env'], self.parg, 'parg'), g_bool(a['unsafe']),
            g_optT(a['sys_path'], lambda l: g_list(l, self.parg, 'parg'), 'list parg'),
            g_list(a['added'], self.parg, 'parg'), g_bool(a['smart']))

    def observed(self, o):
        """o = (str(path), is_absolute, env, sys_path, added, smart, unsafe)"""
        return '(%s, %s, %s, %s, %s, %s, %s)' % (
            self.s(o[0]), g_bool(o[1]), g_optT(o[2], self.parg, 'parg'), g_optT(o[3], self.strs, 'list str'),
            self.strs(o[4]), g_bool(o[5]), g_bool(o[6]))

    def wrap(self, term):
        head = []
        if self.prefix:
            head.append('let pfx : str := %s in ' % g_str2(self.prefix))
        for x, n in self.names.items():
            if self.prefix and x.startswith(self.prefix):
                head.append('let %s : str := pfx ++ %s in ' % (n, g_str2(x[len(self.prefix):])))
            else:
                head.append('let %s : str := %s in ' % (n, g_str2(x)))
        return '(' + ''.join(head) + term + ')'


# ----------------------------------------------------------------------------- small helpers
def dedupe(xs):
    seen, out = set(), []
    for x in xs:
        if x not in seen:
            seen.add(x)
            out.append(x)
    return out


def is_subsequence(a, b):
    it = iter(b)
    return all(x in it for x in a)


def to_obj(a):
    return a[1] if a[0] == 'str' else Path(a[1])


class NotAStr(Exception):
    """a path entry of the project is not a str (the property promises str entries)"""


def observe_project(p):
    for name, l in (('sys_path', p.sys_path), ('added_sys_path', p.added_sys_path)):
        for x in l or ():
            if not isinstance(x, str):
                raise NotAStr('%s entry %r is a %s, not a str' % (name, x, type(x).__name__))
    env = p._environment_path
    if env is not None:
        env = ('Path', str(env)) if isinstance(env, Path) else ('str', env)
    sp = p.sys_path
    return (str(p.path), p.path.is_absolute(), env, None if sp is None else list(sp),
            list(p.added_sys_path), p.smart_sys_path, p.load_unsafe_extensions)


def obs_json(o):
    return dict(path=o[0], path_is_absolute=o[1], environment_path=o[2], sys_path=o[3],
                added_sys_path=o[4], smart_sys_path=o[5], load_unsafe_extensions=o[6])


class FakeEnv:
    """The default environment with a prescribed sys.path (so that '' entries,
    duplicates and prefix entries in the *environment's* path are exercised)."""

    def __init__(self, real, sys_path):
        self._real = real
        self._sp = list(sys_path)

    def get_sys_path(self):
        return list(self._sp)

    def __getattr__(self, name):
        return getattr(self._real, name)


def short(root, x):
    """replace the temp root so that keys / samples do not depend on mkdtemp"""
    if isinstance(x, str):
        return x.replace(root, '/R')
    if isinstance(x, (list, tuple)):
        return [short(root, y) for y in x]
    if isinstance(x, dict):
        return {short(root, k): short(root, v) for k, v in x.items()}
    return x


# ----------------------------------------------------------------------------- layouts
def gen_layout(rng, root, tag, inside_bias=0.7):
    case = os.path.join(root, tag)
    pname = rng.choice(['p', 'p', 'pé', 'my proj'])
    P = os.path.join(case, pname)
    depth = rng.choice([0, 1, 1, 2, 2, 3, 3, 4])
    parts = [rng.choice(NAMES) for _ in range(depth)]
    r = rng.random()
    if r < inside_bias:
        where, base = 'inside', P
    elif r < inside_bias + 0.08:
        where, base = 'prefix-sibling', P + 'x'
    elif r < inside_bias + 0.16:
        where, base = 'outside', os.path.join(case, 'out')
    elif r < inside_bias + 0.23:
        where, base, parts = 'above', case, []
    else:
        # the project lies below the script's directory
        where, base = 'project-deeper', P
        P = os.path.join(P, *(parts + ['deep']))
    chain, d = [], base
    kinds = {}
    for part in parts:
        d = os.path.join(d, part)
        chain.append(d)
    for d in chain + [base]:
        kinds[d] = rng.choice(['none', 'none', 'none', 'file', 'file', 'file', 'dir'])
    script_dir = chain[-1] if chain else base
    return dict(case=case, P=P, where=where, base=base, chain=chain, kinds=kinds, depth=depth,
                script_dir=script_dir, script=os.path.join(script_dir, rng.choice(['m.py', 'é.py', '__init__.py'])))


def make_layout_fs(L, extra_dirs=()):
    for d in [L['case'], L['P'], L['base'], L['script_dir']] + L['chain'] + list(extra_dirs):
        os.makedirs(d, exist_ok=True)
    for d, k in L['kinds'].items():
        f = os.path.join(d, '__init__.py')
        if k == 'file':
            open(f, 'w').close()
        elif k == 'dir':
            os.makedirs(f, exist_ok=True)


def init_dirs(L):
    return sorted(d for d, k in L['kinds'].items() if k == 'file')


def gen_path_arg(rng, L, cwd, forms):
    P, case = L['P'], L['case']
    tagdir = '/' + os.path.basename(case) + '/'
    form = rng.choice(forms)
    rel = os.path.relpath(P, cwd)
    if form == 'abs':
        a = ('str', P)
    elif form == 'abs/':
        a = ('str', P + '/')
    elif form == 'rel':
        a = ('str', rel)
    elif form == 'dotseg':
        a = ('str', P.replace(tagdir, tagdir + './', 1))
    elif form == 'Path-abs':
        a = ('Path', P)
    elif form == 'Path-abs/':
        a = ('Path', P + '/')
    elif form == 'Path-rel':
        a = ('Path', rel)
    elif form == 'dotdot':
        a = ('str', P + '/zz/..')
    elif form == 'Path-dotdot':
        a = ('Path', P + '/zz/..')
    elif form == 'dslash':
        a = ('str', '/' + P)
    elif form == 'inner-dslash':
        a = ('str', P.replace(tagdir, tagdir.rstrip('/') + '//', 1))
    else:
        raise AssertionError(form)
    return form, a


COMPOSE_FORMS = ['abs'] * 6 + ['abs/', 'rel', 'rel', 'dotseg', 'Path-abs', 'Path-abs', 'Path-abs', 'Path-abs/',
                                'Path-rel', 'Path-rel', 'dotdot', 'Path-dotdot', 'dslash', 'inner-dslash']


def entry_pool(L, cwd):
    P, case = L['P'], L['case']
    o1 = os.path.join(case, 'o1')
    pool = [P, P, P + '/', o1, o1, o1 + '/', os.path.join(o1, 'y'), o1 + 'y', os.path.join(case, 'é'),
            L['script_dir'], P + 'x', '', '.', os.path.relpath(o1, cwd), '/usr/lib/zq', os.path.join(case, 'ü𝒳', '日本')]
    if L['chain']:
        pool += [L['chain'][0], L['chain'][-1]]
    return pool


def pick_entries(rng, pool, lo, hi, path_prob=0.3):
    out = []
    for _ in range(rng.randint(lo, hi)):
        e = rng.choice(pool)
        out.append(('Path', e) if rng.random() < path_prob else ('str', e))
    return out


def arg_str(a):
    """str(x) of a constructor argument, by CPython"""
    return str(to_obj(a))


# ----------------------------------------------------------------------------- independent oracle
def oracle_compose(proj_str, P_phys, base, added, buildout, smart, django, script_abs, inits, app, aip):
    """What the property says the path is.  String/os.path arithmetic only; the project is
    taken physically (P_phys = normalised absolute directory)."""
    anc = []
    if smart and script_abs is not None and app:
        d = os.path.dirname(script_abs)
        while d != P_phys and d.startswith(P_phys.rstrip('/') + '/'):
            if aip or d not in inits:
                anc.append(d)
            d = os.path.dirname(d)
        anc.reverse()
    pre = ([proj_str] if smart else []) + ([proj_str] if django else [])
    suf = list(added) + (list(buildout) if smart and script_abs is not None else []) + anc
    return pre, anc, dedupe(pre + list(base) + suf)


def clause_failures(out, proj_str, pre, base, added, buildout, anc, smart, check_suffix):
    bad = []
    if len(set(out)) != len(out):
        bad.append('duplicates')
    if smart and (not out or out[0] != proj_str):
        bad.append('project-not-first')
    kept = [x for x in dedupe(base) if x not in pre]
    if not is_subsequence(kept, out):
        bad.append('base-order')
    lead = [x for x in out if x in pre or x in base]
    if out[:len(lead)] != lead or lead != dedupe(pre + list(base)):
        bad.append('base-not-leading')
    if check_suffix:
        tail = [x for x in out if x not in pre and x not in base]
        want = [x for x in dedupe(list(added) + list(buildout) + list(anc)) if x not in pre and x not in base]
        if set(tail) != set(want):
            bad.append('ancestors-missing' if set(want) - set(tail) and not (set(tail) - set(want))
                       and (set(want) - set(tail)) <= set(anc) else 'members')
        elif tail != want:
            bad.append('suffix-order')
    return bad


# ----------------------------------------------------------------------------- compose stream
def gen_compose_case(rng, root, i):
    L = gen_layout(rng, root, 'c%d' % i)
    cwd = rng.choice([L['case'], L['case'], L['P'], root, L['script_dir']])
    form, parg = gen_path_arg(rng, L, cwd, COMPOSE_FORMS)
    pool = entry_pool(L, cwd)
    sys_path = None if rng.random() < 0.35 else pick_entries(rng, pool, 0, 5)
    added = pick_entries(rng, pool, 0, 3)
    r = rng.random()
    if r < 0.12:
        env = None                                   # the real environment
    else:
        env = [rng.choice(pool) for _ in range(rng.randint(0, 5))]
        for _ in range(rng.choice([0, 0, 1, 1, 2])):
            env.insert(rng.randint(0, len(env)), '')
    smart = rng.random() < 0.78
    django = rng.random() < 0.1
    r = rng.random()
    if r < 0.07:
        script = None
    elif r < 0.2 and L['script'].startswith(cwd.rstrip('/') + '/'):
        script = ('str', os.path.relpath(L['script'], cwd))
    elif r < 0.35:
        script = ('Path', L['script'])
    else:
        script = ('str', L['script'])
    buildout = None
    if rng.random() < 0.14 and script is not None:
        # buildout.cfg in one of the script's ancestor directories inside the case directory
        cands = [d for d in [L['base']] + L['chain'] + [L['case']]]
        bdir = rng.choice(cands)
        if L['script_dir'] == bdir or L['script_dir'].startswith(bdir + '/'):
            o2 = os.path.join(L['case'], 'o2')
            buildout = dict(dir=bdir, paths=rng.choice([[o2], [L['P']], [o2, os.path.join(L['case'], 'o3')],
                                                        [os.path.join(L['case'], 'o1')]]))
    return dict(i=i, L=L, cwd=cwd, form=form, smart=smart, django=django, env=env, script=script, buildout=buildout,
                args=dict(path=parg, env=None, unsafe=rng.random() < 0.2, sys_path=sys_path, added=added, smart=smart))


def _make_project(jedi, a):
    kw = dict(environment_path=None if a['env'] is None else to_obj(a['env']),
              load_unsafe_extensions=a['unsafe'],
              sys_path=None if a['sys_path'] is None else [to_obj(x) for x in a['sys_path']],
              smart_sys_path=a['smart'])
    added = [to_obj(x) for x in a['added']]
    kw['added_sys_path'] = tuple(added) if len(added) % 2 else added
    return jedi.Project(to_obj(a['path']), **kw)


def _compose_task(c):
    import jedi
    from jedi.api import project as project_mod
    from jedi.api.environment import get_cached_default_environment
    L = c['L']
    try:
        make_layout_fs(L, [c['cwd']])
        if c['buildout']:
            b = c['buildout']
            open(os.path.join(b['dir'], 'buildout.cfg'), 'w').close()
            os.makedirs(os.path.join(b['dir'], 'bin'), exist_ok=True)
            with open(os.path.join(b['dir'], 'bin', 'run'), 'w') as f:
                f.write('#!/usr/bin/python\nimport sys\nsys.path[0:0] = [\n%s]\n' % ''.join('  %r,\n' % p for p in b['paths']))
            with open(os.path.join(b['dir'], 'bin', 'notpy'), 'w') as f:
                f.write('#!/bin/sh\nimport sys\nsys.path.append("/zq-not-a-buildout-script")\n')
        os.chdir(c['cwd'])
        captured = []
        orig = project_mod.discover_buildout_paths

        def wrapped(*a, **k):
            r = list(orig(*a, **k))
            captured.append([str(x) for x in r])
            return r
        project_mod.discover_buildout_paths = wrapped
        try:
            p = _make_project(jedi, c['args'])
            if c['django']:
                p._django = True
            real_env = get_cached_default_environment()
            env = real_env if c['env'] is None else FakeEnv(real_env, c['env'])
            s = jedi.Script('', path=None if c['script'] is None else to_obj(c['script']), project=p, environment=env)
            outs = []
            for app, aip in FLAGS:
                del captured[:]
                outs.append(list(s._inference_state.get_sys_path(add_parent_paths=app, add_init_paths=aip)))
            # a second, fresh state for the buildout order (the first call above may be the cached one)
            del captured[:]
            s2 = jedi.Script('', path=None if c['script'] is None else to_obj(c['script']), project=p, environment=env)
            again = list(s2._inference_state.get_sys_path())
            bo = captured[0] if captured else []
            env_sp = list(env.get_sys_path())
            return dict(ok=True, outs=outs, again=again, buildout=bo, env=env_sp, obs=observe_project(p),
                        script_abs=None if s.path is None else str(s.path))
        finally:
            project_mod.discover_buildout_paths = orig
    except Exception as e:
        return dict(ok=False, sig=common.exc_sig(e))


COMPOSE_FN = '''
(fun c => let '(cwd, a, dj, env, sc, inits, bo, obs, op) := c in
  let cw := parse_path cwd in
  let p := set_django dj (mk_project cw a) in
  let sp := option_map (fun s => absolute cw (parse_path s)) sc in
  let ii := map parse_path inits in
  observed_eqb (observe p) op &&
  match obs with
  | [o1; o2; o3; o4] =>
      strs_eqb (get_sys_path p env sp ii bo true false) o1 &&
      strs_eqb (get_sys_path p env sp ii bo true true) o2 &&
      strs_eqb (get_sys_path p env sp ii bo false false) o3 &&
      strs_eqb (get_sys_path p env sp ii bo false true) o4
  | _ => false
  end)
'''


# Cases are written as applications of a typed function (not as tuples): type inference is then
# directed by the argument types and coqc checks a case about twice as fast.
COMPOSE_DEFS = ADEF + '''Definition jv_compose (cwd : str) (a : ctor_args) (dj : bool) (env : list str) (sc : option str)
  (inits bo : list str) (obs : list (list str)) (op : observed) : bool :=
  %s (cwd, a, dj, env, sc, inits, bo, obs, op).
''' % COMPOSE_FN
ID_BOOL = '(fun b : bool => b)'


def compose_case_term(c, r, head='jv_compose'):
    g = G(c['L']['case'])
    return g.wrap(head + ' %s %s %s %s %s %s %s %s %s' % (
        g.s(c['cwd']), g.args(c['args']), g_bool(c['django']), g.strs(r['env']),
        g_optT(None if c['script'] is None else c['script'][1], g.s, 'str'), g.strs(init_dirs(c['L'])),
        g.strs(r['buildout']), g_list(r['outs'], g.strs, 'list str'), g.observed(tuple(r['obs']))))


COMPOSE_SHOW_DEFS = ADEF + '''Definition jv_compose_show (cwd : str) (a : ctor_args) (dj : bool) (env : list str) (sc : option str)
  (inits bo : list str) (obs : list (list str)) (op : observed) :=
  let cw := parse_path cwd in
  let p := set_django dj (mk_project cw a) in
  let sp := option_map (fun s => absolute cw (parse_path s)) sc in
  (observe p, map (fun f : bool * bool => get_sys_path p env sp (map parse_path inits) bo (fst f) (snd f))
                  [(true,false);(true,true);(false,false);(false,true)]).
'''


def compose_show(c, r):
    return common.coq_show(IMPORTS, defs=COMPOSE_SHOW_DEFS, exprs=[compose_case_term(c, r, 'jv_compose_show')])


def compose_oracle(c, r):
    """Direct check of the property's clauses on the real lists.  Returns list of (flags, failed clauses, expected)."""
    L, a = c['L'], c['args']
    proj_str = r['obs'][0]
    base = [arg_str(x) for x in a['sys_path']] if a['sys_path'] is not None else None
    added = [arg_str(x) for x in a['added']]
    strip = (lambda l: l)
    if base is None:
        # environment-derived base: jedi drops the (first) '' entry on purpose; the property does not
        # say what happens to further '' entries, so '' is left out of the clause check altogether
        strip = (lambda l: [x for x in l if x != ''])
        base = strip(r['env'])
        added = strip(added)
    plain = proj_str == L['P']
    relative_path = not r['obs'][1]
    res = []
    for (app, aip), out in zip(FLAGS, r['outs']):
        out = strip(out)
        pre, anc, want = oracle_compose(proj_str, L['P'], base, added, r['buildout'], c['smart'], c['django'],
                                        r['script_abs'], init_dirs(L), app, aip)
        bad = clause_failures(out, proj_str, pre, base, added,
                              r['buildout'] if c['smart'] and r['script_abs'] else [], anc, c['smart'],
                              check_suffix=plain or relative_path)
        if bad:
            res.append(((app, aip), bad, want))
    return res


def stream_compose(ctx, root, n):
    cases = [gen_compose_case(ctx.rng, root, i) for i in range(n)]
    results = common.pmap(_compose_task, cases, chunksize=8, timeout=3600)
    terms, metas = [], []
    dist = dict(where={}, form={}, depth={}, smart=0, django=0, explicit_sys_path=0, fake_env=0, buildout=0,
                no_script=0, with_ancestors=0, dedupe_effective=0)
    pending = []
    for c, r in zip(cases, results):
        L = c['L']
        meta = short(root, dict(cwd=c['cwd'], args=c['args'], django=c['django'], env=c['env'], script=c['script'],
                                where=L['where'], project_dir=L['P'], init_kinds=L['kinds'], buildout=c['buildout'],
                                path_form=c['form']))
        if not r['ok']:
            ctx.deviation(dict(stream='compose', exc=r['sig']['exc'], site=r['sig']['site']),
                          dict(input=meta, error=r['sig']), 'Project/Script/get_sys_path raised %s' % r['sig']['exc'])
            continue
        meta['observed'] = short(root, dict(zip(['parent,noinit', 'parent,init', 'noparent,noinit', 'noparent,init'], r['outs'])))
        nontriv = len(r['outs'][1]) >= 2
        ctx.count('compose', json.dumps(meta, sort_keys=True, default=str), nontrivial=nontriv, n=4)
        for k, v in (('where', L['where']), ('form', c['form']), ('depth', L['depth'])):
            dist[k][str(v)] = dist[k].get(str(v), 0) + 1
        dist['smart'] += c['smart']
        dist['django'] += c['django']
        dist['explicit_sys_path'] += c['args']['sys_path'] is not None
        dist['fake_env'] += c['env'] is not None
        dist['buildout'] += bool(r['buildout'])
        dist['no_script'] += c['script'] is None
        dist['with_ancestors'] += len(r['outs'][1]) > len(r['outs'][3])
        raw = ([r['obs'][0]] if c['smart'] else []) + (r['obs'][3] if r['obs'][3] is not None else r['env']) + r['obs'][4]
        dist['dedupe_effective'] += len(set(raw)) < len(raw)
        if c['buildout'] and c['smart'] and sorted(r['buildout']) != sorted(c['buildout']['paths']):
            ctx.violation('obligation', dict(what='harness: buildout paths captured differ from the generated buildout script',
                                             input=meta, captured=short(root, r['buildout'])), nofail=True)
        if r['again'] != r['outs'][0]:
            ctx.deviation(dict(stream='compose', cls='not-repeatable'), dict(input=meta, again=short(root, r['again'])),
                          'get_sys_path() of a second Script on the same project/path differs from the first')
        pending.append((len(terms), c, r, meta, compose_oracle(c, r)))
        terms.append(compose_case_term(c, r))
        metas.append(meta)
    ctx.stat('compose', dist)
    fails, err = common.coq_failing(IMPORTS, ID_BOOL, terms, shard=max(10, len(terms) // 6 + 1), defs=COMPOSE_DEFS, timeout=COQ_TIMEOUT)
    if err:
        raise RuntimeError('coq evaluation failed (compose): ' + err)
    fails = set(fails)
    n_model_bad = 0
    for idx, c, r, meta, obad in pending:
        model_agrees = idx not in fails
        for flags, bad, want in obad[:1]:
            relp = not r['obs'][1]
            ctx.deviation(dict(stream='compose', cls=bad[0], path_arg='relative-Path' if relp and c['args']['path'][0] == 'Path' else c['form'],
                               model_agrees=model_agrees),
                          dict(input=meta, flags=dict(add_parent_paths=flags[0], add_init_paths=flags[1]),
                               failed_clauses=bad, expected=short(root, want)),
                          'sys.path composition violates clause(s) %s' % ', '.join(bad))
        if not model_agrees and not obad:
            n_model_bad += 1
            if n_model_bad <= 4:
                ctx.violation('obligation', dict(what='correspondence get_sys_path/mk_project: model and implementation differ; '
                                                      'the clause oracle accepted the implementation\'s lists',
                                                 input=meta, model=compose_show(c, r)[-3000:]), nofail=True)
    if metas:
        ctx.sample(dict(stream='compose', **metas[0]))
    return cases


# ----------------------------------------------------------------------------- roundtrip stream
RT_FORMS = ['abs'] * 5 + ['abs/', 'rel', 'rel', 'dotseg', 'Path-abs', 'Path-abs', 'Path-abs/', 'Path-rel', 'Path-rel',
                           'dotdot', 'Path-dotdot', 'dslash', 'inner-dslash']


def gen_roundtrip_case(rng, root, i):
    L = gen_layout(rng, root, 'r%d' % i)
    cwd = rng.choice([L['case'], L['case'], L['P'], root])
    form, parg = gen_path_arg(rng, L, cwd, RT_FORMS)
    pool = entry_pool(L, cwd) + ['ß/İ', '‮', 'a"b\\c', 'tab\there', 'nl\nx']
    sys_path = None if rng.random() < 0.3 else pick_entries(rng, pool, 0, 5)
    added = pick_entries(rng, pool, 0, 4)
    r = rng.random()
    if r < 0.5:
        env = None
    elif r < 0.85:
        env = ('str', rng.choice(['/venv', '/venv/bin/python', os.path.join(L['case'], 'vé nv'), 'venv', '']))
    else:
        env = ('Path', rng.choice(['/venv', '/venv/bin/python', 'venv']))
    return dict(i=i, L=L, cwd=cwd, form=form, load_with=rng.choice(['Path', 'str']),
                args=dict(path=parg, env=env, unsafe=rng.random() < 0.4, sys_path=sys_path, added=added,
                          smart=rng.random() < 0.6))


def _roundtrip_task(c):
    import jedi
    L = c['L']
    try:
        make_layout_fs(L, [c['cwd'], L['P'] + '/zz'])
        os.chdir(c['cwd'])
        p = _make_project(jedi, c['args'])
        before = observe_project(p)
        jf = os.path.join(L['P'], '.jedi', 'project.json')
        try:
            p.save()
        except Exception as e:
            # the model says save() always succeeds (since ba5f9c2 also for a pathlib.Path environment_path)
            return dict(ok=True, before=before, after=None, save_exc=common.exc_sig(e))
        after_dict = observe_project(p)
        raw = json.load(open(jf, encoding='utf8')) if os.path.exists(jf) else None
        q = jedi.Project.load(p.path if c['load_with'] == 'Path' else str(p.path))
        return dict(ok=True, before=before, after=observe_project(q), unchanged=after_dict == before, raw=raw,
                    q_django=q._django, extra_attrs=sorted(set(q.__dict__) ^ set(p.__dict__)))
    except Exception as e:
        return dict(ok=False, sig=common.exc_sig(e))


ROUNDTRIP_FN = '''
(fun c => let '(cwd, a, ob, oa) := c in
  let cw := parse_path cwd in
  let p := mk_project cw a in
  observed_eqb (observe p) ob &&
  opt_observed_eqb (Some (observe (load cw (save p)))) oa)
'''


ROUNDTRIP_DEFS = ADEF + '''Definition jv_roundtrip (cwd : str) (a : ctor_args) (ob : observed) (oa : option observed) : bool :=
  %s (cwd, a, ob, oa).
''' % ROUNDTRIP_FN


def stream_roundtrip(ctx, root, n):
    cases = [gen_roundtrip_case(ctx.rng, root, i) for i in range(n)]
    results = common.pmap(_roundtrip_task, cases, chunksize=8, timeout=3600)
    terms, pending = [], []
    dist = dict(form={}, env={}, same=0, differs=0, save_raised=0)
    for c, r in zip(cases, results):
        meta = short(root, dict(cwd=c['cwd'], args=c['args'], path_form=c['form'], load_with=c['load_with']))
        if not r['ok']:
            ctx.deviation(dict(stream='roundtrip', exc=r['sig']['exc'], site=r['sig']['site']),
                          dict(input=meta, error=r['sig']), 'Project()/save()/load() raised %s' % r['sig']['exc'])
            continue
        before, after = tuple(r['before']), (None if r['after'] is None else tuple(r['after']))
        ctx.count('roundtrip', json.dumps(meta, sort_keys=True, default=str), nontrivial=True)
        dist['form'][c['form']] = dist['form'].get(c['form'], 0) + 1
        ek = 'None' if c['args']['env'] is None else c['args']['env'][0]
        dist['env'][ek] = dist['env'].get(ek, 0) + 1
        bad = []
        if after is None:
            bad.append(('save-raises', dict(exc=r['save_exc']['exc'], env_arg=ek)))
            dist['save_raised'] += 1
        else:
            names = ['path', 'path', 'environment_path', 'sys_path', 'added_sys_path', 'smart_sys_path', 'load_unsafe_extensions']
            # environment_path may be given as a pathlib.Path; like sys_path entries it is the *str* that must
            # survive (before[2] = (kind, str(value)))
            env_str = lambda e: None if e is None else e[1]
            diff = sorted({names[k] for k in range(7)
                           if (env_str(before[k]) != env_str(after[k]) if k == 2 else before[k] != after[k])})
            if after[2] is not None and after[2][0] != 'str':
                diff.append('environment_path')
            if diff:
                relp = c['args']['path'][0] == 'Path' and not before[1]
                bad.append(('%s-differs' % diff[0], dict(path_arg='relative-Path' if relp else c['form'], fields=diff)))
            if not r['unchanged']:
                bad.append(('save-mutates-project', {}))
            if r['q_django'] or r['extra_attrs']:
                bad.append(('loaded-project-shape', dict(extra=r['extra_attrs'])))
            raw = r['raw']
            want_keys = ['added_sys_path', 'environment_path', 'load_unsafe_extensions', 'path', 'smart_sys_path', 'sys_path']
            if not (isinstance(raw, list) and len(raw) == 2 and raw[0] == 1 and isinstance(raw[1], dict)
                    and sorted(raw[1]) == want_keys and raw[1]['path'] == before[0]
                    and raw[1]['environment_path'] == env_str(before[2])
                    and raw[1]['sys_path'] == before[3] and raw[1]['added_sys_path'] == before[4]
                    and raw[1]['smart_sys_path'] == before[5] and raw[1]['load_unsafe_extensions'] == before[6]):
                bad.append(('json-file-shape', dict(raw=short(root, raw))))
            dist['same' if not diff else 'differs'] += 1
        pending.append((len(terms), c, r, meta, bad))
        g = G(c['L']['case'])
        terms.append(g.wrap('jv_roundtrip %s %s %s %s' % (g.s(c['cwd']), g.args(c['args']), g.observed(before),
                                                          g_optT(after, g.observed, 'observed'))))
    ctx.stat('roundtrip', dist)
    fails, err = common.coq_failing(IMPORTS, ID_BOOL, terms, shard=max(10, len(terms) // 6 + 1), defs=ROUNDTRIP_DEFS, timeout=COQ_TIMEOUT)
    if err:
        raise RuntimeError('coq evaluation failed (roundtrip): ' + err)
    fails = set(fails)
    shown = 0
    for idx, c, r, meta, bad in pending:
        model_agrees = idx not in fails
        data = dict(input=meta, before=short(root, obs_json(tuple(r['before']))),
                    after=None if r['after'] is None else short(root, obs_json(tuple(r['after']))))
        for cls, extra in bad:
            sig = dict(stream='roundtrip', cls=cls, model_agrees=model_agrees)
            sig.update({k: v for k, v in extra.items() if k in ('path_arg', 'exc', 'env_arg')})
            ctx.deviation(sig, dict(data, detail=extra), 'save/load round trip: %s' % cls)
        if not model_agrees and not bad:
            shown += 1
            if shown <= 4:
                g = G()
                model = common.coq_show(IMPORTS, defs=ADEF, exprs=[g.wrap('let cw := parse_path %s in let p := mk_project cw %s in '
                                                         '(observe p, observe (load cw (save p)))'
                                                         % (g.s(c['cwd']), g.args(c['args'])))])
                ctx.violation('obligation', dict(what='correspondence mk_project/save/load: model and implementation differ; '
                                                      'the loaded project equals the saved one', model=model[-2500:], **data),
                              nofail=True)
    if pending:
        ctx.sample(dict(stream='roundtrip', **pending[0][3]))


# ----------------------------------------------------------------------------- import stream
MOD = 'zqmod'


def gen_import_case(rng, root, i):
    L = gen_layout(rng, root, 'i%d' % i, inside_bias=0.8)
    case, P = L['case'], L['P']
    cwd = case
    o1, o2, nowhere = os.path.join(case, 'o1'), os.path.join(case, 'o2'), os.path.join(case, 'nowhere')
    cands = dedupe([P, o1, o2, P + 'x', nowhere, L['base'], L['script_dir']] + L['chain'])
    form, parg = gen_path_arg(rng, L, cwd, ['abs', 'abs', 'abs', 'abs/', 'Path-abs', 'Path-abs', 'rel', 'dotseg'])
    pool = [P, o1, o1, o1 + '/', o2, P + 'x', L['script_dir']] + L['chain']
    sys_path = None if rng.random() < 0.2 else pick_entries(rng, pool, 0, 4, path_prob=0.25)
    added = pick_entries(rng, pool, 0, 2, path_prob=0.25)
    shared = rng.sample(cands, rng.randint(1, min(4, len(cands))))
    if rng.random() < 0.7 and L['chain']:
        # favour the interesting conflict: an ancestor of the script vs. the project / a base entry
        shared = dedupe(shared + [rng.choice(L['chain'])])
    shared = {d: rng.choice(['file', 'file', 'pkg']) for d in shared}
    mods = None
    if rng.random() < 0.15:
        mods = rng.choice([o2, nowhere])
    return dict(i=i, L=L, cwd=cwd, form=form, cands=cands, shared=shared, mods=mods,
                args=dict(path=parg, env=None, unsafe=False, sys_path=sys_path, added=added,
                                      smart=rng.random() < 0.8))


def _mod_dir(module_path):
    """directory (sys.path entry) a resolved module file lives under"""
    d, f = os.path.split(module_path)
    return os.path.dirname(d) if f == '__init__.py' else d


def _import_task(c):
    import jedi
    L = c['L']
    try:
        make_layout_fs(L, c['cands'])
        for k, d in enumerate(c['cands']):
            with open(os.path.join(d, 'zqu%d.py' % k), 'w') as f:
                f.write('where = %d\n' % k)
        for d, kind in c['shared'].items():
            if kind == 'file':
                with open(os.path.join(d, MOD + '.py'), 'w') as f:
                    f.write('marker = %d\n' % c['cands'].index(d))
            else:
                os.makedirs(os.path.join(d, MOD), exist_ok=True)
                with open(os.path.join(d, MOD, '__init__.py'), 'w') as f:
                    f.write('marker = %d\n' % c['cands'].index(d))
        os.chdir(c['cwd'])
        p = _make_project(jedi, c['args'])
        head = ''
        if c['mods']:
            head = 'import sys\nsys.path.append(%r)\n' % c['mods']
        nhead = head.count('\n')
        code = head + 'import %s\n' % MOD + ''.join('import zqu%d\n' % k for k in range(len(c['cands']))) + MOD + '\n'
        s = jedi.Script(code, path=L['script'], project=p)
        env_sp = list(s._inference_state.environment.get_sys_path())
        path_t = list(s._inference_state.get_sys_path(add_init_paths=True))
        path_f = list(s._inference_state.get_sys_path(add_init_paths=False))

        def mods(defs):
            return sorted({str(d.module_path) for d in defs if d.type == 'module' and d.module_path is not None
                           and str(d.module_path) != L['script']})
        shared_goto = mods(s.goto(nhead + 1, 8, follow_imports=True))
        shared_infer = mods(s.infer(nhead + 2 + len(c['cands']), 2))
        uniq = [mods(s.goto(nhead + 2 + k, 8, follow_imports=True)) for k in range(len(c['cands']))]
        s2 = jedi.Script('import zq', path=L['script'], project=p)
        comp = sorted(x.name for x in s2.complete(1, 9) if x.name.startswith('zq'))
        # CPython's own finder on the path jedi reports
        importlib.invalidate_caches()
        spec = importlib.machinery.PathFinder.find_spec(MOD, path_t + ([c['mods']] if c['mods'] else []))
        cpy = None if spec is None or spec.origin is None else spec.origin
        return dict(ok=True, env=env_sp, path_t=path_t, path_f=path_f, shared_goto=shared_goto, shared_infer=shared_infer,
                    uniq=uniq, comp=comp, cpython=cpy, obs=observe_project(p))
    except Exception as e:
        return dict(ok=False, sig=common.exc_sig(e))


IMPORT_DEFS = '''
Definition enc_s (s : str) : list N := N.of_nat (length s) :: s.
Definition enc_l (l : list str) : list N := N.of_nat (length l) :: concat (map enc_s l).
Definition jv_import (cwd : str) (a : ctor_args) (env : list str) (sc : str) (inits mods has : list str) : list N :=
  let cw := parse_path cwd in
  let p := mk_project cw a in
  let sp := Some (absolute cw (parse_path sc)) in
  let ii := map parse_path inits in
  let pt := importer_sys_path None p env sp ii [] mods false in
  let pf := importer_sys_path None p env sp ii [] [] true in
  enc_l (match resolve (fun e => inb e has) pt with Some e => [e] | None => [] end) ++ enc_l pt ++ enc_l pf.
'''


def dec_lists(ns):
    out, i = [], 0
    while i < len(ns):
        n = ns[i]
        i += 1
        l = []
        for _ in range(n):
            k = ns[i]
            l.append(''.join(chr(x) for x in ns[i + 1:i + 1 + k]))
            i += 1 + k
        out.append(l)
    return out


def has_module(d):
    return os.path.isfile(os.path.join(d, MOD + '.py')) or os.path.isfile(os.path.join(d, MOD, '__init__.py'))


def stream_import(ctx, root, n):
    cases = [gen_import_case(ctx.rng, root, i) for i in range(n)]
    results = common.pmap(_import_task, cases, chunksize=4, timeout=3600)
    terms, pending = [], []
    dist = dict(resolved=0, unresolved=0, conflict=0, ancestor_wins=0, project_wins=0, base_wins=0, added_wins=0,
                init_only_ancestor=0, mods=0)
    for c, r in zip(cases, results):
        L, a = c['L'], c['args']
        meta = short(root, dict(cwd=c['cwd'], args=a, where=L['where'], project_dir=L['P'], script=L['script'],
                                init_kinds=L['kinds'], candidates=c['cands'], module_in=c['shared'], in_file_append=c['mods']))
        if not r['ok']:
            ctx.deviation(dict(stream='import', exc=r['sig']['exc'], site=r['sig']['site']),
                          dict(input=meta, error=r['sig']), 'Script.goto/infer/complete on an import raised %s' % r['sig']['exc'])
            continue
        # every entry string that can occur, and whether the shared module exists under it
        base = [arg_str(x) for x in a['sys_path']] if a['sys_path'] is not None else list(r['env'])
        added = [arg_str(x) for x in a['added']]
        universe = dedupe([r['obs'][0]] + base + added + L['chain'] + [L['base'], L['script_dir']] + r['path_t'] + ([c['mods']] if c['mods'] else []))
        has = [e for e in universe if e and has_module(e)]
        g = G(L['case'])
        terms.append(g.wrap('jv_import %s %s %s %s %s %s %s' % (
            g.s(c['cwd']), g.args(a), g.strs(r['env']), g.s(L['script']), g.strs(init_dirs(L)),
            g.strs([c['mods']] if c['mods'] else []), g.strs(has))))
        pending.append((c, r, meta, base, added))
    vals, err = common.coq_eval_N_lists(IMPORTS, '(fun l : list N => l)', terms, shard=max(10, len(terms) // 6 + 1),
                                         defs=ADEF + IMPORT_DEFS, timeout=COQ_TIMEOUT)
    if err:
        raise RuntimeError('coq evaluation failed (import): ' + err)
    shown = 0
    for (c, r, meta, base, added), v in zip(pending, vals):
        L = c['L']
        m_res, m_pt, m_pf = dec_lists(v)
        mods = [c['mods']] if c['mods'] else []
        # --- independent oracle (physical, os.path only)
        _, anc_t, o_pt = oracle_compose(r['obs'][0], L['P'], [x for x in base if x != ''] if c['args']['sys_path'] is None else base,
                                        added, [], c['args']['smart'], False, L['script'], init_dirs(L), True, True)
        _, anc_f, o_pf = oracle_compose(r['obs'][0], L['P'], [x for x in base if x != ''] if c['args']['sys_path'] is None else base,
                                        added, [], c['args']['smart'], False, L['script'], init_dirs(L), True, False)
        o_first = next((os.path.normpath(e) for e in o_pt + mods if e and has_module(e)), None)
        o_dirs_t = {os.path.normpath(e) for e in o_pt + mods if e}
        o_dirs_f = {os.path.normpath(e) for e in o_pf if e}
        want_uniq = [[os.path.join(d, 'zqu%d.py' % k)] if d in o_dirs_t else [] for k, d in enumerate(c['cands'])]
        want_comp = sorted(['zqu%d' % k for k, d in enumerate(c['cands']) if d in o_dirs_f] +
                           ([MOD] if any(has_module(e) for e in o_pf if e) else []))
        got_first = sorted({_mod_dir(x) for x in r['shared_goto']})
        got_first_inf = sorted({_mod_dir(x) for x in r['shared_infer']})
        cpy_first = None if r['cpython'] is None else _mod_dir(r['cpython'])
        nontriv = len([e for e in o_pt if e and has_module(e)]) >= 2
        ctx.count('import', json.dumps(meta, sort_keys=True, default=str), nontrivial=nontriv, n=2 + len(c['cands']))
        dist['resolved' if o_first else 'unresolved'] += 1
        dist['conflict'] += nontriv
        dist['mods'] += bool(mods)
        if o_first:
            if o_first in anc_t and o_first != L['P']:
                dist['ancestor_wins'] += 1
            elif o_first == L['P']:
                dist['project_wins'] += 1
            elif o_first in [os.path.normpath(x) for x in base if x]:
                dist['base_wins'] += 1
            else:
                dist['added_wins'] += 1
        dist['init_only_ancestor'] += o_dirs_t != o_dirs_f
        bad = []
        want_first = [o_first] if o_first else []
        if got_first != want_first:
            bad.append(('goto-not-first-on-path', dict(goto=short(root, got_first), expected=short(root, want_first))))
        if got_first_inf != want_first:
            bad.append(('infer-not-first-on-path', dict(infer=short(root, got_first_inf), expected=short(root, want_first))))
        if (cpy_first or None) != (got_first[0] if got_first else None):
            bad.append(('differs-from-cpython-finder', dict(cpython=short(root, cpy_first), goto=short(root, got_first))))
        if r['uniq'] != want_uniq:
            ks = [k for k in range(len(want_uniq)) if r['uniq'][k] != want_uniq[k]]
            bad.append(('importable-set', dict(candidates=short(root, [c['cands'][k] for k in ks]),
                                               got=short(root, [r['uniq'][k] for k in ks]))))
        if r['comp'] != want_comp:
            bad.append(('import-completion-set', dict(got=r['comp'], expected=want_comp)))
        if r['path_t'] != o_pt or r['path_f'] != o_pf:
            bad.append(('reported-path', dict(got=short(root, r['path_t']), expected=short(root, o_pt))))
        # --- model
        m_first = [os.path.normpath(m_res[0])] if m_res else []
        model_agrees = (m_pt == r['path_t'] + mods and m_pf == r['path_f'] and m_first == got_first)
        data = dict(input=meta, sys_path=short(root, r['path_t']), goto=short(root, r['shared_goto']))
        for cls, extra in bad[:2]:
            ctx.deviation(dict(stream='import', cls=cls, model_agrees=model_agrees), dict(data, detail=extra),
                          'import resolution does not follow the composed sys.path: %s' % cls)
        if not model_agrees and not bad:
            shown += 1
            if shown <= 4:
                ctx.violation('obligation', dict(what='correspondence importer_sys_path/resolve: model and implementation differ; '
                                                      'the public-API oracle accepted the implementation',
                                                 model=dict(resolved=short(root, m_res), path=short(root, m_pt), completion_path=short(root, m_pf)),
                                                 **data), nofail=True)
    ctx.stat('import', dist)
    if pending:
        c, r, meta, _, _ = pending[0]
        ctx.sample(dict(stream='import', **meta, sys_path=short(root, r['path_t']), resolved=short(root, r['shared_goto']),
                        completion=r['comp']))


# ----------------------------------------------------------------------------- entry points
def run(ctx):
    common.setup_jedi(os.path.join(ctx.tmp, 'cache'))
    ctx.proofs()
    fps = common.fingerprint(FP)
    ctx.cov['fingerprints'] = fps
    changed = sorted(k for k in fps if BASE_FP.get(k) != fps[k])
    ctx.cov['intensified'] = changed
    mult = 3 if (changed and ctx.quick) else 1
    ctx.cov['rule'] = ('compose: seeded constructor-argument x layout x script-location configurations, 4 flag combinations each; '
                       'roundtrip: seeded constructor arguments; import: seeded trees with one shared and one unique module per candidate directory; '
                       'non-trivial = composed path has >= 2 entries (compose) / always (roundtrip) / >= 2 path entries hold the shared module (import); '
                       'distinct by full input with the temp root abstracted')
    ctx.assumptions += [
        'posix pathlib semantics (parsing, str, ==, parents, absolute) are modelled in Gallina and validated against CPython only through these streams',
        'environment sys.path, the buildout set order and the file system facts (__init__.py regular files, module presence) are inputs captured from the run',
        'json (de)serialisation of str/bool/None/list values is taken as the identity',
        'project paths containing ".." or a "//" root are modelled lexically; the ancestor clause of the oracle is not applied to them',
    ]
    # a short root keeps the Gallina case files small
    root = os.path.realpath(tempfile.mkdtemp(prefix='jv20', dir='/tmp'))
    here = os.getcwd()
    try:
        try:
            scale = float(os.environ.get('VERIF_C20_SCALE', '') or 1)     # self-test convenience only
        except ValueError:
            scale = 1
        for f, n in ((stream_compose, ctx.n(600, 6000) * mult), (stream_roundtrip, ctx.n(400, 4000) * mult),
                     (stream_import, ctx.n(240, 2500) * mult)):
            t = time.time()
            f(ctx, root, max(20, int(n * scale)))
            ctx.stat('wall_' + f.__name__, round(time.time() - t, 1))
    finally:
        os.chdir(here)
        shutil.rmtree(root, ignore_errors=True)


def replay(ctx, path):
    rec = json.load(open(path, encoding='utf8'))
    print(json.dumps(rec, indent=1, ensure_ascii=False)[:4000])
    jedi = common.setup_jedi(os.path.join(ctx.tmp, 'cache'))
    inp = rec.get('input')
    if not inp or 'args' not in inp:
        return 0
    root = os.path.join(os.path.realpath(ctx.tmp), 'w')

    def un(x):
        if isinstance(x, str):
            return root + x[2:] if x == '/R' or x.startswith('/R/') else x.replace('/R/', root + '/')
        if isinstance(x, list):
            return [un(y) for y in x]
        if isinstance(x, dict):
            return {un(k): un(v) for k, v in x.items()}
        return x
    inp = un(inp)
    a = inp['args']
    a['path'] = tuple(a['path'])
    for d, k in (inp.get('init_kinds') or {}).items():
        os.makedirs(d, exist_ok=True)
        if k == 'file':
            open(os.path.join(d, '__init__.py'), 'w').close()
        elif k == 'dir':
            os.makedirs(os.path.join(d, '__init__.py'), exist_ok=True)
    os.makedirs(inp['cwd'], exist_ok=True)
    if inp.get('project_dir'):
        os.makedirs(inp['project_dir'], exist_ok=True)
    here = os.getcwd()
    os.chdir(inp['cwd'])
    try:
        p = _make_project(jedi, a)
        print('project now:', obs_json(observe_project(p)))
        if (rec.get('sig') or {}).get('stream') == 'roundtrip' or 'before' in rec:
            try:
                p.save()
                print('loaded now :', obs_json(observe_project(jedi.Project.load(p.path))))
            except Exception as e:
                print('save/load raised now:', repr(e))
            g = G()
            print('model:', common.coq_show(IMPORTS, defs=ADEF, exprs=[g.wrap('let cw := parse_path %s in let p := mk_project cw %s in '
                                                             '(observe p, observe (load cw (save p)))'
                                                             % (g.s(inp['cwd']), g.args(a)))])[-2000:])
        else:
            sc = inp.get('script')
            if isinstance(sc, list):
                sc = to_obj(tuple(sc))
            if inp.get('django'):
                p._django = True
            from jedi.api.environment import get_cached_default_environment
            env = get_cached_default_environment()
            if inp.get('env') is not None:
                env = FakeEnv(env, inp['env'])
            b = inp.get('buildout')
            if b:
                open(os.path.join(b['dir'], 'buildout.cfg'), 'w').close()
                os.makedirs(os.path.join(b['dir'], 'bin'), exist_ok=True)
                with open(os.path.join(b['dir'], 'bin', 'run'), 'w') as f:
                    f.write('#!/usr/bin/python\nimport sys\nsys.path[0:0] = [\n%s]\n' % ''.join('  %r,\n' % x for x in b['paths']))
            s = jedi.Script('', path=sc, project=p, environment=env)
            for app, aip in FLAGS:
                print('get_sys_path(add_parent_paths=%s, add_init_paths=%s) now:' % (app, aip),
                      s._inference_state.get_sys_path(add_parent_paths=app, add_init_paths=aip))
            g = G()
            inits = sorted(d for d, k in (inp.get('init_kinds') or {}).items() if k == 'file')
            bo = [str(x) for x in b['paths']] if b and a['smart'] else []
            term = ('let cw := parse_path %s in let p := set_django %s (mk_project cw %s) in '
                    'map (fun f : bool * bool => get_sys_path p %s %s (map parse_path %s) %s (fst f) (snd f)) '
                    '[(true,false);(true,true);(false,false);(false,true)]' % (
                        g.s(inp['cwd']), g_bool(bool(inp.get('django'))), g.args(a), g.strs(list(env.get_sys_path())),
                        g_optT(None if sc is None else str(sc), lambda x: '(absolute cw (parse_path %s))' % g.s(x), 'path'),
                        g.strs(inits), g.strs(bo)))
            print('model (same 4 flag combinations; buildout order as generated):')
            print(common.coq_show(IMPORTS, defs=ADEF, exprs=[g.wrap(term)])[-6000:])
    finally:
        os.chdir(here)
    return 0
