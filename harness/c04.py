"""C04 — completions extend what is typed, are ordered, unique and complete.

Streams
  match      helpers.match vs model (exhaustive small alphabet + unicode sample)
  filter     completion.filter_names on stub names vs model filter_names (observe quadruples)
  complete   Script.complete on generated programs; filter_names input captured by wrapping
             it in the harness process; whole ordered result list vs complete_model
  oracle     the property's clauses checked directly on every Script.complete result
  attrs      run the program, dir() of receivers (names defined in the sources) must be offered
"""
import itertools
import os
import re
import subprocess
import sys
import json

import common
from common import g_str, g_bool, g_list, g_opt, g_nat

IMPORTS = 'From JV Require Import Base.Str Model.C04_Complete.\n'

FP = [('jedi/api/helpers.py', '_fuzzy_match'), ('jedi/api/helpers.py', '_start_match'),
      ('jedi/api/helpers.py', 'match'), ('jedi/api/completion.py', 'filter_names'),
      ('jedi/api/completion.py', 'Completion.complete'), ('jedi/api/classes.py', 'Completion._complete'),
      ('jedi/api/classes.py', 'Completion.get_completion_prefix_length')]


def is_subseq(like, s):
    it = iter(s)
    return all(c in it for c in like)


# ---------------------------------------------------------------- match stream
def stream_match(ctx):
    from jedi.api import helpers
    alpha = 'ab_'
    maxs = ctx.n(4, 5)
    strings = [''.join(t) for n in range(maxs + 1) for t in itertools.product(alpha, repeat=n)]
    likes = [''.join(t) for n in range(4) for t in itertools.product(alpha, repeat=n)]
    pairs = [(s, l) for s in strings for l in likes]
    uni = ['İx', 'i̇x', 'ß', 'SS', 'é', 'é', 'Ǆ', 'ǆ', 'ſ', 's', '𝒳y', 'x‍y', 'ΑΒΓ', 'αβγ', 'ς', 'σ']
    for _ in range(ctx.n(600, 6000)):
        a = ''.join(ctx.rng.choice(uni + list('abAB_1')) for _ in range(ctx.rng.randint(0, 5)))
        b = ''.join(ctx.rng.choice(uni + list('abAB_1')) for _ in range(ctx.rng.randint(0, 3)))
        if ctx.rng.random() < 0.5 and a:  # mostly-matching: a sub-sequence / prefix of a
            k = ctx.rng.randint(0, len(a))
            b = a[:k] if ctx.rng.random() < 0.5 else ''.join(c for c in a if ctx.rng.random() < 0.5)
        pairs.append((a, b))
    cases, n_true = [], 0
    for s, l in pairs:
        for fz in (False, True):
            try:
                real = bool(helpers.match(s, l, fuzzy=fz))
            except Exception as e:
                ctx.deviation(dict(stream='match', exc=type(e).__name__), dict(string=s, like=l, fuzzy=fz),
                              'helpers.match raised %r' % e)
                continue
            spec = is_subseq(l, s) if fz else s[:len(l)] == l
            n_true += real
            ctx.count('match', (s, l, fz), nontrivial=bool(l))
            if real != spec:
                ctx.deviation(dict(stream='match', cls='match-not-prefix/subsequence'),
                              dict(string=s, like=l, fuzzy=fz, impl=real, spec=spec),
                              'match(%r,%r,fuzzy=%s) = %s but the name %s the fragment as a %s' % (
                                  s, l, fz, real, 'extends' if spec else 'does not extend',
                                  'subsequence' if fz else 'prefix'))
            cases.append('(%s, %s, %s, %s)' % (g_str(s), g_str(l), g_bool(fz), g_bool(real)))
    ctx.stat('match_true_fraction', round(n_true / max(1, len(cases)), 3))
    fails, err = common.coq_failing(IMPORTS, "(fun c => let '(s, l, fz, r) := c in Bool.eqb (match_ s l fz) r)", cases, shard=3000)
    if err:
        raise RuntimeError('coq evaluation failed (match): ' + err)
    for i in fails:
        ctx.violation('obligation', dict(what='correspondence match_: model and helpers.match differ (direct oracle agreed with impl)',
                                         case=cases[i]), nofail=True)
    ctx.sample(dict(stream='match', string='ab_a', like='b_', fuzzy=True, impl=True))


# --------------------------------------------------------------- filter stream
class _Def:
    def __init__(self, type_):
        self.type = type_


class _Tree:
    def __init__(self, is_del):
        self._d = is_del

    def get_definition(self):
        return _Def('del_stmt' if self._d else 'expr_stmt')


class StubName:
    api_type = 'statement'

    def __init__(self, s, pub, is_del, has_tree=True):
        self.string_name = s
        self._pub = pub
        self.tree_name = _Tree(is_del) if (has_tree or is_del) else None
        self.is_del = is_del

    def get_public_name(self):
        return self._pub


def g_cname(s, pub, is_func, is_del):
    return '{| sname := %s; lname := %s; pname := %s; lpname := %s; is_func := %s; is_del := %s |}' % (
        g_str(s), g_str(s.lower()), g_str(pub), g_str(pub.lower()), g_bool(is_func), g_bool(is_del))


def g_obs(lst):
    return g_list(lst, lambda t: '(%s, %s, %s, %s)' % (g_str(t[0]), ('(@None str)' if t[1] is None else g_opt(t[1], g_str)), g_str(t[2]), g_nat(t[3])),
                  'str * option str * str * nat')


OBS_EQ = '''
Fixpoint obs_eqb (a b : list (str * option str * str * nat)) : bool :=
  match a, b with
  | [], [] => true
  | (n1, c1, w1, p1) :: a', (n2, c2, w2, p2) :: b' =>
      str_eqb n1 n2 && opt_str_eqb c1 c2 && str_eqb w1 w2 && Nat.eqb p1 p2 && obs_eqb a' b'
  | _, _ => false
  end.
'''


def oracle_clauses(ctx, frag, fuzzy, obs, where, sorted_part=None):
    """The property's clauses, checked directly on what the implementation returned."""
    bad = []
    seen = set()
    for (name, comp, nws, plen) in obs:
        lname = name.lower()
        lf = frag.lower()
        base = name[:-1] if name.endswith('=') else name
        if fuzzy:
            if not is_subseq(lf, base.lower()):
                bad.append(('not-subsequence', name))
            if comp is not None:
                bad.append(('complete-not-None-when-fuzzy', name))
        else:
            if not base.lower().startswith(lf):
                bad.append(('not-prefix', name))
            if comp is None or nws != name[:len(frag)] + comp and nws[len(frag):] != comp:
                bad.append(('complete-not-suffix', name))
            elif nws[len(frag):] != comp:
                bad.append(('complete-not-suffix', name))
        if plen != len(frag):
            bad.append(('prefix-length', name))
        if (name, comp) in seen:
            bad.append(('duplicate-pair', name))
        seen.add((name, comp))
    part = obs if sorted_part is None else sorted_part
    keys = [(not n.startswith(frag), n.startswith('__'), n.startswith('_'), n.lower()) for (n, _, _, _) in part]
    if keys != sorted(keys):
        bad.append(('order', None))
    for kind, name in bad[:3]:
        ctx.deviation(dict(stream='oracle', cls=kind), dict(where=where, fragment=frag, fuzzy=fuzzy, name=name,
                                                            observed=obs[:40]),
                      'completion clause "%s" fails for %r (fragment %r, fuzzy=%s)' % (kind, name, frag, fuzzy))
    return not bad


def stream_filter(ctx):
    from jedi.api import completion as comp_mod
    pool = ['foo', 'Foo', 'fOO', 'foo_bar', '_foo', '__foo', '__foo__', 'f', 'fo', 'bar', 'Bar', 'ofo',
            'İx', 'i̇x', 'ßa', 'ssa', 'SSa', 'éa', 'Éa', 'ǅx', 'ǆx', 'foo=']
    likes = ['', 'f', 'F', 'fo', 'FO', 'foo', 'o', 'fb', '_', '__', 'İ', 'i', 'ß', 'ss', 'é', 'É', 'ǆ', 'b', 'x']
    cases, metas = [], []
    n = ctx.n(700, 6000)
    for it in range(n):
        k = ctx.rng.randint(0, 9)
        names = []
        for _ in range(k):
            s = ctx.rng.choice(pool)
            pub = s
            if s.endswith('='):
                s = s[:-1]
            elif ctx.rng.random() < 0.1:
                pub = s + '='
            names.append((s, pub, ctx.rng.random() < 0.12))
        like = ctx.rng.choice(likes)
        fz = ctx.rng.random() < 0.4
        imported = [ctx.rng.choice(pool) for _ in range(ctx.rng.choice([0, 0, 0, 1, 2]))]
        stubs = [StubName(s, p, d, has_tree=ctx.rng.random() < 0.8) for (s, p, d) in names]
        try:
            out = list(comp_mod.filter_names(None, stubs, None, like, fz, imported, cached_name=None))
            obs = [(c.name, c.complete, c.name_with_symbols, c.get_completion_prefix_length()) for c in out]
        except Exception as e:
            ctx.deviation(dict(stream='filter', exc=type(e).__name__), dict(names=names, like=like, fuzzy=fz),
                          'filter_names raised %r' % e)
            continue
        ctx.count('filter', (tuple(names), like, fz, tuple(imported)), nontrivial=bool(obs))
        # direct oracle on the implementation's output (no order clause: filter_names does not sort)
        oracle_clauses(ctx, like, fz, obs, dict(stream='filter', names=names, imported=imported), sorted_part=[])
        cases.append('(%s, %s, %s, %s, %s, %s)' % (
            g_str(like), g_str(like.lower()), g_bool(fz), g_list(imported, g_str, 'str'),
            g_list(names, lambda t: g_cname(t[0], t[1], False, t[2]), 'cname'), g_obs(obs)))
        metas.append(dict(names=names, like=like, fuzzy=fz, imported=imported, observed=obs))
    fn = ("(fun c => let '(like, llike, fz, imp, names, obs) := c in "
          "obs_eqb (map (observe false) (filter_names false like llike fz imp names)) obs)")
    fails, err = common.coq_failing(IMPORTS, fn, cases, defs=OBS_EQ)
    if err:
        raise RuntimeError('coq evaluation failed (filter): ' + err)
    for i in fails[:5]:
        m = metas[i]
        model = common.coq_show(IMPORTS, ["let '(like, llike, fz, imp, names, obs) := %s in map (observe false) (filter_names false like llike fz imp names)" % cases[i]], defs=OBS_EQ)
        # is the property itself broken on this input?
        ok = oracle_clauses(ctx, m['like'], m['fuzzy'], m['observed'], dict(stream='filter-after-disagreement', **m), sorted_part=[])
        if ok:
            ctx.violation('obligation', dict(what='correspondence filter_names: model and implementation differ',
                                             input=m, model=model), nofail=True)
    if metas:
        ctx.sample(dict(stream='filter', **metas[0]))


# ------------------------------------------------------------- complete stream
IDENTS = ['foo', 'Foo', 'fOO', 'foo_bar', 'fob', '_foo', '__foo', 'bar', 'Bar', 'baz', '_bar', '__bar__', 'f', 'b',
          'éta', 'Éta', 'param_a', 'param_b', 'quux']


DIRECTED_ATTRS = [
    ("def mk2():\n    class Shape:\n        def area_2d(self):\n            return 1\n        def perimeter(self):\n            return 2\n    return Shape()\n"
     "def mk3():\n    class Shape:\n        def volume_3d(self):\n            return 1\n        def surface(self):\n            return 2\n    return Shape()\n"
     "class Cfg:\n    def __init__(self, level):\n        self.level = level\n    def deep(self):\n        return self.level * 2 > 3\n"
     "def make(cfg):\n    if cfg.deep():\n        return mk2()\n    return mk3()\n"
     "def make_r(cfg):\n    if cfg.deep():\n        return mk3()\n    return mk2()\n"
     "obj_a = make(Cfg(5))\nobj_b = make(Cfg(0))\nobj_c = make_r(Cfg(5))\nobj_d = make_r(Cfg(7))\nobj_e = make(Cfg(9))\n",
     ['obj_a', 'obj_b', 'obj_c', 'obj_d', 'obj_e']),
    ("class Base:\n    def common(self):\n        return 0\n"
     "class Sw:\n    def __init__(self, k):\n        self.k = k\n    def on(self):\n        return self.k * 3 > 4\n"
     "def pick(n):\n    if n.on():\n        class Node(Base):\n            def left_only(self):\n                return 1\n        return Node()\n"
     "    class Node(Base):\n        def right_only(self):\n            return 2\n    return Node()\nnode_l = pick(Sw(5))\nnode_r = pick(Sw(0))\n", ['node_l', 'node_r']),
]


def gen_program(rng):
    """A small executable program; returns (source, probes) where a probe is
    (line, col, fragment, kind, receiver_expr or None)."""
    lines = []
    classes = []
    ncls = rng.randint(1, 6)
    for ci in range(ncls):
        cname = 'K%d' % ci
        # up to two bases in either order: chains, diamonds and shapes such as
        # Left(Base), Right(Base, Plugin), Leaf(Left, Right) all occur
        bases = rng.sample(classes, min(len(classes), rng.choice([0, 1, 1, 2, 2])))
        lines.append('class %s(%s):' % (cname, ', '.join(bases)) if bases else 'class %s:' % cname)
        for a in rng.sample(IDENTS, rng.randint(1, 4)):
            lines.append('    %s = %d' % (a, rng.randint(0, 9)))
        ms = rng.sample(IDENTS, rng.randint(1, 3))
        for mi, m in enumerate(ms):
            ps = rng.sample(['param_a', 'param_b', 'foo', 'bar'], rng.randint(0, 2))
            lines.append('    def %s(self%s):' % (m if mi else '__init__', ''.join(', %s=1' % p for p in ps)))
            for a in rng.sample(IDENTS, rng.randint(1, 2)):
                lines.append('        self.%s = %d' % (a, rng.randint(0, 9)))
        classes.append(cname)
    for f in rng.sample(IDENTS, rng.randint(1, 3)):
        ps = rng.sample(['param_a', 'param_b', 'foo_p', 'bar'], rng.randint(0, 3))
        lines.append('def %s(%s):' % (f, ', '.join(ps)))
        lines.append('    return 1')
    insts = []
    for i, c in enumerate(classes):
        if rng.random() < 0.8:
            v = rng.choice(['obj%d' % i, 'foo_obj', 'Fob'])
            lines.append('%s = %s()' % (v, c))
            insts.append(v)
    for g in rng.sample(IDENTS, rng.randint(1, 4)):
        lines.append('%s = %d' % (g, rng.randint(0, 9)))
    probes = []
    base = '\n'.join(lines) + '\n'
    n0 = len(lines)
    frags = ['', 'f', 'F', 'fo', 'FO', 'foo', 'b', 'ba', '_', '__', 'é', 'É', 'p', 'par', 'q', 'x', 'K']
    tails = []
    for _ in range(rng.randint(3, 6)):
        kind = rng.choice(['global', 'attr', 'attr', 'clsattr', 'call', 'import', 'infunc'])
        frag = rng.choice(frags)
        if kind == 'global':
            tails.append((frag, frag, kind, None))
        elif kind == 'attr' and insts:
            r = rng.choice(insts)
            tails.append((r + '.' + frag, frag, kind, r))
        elif kind == 'clsattr':
            r = rng.choice(classes)
            tails.append((r + '.' + frag, frag, kind, r))
        elif kind == 'call':
            fdefs = [l.split('(')[0][4:] for l in lines if l.startswith('def ')]
            f = rng.choice(fdefs)
            frag = rng.choice(['', 'p', 'par', 'param_', 'f', 'b'])
            tails.append((f + '(' + frag, frag, kind, None))
        elif kind == 'import':
            frag = rng.choice(['o', 'js', 'sy', 're', 'ab'])
            tails.append(('import ' + frag, frag, kind, None))
        elif kind == 'infunc':
            tails.append(('def zz(loc_foo, loc_bar):\n    ' + frag, frag, kind, None))
    out = []
    for text, frag, kind, recv in tails:
        src = base + text
        ls = src.split('\n')
        out.append((src, len(ls), len(ls[-1]), frag, kind, recv))
    return base, out


def _complete_task(task):
    src, line, col, frag, kind, recv, fuzzy = task
    import jedi
    from jedi.api import completion as comp_mod
    cap = {}
    orig = comp_mod.filter_names

    def wrapped(inference_state, completion_names, stack, like_name, fz, imported_names, cached_name):
        names = list(completion_names)
        recs = []
        for n in names:
            tn = getattr(n, 'tree_name', None)
            is_del = False
            if tn is not None:
                d = tn.get_definition()
                is_del = d is not None and d.type == 'del_stmt'
            recs.append((n.string_name, n.get_public_name(), is_del))
        cap['in'] = dict(like=like_name, fuzzy=fz, imported=list(imported_names), names=recs)
        return orig(inference_state, names, stack, like_name, fz, imported_names, cached_name=cached_name)

    comp_mod.filter_names = wrapped
    try:
        s = jedi.Script(src)
        res = s.complete(line, col, fuzzy=fuzzy)
        obs = [(c.name, c.complete, c.name_with_symbols, c.get_completion_prefix_length()) for c in res]
        return dict(ok=True, obs=obs, cap=cap.get('in'))
    except Exception as e:
        return dict(ok=False, sig=common.exc_sig(e))
    finally:
        comp_mod.filter_names = orig


ATTR_RUNNER = r'''
import sys, json
src = sys.stdin.read()
req = json.loads(sys.argv[1])
g = {'__name__': '__main__'}
exec(compile(src, '<prog>', 'exec'), g)
SKIP = {'__module__', '__dict__', '__weakref__', '__doc__', '__qualname__', '__firstlineno__', '__static_attributes__'}
out = {}
for r in req:
    o = g[r]
    names = set()
    t = o if isinstance(o, type) else type(o)
    for c in t.__mro__:
        if c.__module__ == '__main__':
            names |= {k for k in vars(c) if k not in SKIP}
    if not isinstance(o, type):
        names |= set(vars(o))
    out[r] = sorted(n for n in names if n in dir(o))
print(json.dumps(out))
'''


def stream_complete(ctx):
    nprog = ctx.n(60, 700)
    tasks, meta = [], []
    progs = []
    for _ in range(nprog):
        base, probes = gen_program(ctx.rng)
        progs.append((base, probes))
        for (src, line, col, frag, kind, recv) in probes:
            for fz in ((False, True) if ctx.rng.random() < 0.5 else (False,)):
                tasks.append((src, line, col, frag, kind, recv, fz))
    results = common.pmap(_complete_task, tasks, chunksize=8)
    kinds = {}
    cases, metas = [], []
    for t, r in zip(tasks, results):
        src, line, col, frag, kind, recv, fz = t
        kinds[kind] = kinds.get(kind, 0) + 1
        if not r['ok']:
            ctx.deviation(dict(stream='complete', exc=r['sig']['exc'], site=r['sig']['site']),
                          dict(source=src, line=line, column=col, fuzzy=fz, error=r['sig']),
                          'Script.complete raised %s' % r['sig']['exc'])
            continue
        obs = [tuple(x) for x in r['obs']]
        ctx.count('complete', (src, line, col, fz), nontrivial=len(obs) > 0)
        where = dict(source=src, line=line, column=col, kind=kind)
        oracle_clauses(ctx, frag, fz, obs, where)
        cap = r['cap']
        if cap is None:
            continue
        if cap['like'] != frag:
            ctx.deviation(dict(stream='complete', cls='fragment'), dict(where=where, fragment=frag, used=cap['like']),
                          'the fragment jedi completes (%r) is not the identifier fragment in front of the cursor (%r)' % (cap['like'], frag))
            continue
        cases.append('(%s, %s, %s, %s, %s, %s)' % (
            g_str(frag), g_str(frag.lower()), g_bool(fz), g_list(cap['imported'], g_str, 'str'),
            g_list(cap['names'], lambda n: g_cname(n[0], n[1], False, n[2]), 'cname'), g_obs(obs)))
        metas.append(dict(where=where, fragment=frag, fuzzy=fz, n_names=len(cap['names']), observed=obs[:30]))
    ctx.stat('complete_kinds', kinds)
    fn = ("(fun c => let '(like, llike, fz, imp, names, obs) := c in "
          "obs_eqb (map (observe false) (complete_model false like llike fz imp names)) obs)")
    fails, err = common.coq_failing(IMPORTS, fn, cases, shard=40, defs=OBS_EQ, timeout=900)
    if err:
        raise RuntimeError('coq evaluation failed (complete): ' + err)
    for i in fails[:5]:
        ctx.violation('obligation', dict(what='correspondence complete_model: ordered result list of Script.complete differs from sort(filter_names(captured input)); the clause oracle accepted the list',
                                         input=metas[i]), nofail=True)
    if metas:
        ctx.sample(dict(stream='complete', **{k: metas[0][k] for k in ('fragment', 'fuzzy', 'n_names')},
                        source_tail=metas[0]['where']['source'][-80:], observed=metas[0]['observed'][:5]))

    # ---- attribute completeness against the executed program
    atasks, ameta = [], []
    for base, probes in progs:
        recvs = sorted({p[5] for p in probes if p[5]})
        if not recvs:
            continue
        try:
            p = subprocess.run([common.PY, '-c', ATTR_RUNNER, json.dumps(recvs)], input=base, text=True,
                               capture_output=True, timeout=60, env=common.jedi_env())
            truth = json.loads(p.stdout)
        except Exception:
            continue
        for r in recvs:
            src = base + r + '.'
            ls = src.split('\n')
            atasks.append((src, len(ls), len(ls[-1]), '', 'attr', r, False))
            ameta.append((r, truth[r]))
    # directed: receivers whose value set holds instances of DIFFERENT classes with the SAME simple name (local classes of
    # two factories, a class re-defined in a branch): every attribute the run-time object has must be offered, whichever
    # of the same-named classes it comes from
    for base, recvs in DIRECTED_ATTRS:
        try:
            p = subprocess.run([common.PY, '-c', ATTR_RUNNER, json.dumps(recvs)], input=base, text=True,
                               capture_output=True, timeout=60, env=common.jedi_env())
            truth = json.loads(p.stdout)
        except Exception as e:
            raise RuntimeError('directed attribute program does not run: %r' % (e,))
        for r in recvs:
            src = base + r + '.'
            ls = src.split('\n')
            atasks.append((src, len(ls), len(ls[-1]), '', 'attr', r, False))
            ameta.append((r, truth[r]))
    ares = common.pmap(_complete_task, atasks, chunksize=4)
    for t, (recv, truth), r in zip(atasks, ameta, ares):
        if not r['ok']:
            ctx.deviation(dict(stream='attrs', exc=r['sig']['exc'], site=r['sig']['site']),
                          dict(source=t[0], line=t[1], column=t[2], error=r['sig']), 'Script.complete raised')
            continue
        offered = {x[0] for x in r['obs']}
        spelled = set(re.findall(r'\w+', t[0]))  # name-mangled privates (_K__x) are not spelled in the sources
        truth = [n for n in truth if n in spelled]
        missing = [n for n in truth if n not in offered]
        ctx.count('attrs', (t[0],), nontrivial=len(truth) > 0)
        if missing:
            ctx.deviation(dict(stream='attrs', cls='missing-attribute'),
                          dict(source=t[0], receiver=recv, missing=missing, runtime=truth),
                          'attributes %r of %s exist at run time and are defined in the source but are not offered' % (missing, recv))
    if ameta:
        ctx.sample(dict(stream='attrs', receiver=ameta[0][0], runtime_attrs=ameta[0][1]))


def run(ctx):
    common.setup_jedi(os.path.join(ctx.tmp, 'cache'))
    ctx.proofs()
    ctx.cov['fingerprints'] = common.fingerprint(FP)
    ctx.cov['rule'] = ('match: exhaustive strings over {a,b,_} (len<=4 quick/5 thorough) x fragments len<=3 x {prefix,fuzzy} + seeded unicode; '
                       'filter: seeded stub-name lists; complete/attrs: seeded generated programs x cursor kinds; '
                       'non-trivial = non-empty fragment (match) / non-empty result (others); distinct by input')
    ctx.assumptions += ['str.lower is an oracle: the harness supplies name.lower() computed by CPython to the model',
                        'which names reach filter_names is engine behaviour (captured, not modelled); attribute completeness is oracle-only']
    import time
    for f in (stream_match, stream_filter, stream_complete):
        t = time.time()
        f(ctx)
        ctx.stat('wall_' + f.__name__, round(time.time() - t, 1))


def replay(ctx, path):
    rec = json.load(open(path))
    print(json.dumps(rec, indent=1, ensure_ascii=False)[:3000])
    common.setup_jedi(os.path.join(ctx.tmp, 'cache'))
    src = rec.get('source') or (rec.get('where') or {}).get('source')
    if src:
        line = rec.get('line') or rec['where']['line']
        col = rec.get('column') or rec['where']['column']
        r = _complete_task((src, line, col, rec.get('fragment', ''), 'replay', None, rec.get('fuzzy', False)))
        print('implementation now returns:', r.get('obs', r))
    return 0
