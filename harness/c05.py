"""C05 — rename rewrites exactly the references and preserves behaviour.

Single-module streams, on programs of the C03 scope-tree language (executable, every binding
assigns a unique value, every use records what it read):
  refs      Script.get_references from every occurrence vs the Coq specification refs_ids
            (same identifier AND same variable by Python's scoping: py_scope/bind_scope)
  predict   the same answer vs refs_j, a Gallina transcription of find_references itself
            (_find_defining_names + the candidate scan with the parked-map merge = the proved
            merge_loop of Model/C05_Rename.v, over C03's jedi_goto): on the unchanged tree the
            two agree on every occurrence; a deviation from the specification is accepted as a
            known finding ONLY if it is exactly the set this transcription predicts
  partition asking from every reported occurrence yields the same set
  text      Script.rename(new): changed text vs the Coq model rename_text on the file's leaves
            with exactly the reported references selected; renaming back restores the bytes
  run       old and renamed program are executed: same trace
Program families: the C03 enumeration/random programs (as before) and, since round 2, the
self-rebinding family: statements `x = [v for v in x]`, `x = [v for v in y if x]`,
`x = {1: x for v in x}`, ... whose right-hand side reads the PREVIOUS binding of x (a parameter,
a module global read in a class body, an enclosing function's local, an earlier assignment),
directed over every (form, context) pair and mixed randomly into the random programs.

Multi-module stream (oracle only; the Coq language is single-module), since round 2:
  mm        small generated projects (2-4 modules: from-imports, `import m` + `m.name`,
            re-export chains, try/except ImportError and if/else alternatives importing the same
            name from two modules, uses inside and after the alternatives, functions returning
            the name, aliases, shadowing parameters/locals) with an explicit jedi.Project:
            get_references from EVERY occurrence must give the same set (partition), equal to
            the component computed by the generator (union-find over import links), containing
            every use site that read that definition's sentinel at run time; rename to a fresh
            name: exactly the reported tokens change, old and new project are executed in
            subprocesses (same trace), renaming back restores every file byte for byte.
"""
import json
import os
import itertools
import subprocess

import common
import c03
from common import g_str, g_list, g_N, g_bool

IMPORTS = 'From JV Require Import Base.Str Model.C03_Resolve Model.C05_Rename.\n'
FP = [('jedi/api/refactoring/__init__.py', 'rename'), ('jedi/inference/references.py', 'find_references'),
      ('jedi/inference/references.py', '_find_defining_names'), ('jedi/inference/references.py', '_find_names'),
      ('jedi/inference/references.py', '_add_names_in_same_context'), ('jedi/inference/references.py', '_find_global_variables'),
      ('jedi/inference/names.py', 'AbstractTreeName.goto')]

DEFS = c03.DEFS + '''
Fixpoint sorted_ins (a : N) (l : list N) : list N :=
  match l with [] => [a] | b :: r => if N.leb a b then a :: l else b :: sorted_ins a r end.
Definition sortN (l : list N) := fold_right sorted_ins [] l.
Definition b2n (b : bool) : N := if b then 1%N else 0%N.
Fixpoint uniq (l : list N) : list N :=
  match l with a :: ((b :: _) as r) => if N.eqb a b then uniq r else a :: uniq r | _ => l end.
Definition has_bind (p : program) (ids : list N) : bool :=
  existsb (fun id => match find_occ id (occs_of p) with
                     | Some (o, _) => role_eqb (o_role o) Bind | None => false end) ids.
Definition owner_of (oc : occ * chain) : N := owner_sid (snd oc) (fst oc).
(* some use of the variable precedes every binding of it (late-bound / loop-carried) *)
Definition late_bound (p : program) (x : N) : bool :=
  let all := occs_of p in
  existsb (fun u => N.eqb (o_name (fst u)) x && role_eqb (o_role (fst u)) Use && negb (N.eqb (owner_of u) 0) &&
                    existsb (fun b => N.eqb (o_name (fst b)) x && role_eqb (o_role (fst b)) Bind && N.eqb (owner_of b) (owner_of u)) all &&
                    negb (existsb (fun b => N.eqb (o_name (fst b)) x && role_eqb (o_role (fst b)) Bind &&
                                            N.eqb (owner_of b) (owner_of u) && N.ltb (o_id (fst b)) (o_id (fst u))) all)) all.
(* a parameter that is assigned again in the body of its function *)
Definition param_rebound (p : program) (x : N) (params : list N) : bool :=
  let all := occs_of p in
  existsb (fun a => N.eqb (o_name (fst a)) x && memN (o_id (fst a)) params &&
                    existsb (fun b => N.eqb (o_name (fst b)) x && role_eqb (o_role (fst b)) Bind &&
                                      negb (memN (o_id (fst b)) params) && N.eqb (owner_of b) (owner_of a)) all) all.

(* ---- find_references as written (jedi/inference/references.py), over C03's jedi_goto ----
   name.goto(): a definition answers itself; anything else is looked up (jedi_goto) *)
Definition goto_j (p : program) (oc : occ * chain) : list N :=
  match o_role (fst oc) with
  | Bind => [o_id (fst oc)]
  | _ => map o_id (jedi_goto p (snd oc) (fst oc))
  end.
(* _find_names: the name and what goto gives *)
Definition fn_j (p : program) (oc : occ * chain) : list N := union [o_id (fst oc)] (goto_j p oc).
(* _add_names_in_same_context: every definition of x in the context that holds the name *)
Definition frame_binds (x : N) (c : chain) : list N :=
  match c with f :: _ => map o_id (filter (is Bind x) (f_occs f)) | [] => [] end.
(* the context find_references works in for a name (Script -> create_context): a name in the LAST
   child of a comprehension's `for` clause gets the context around the comprehension - that is the
   iterable when no `if`/`for` follows, else the following clause (list `up`: printed inside the
   comprehension frame, context = the frame around it) - and an iterable that is followed by a
   clause gets the comprehension's own context, which defines none of our identifiers (list `down`) *)
Definition ctx_binds (p : program) (up down : list N) (x n : N) : list N :=
  if memN n down then [] else
  match find_occ n (occs_of p) with
  | Some (_, c) => frame_binds x (if memN n up then tl c else c)
  | None => []
  end.
Definition module_binds (p : program) (x : N) : list N := map o_id (filter (is Bind x) (direct p)).
(* _find_defining_names: _find_names + every `global x` of the module (a name whose context is the
   module: its same-context definitions are the module's) with the definitions of x in the function
   that declares it + same-context definitions of every non-parameter name found so far *)
Definition defining_j (p : program) (params up down : list N) (oc : occ * chain) : list N :=
  let x := o_name (fst oc) in
  let f0 := fn_j p oc in
  let gl := flat_map (fun d => if is DeclG x (fst d) then o_id (fst d) :: frame_binds x (snd d) ++ module_binds p x else []) (occs_of p) in
  let f1 := union gl f0 in
  fold_left (fun acc n => if memN n params then acc else union (ctx_binds p up down x n) acc) f1 f1.
(* the scan over all same-spelled tokens in textual order `ord`, merged by merge_loop *)
Definition refs_j (p : program) (params ord up down : list N) (id : N) : list N :=
  match find_occ id (occs_of p) with
  | None => []
  | Some oc =>
      let x := o_name (fst oc) in
      let cands := flat_map (fun i => match find_occ i (occs_of p) with
                                      | Some t => if N.eqb (o_name (fst t)) x then [fn_j p t] else []
                                      | None => [] end) ord in
      find_refs (defining_j p params up down oc) cands
  end.

(* program, parameter ids, ids in textual order, context annotations, occurrence id, identifier, observed reference ids (sorted) ->
   [identifier inside the C03 fragment; the variable has a binding; observed = specification;
    late-bound use of the identifier; rebound parameter; observed = transcription of find_references] *)
Definition chk_refs (c : program * list N * list N * list N * list N * N * N * list N) : list N :=
  let '(p, params, ord, up, down, i, x, obs) := c in
  let spec := refs_ids p i in
  [b2n (name_in_fragment p x); b2n (has_bind p spec); b2n (nl_eqb (sortN spec) obs);
   b2n (late_bound p x); b2n (param_rebound p x params); b2n (nl_eqb (uniq (sortN (refs_j p params ord up down i))) obs)].
Definition mkleaf (pv : str * str * bool) : leaf :=
  let '(p, v, s) := pv in {| l_prefix := p; l_value := v; l_sel := s |}.
(* leaves (prefix, value, selected), new name, observed new text, old name *)
Definition chk_text (c : list (str * str * bool) * str * str * str) : bool :=
  let '(ls, new, obs, old) := c in
  str_eqb (rename_text new (map mkleaf ls)) obs &&
  str_eqb (rename_text old (map (rename_leaf new) (map mkleaf ls))) (code_of (map mkleaf ls)).
'''

NEW = 'zq9'
IDS = dict(c03.IDS, w=4)


# ------------------------------------------------------------------ the self-rebinding family
# forms of `x = <value that reads x>`; y is a second identifier
RB_FORMS = ('iter', 'if', 'iterif', 'dict', 'elem', 'for2', 'nested', 'plain', 'lam')


class Printer2(c03.Printer):
    """The C03 printer with iterable (1-tuple) values and the statements ('rb', form, x, y).
    Occurrence ids follow evaluation order, not text order: the names read by the right-hand
    side of an assignment get smaller ids than its target (Python evaluates them first and jedi
    looks them up from the start of the statement), which is what the model's o_id comparisons
    (bound_before, visible) mean."""

    def stmt(self, st, scope, indent):
        k = st[0]
        if k == 'bind':
            o = self.occ(st[1], 'bind', scope, 'assign')
            self.emit(indent, [(st[1], o), ' = (%d,)' % o.oid])
        elif k == 'def':
            _, fname, params, body = st
            inner = self.new_scope('def', scope)
            parts = ['def %s(' % fname]
            saved, self.in_loop = self.in_loop, 0
            for i, p in enumerate(params):
                o = self.occ(p, 'bind', inner, 'param')
                if i:
                    parts.append(', ')
                parts += [(p, o), '=(%d,)' % o.oid]
            parts.append('):')
            self.emit(indent, parts)
            self.body(body, inner, indent + 4)
            self.in_loop = saved
            self.emit(indent, ['%s()' % fname])
            return ('call', fname, indent)
        elif k == 'comp':
            _, x, var = st
            inner = self.new_scope('comp', scope)
            ou = self.occ(x, 'use', inner)
            ov = self.occ(var, 'bind', inner, 'compfor')
            self.emit(indent, ['try: [_r.append((%d, ' % ou.oid, (x, ou), ')) for ', (var, ov), ' in ((%d,),)]' % ov.oid])
            self.emit(indent, ['except NameError: pass'])
        elif k == 'for':
            _, var, body = st
            o = self.occ(var, 'bind', scope, 'for')
            self.emit(indent, ['for ', (var, o), ' in ((%d,), (%d,)):' % (o.oid, o.oid)])
            self.in_loop += 1
            self.body(body, scope, indent + 4)
            self.in_loop -= 1
        elif k == 'rb':
            self.rebind(st[1], st[2], st[3], scope, indent)
        else:
            return super().stmt(st, scope, indent)

    def rebind(self, form, x, y, scope, indent):
        use, bind, sub = (lambda n, s: self.occ(n, 'use', s)), (lambda n, s, h: self.occ(n, 'bind', s, h)), self.new_scope
        up, down = self.__dict__.setdefault('up', []), self.__dict__.setdefault('down', [])
        if form == 'plain':                      # x = x
            u = use(x, scope)
            b = bind(x, scope, 'assign')
            parts = [(x, b), ' = ', (x, u)]
        elif form == 'lam':                      # x = (lambda: x)()
            inner = sub('lam', scope)
            u = use(x, inner)
            b = bind(x, scope, 'assign')
            parts = [(x, b), ' = (lambda: ', (x, u), ')()']
        elif form == 'iter':                     # x = [v for v in x]
            u = use(x, scope)
            inner = sub('comp', scope)
            bv = bind('v', inner, 'compfor')
            uv = use('v', inner)
            b = bind(x, scope, 'assign')
            parts = [(x, b), ' = [', ('v', uv), ' for ', ('v', bv), ' in ', (x, u), ']']
        elif form == 'if':                       # x = [v for v in y if x]
            uy = use(y, scope)
            inner = sub('comp', scope)
            bv = bind('v', inner, 'compfor')
            u = use(x, inner)
            uv = use('v', inner)
            b = bind(x, scope, 'assign')
            up.append(u.oid)
            down.append(uy.oid)
            parts = [(x, b), ' = [', ('v', uv), ' for ', ('v', bv), ' in ', (y, uy), ' if ', (x, u), ']']
        elif form == 'iterif':                   # x = [v for v in x if x]
            u1 = use(x, scope)
            inner = sub('comp', scope)
            bv = bind('v', inner, 'compfor')
            u2 = use(x, inner)
            uv = use('v', inner)
            b = bind(x, scope, 'assign')
            up.append(u2.oid)
            down.append(u1.oid)
            parts = [(x, b), ' = [', ('v', uv), ' for ', ('v', bv), ' in ', (x, u1), ' if ', (x, u2), ']']
        elif form == 'dict':                     # x = {1: x for v in x}
            u1 = use(x, scope)
            inner = sub('comp', scope)
            bv = bind('v', inner, 'compfor')
            u2 = use(x, inner)
            b = bind(x, scope, 'assign')
            parts = [(x, b), ' = {1: ', (x, u2), ' for ', ('v', bv), ' in ', (x, u1), '}']
        elif form == 'elem':                     # x = [x for v in y]
            uy = use(y, scope)
            inner = sub('comp', scope)
            bv = bind('v', inner, 'compfor')
            u = use(x, inner)
            b = bind(x, scope, 'assign')
            parts = [(x, b), ' = [', (x, u), ' for ', ('v', bv), ' in ', (y, uy), ']']
        elif form == 'for2':                     # x = [v for v in y for w in x]
            uy = use(y, scope)
            inner = sub('comp', scope)
            bv = bind('v', inner, 'compfor')
            u = use(x, inner)
            bw = bind('w', inner, 'compfor')
            uv = use('v', inner)
            b = bind(x, scope, 'assign')
            up.append(u.oid)
            down.append(uy.oid)
            parts = [(x, b), ' = [', ('v', uv), ' for ', ('v', bv), ' in ', (y, uy), ' for ', ('w', bw), ' in ', (x, u), ']']
        elif form == 'nested':                   # x = [[v for v in x] for w in y]
            uy = use(y, scope)
            c1 = sub('comp', scope)
            bw = bind('w', c1, 'compfor')
            u = use(x, c1)
            c2 = sub('comp', c1)
            bv = bind('v', c2, 'compfor')
            uv = use('v', c2)
            b = bind(x, scope, 'assign')
            parts = [(x, b), ' = [[', ('v', uv), ' for ', ('v', bv), ' in ', (x, u), '] for ', ('w', bw), ' in ', (y, uy), ']']
        else:
            raise ValueError(form)
        self.emit(indent, parts)


def build2(prog):
    p = Printer2()
    mod = p.new_scope('module', None)
    p.lines.append('_r = []')
    calls = []
    for st in prog:
        r = p.stmt(st, mod, 0)
        if r:
            calls.append(r)
    for _, fname, indent in calls:
        p.emit(indent, ['%s()' % fname])
    return p, '\n'.join(p.lines) + '\n'


def g_prog2(scope):
    """like c03.g_prog; items are ordered by occurrence id (evaluation order)"""
    parts = []
    for it in scope.items:
        if isinstance(it, c03.Occ):
            c = {'bind': 'B', 'use': 'U', 'declg': 'G', 'decln': 'NL'}[it.role]
            parts.append('%s %d %d' % (c, it.oid, IDS[it.name]))
        else:
            k = {'def': 'Def', 'lam': 'Lam', 'comp': 'Comp', 'class': 'Class'}[it.kind]
            parts.append('Sub %s %d %s' % (k, it.sid, g_prog2(it)))
    return '[' + '; '.join(parts) + ']' if parts else '(@nil item)'


def rebind_family():
    """every form in every context in which the previous binding of x lives somewhere specific"""
    x, y = 'a', 'b'
    out = []
    for form in RB_FORMS:
        rb = ('rb', form, x, y)
        use = ('use', x)
        ctxs = [
            # previous binding = parameter
            [('def', 'f1', [x, y], [rb, use])],
            [('def', 'f1', [x, y], [use, rb, use, ('rb', 'iter' if form != 'iter' else 'if', x, y), use])],
            # previous binding = module global read in the class body that shadows it
            [('bind', x), ('bind', y), ('class', 'C1', [rb, use]), use],
            [('bind', x), ('bind', y), ('def', 'f1', [], [('class', 'C1', [rb, use])]), use],
            # ... = parameter of the function around the class (LOAD_NAME goes to the module instead)
            [('bind', x), ('bind', y), ('def', 'f1', [x, y], [('class', 'C1', [rb, use]), use]), use],
            # previous binding = earlier assignment in the same scope
            [('bind', x), ('bind', y), rb, use],
            [('def', 'f1', [], [('bind', x), ('bind', y), rb, use])],
            # no previous binding in the function: the right-hand side is a late-bound local
            [('bind', x), ('bind', y), ('def', 'f1', [], [rb, use]), use],
            # method parameter, class attribute of the same name next to it
            [('bind', x), ('bind', y), ('class', 'C1', [('bind', x), ('def', 'm1', [x, y], [rb, use]), use])],
            # loop target
            [('bind', y), ('for', x, [rb, use]), use],
        ]
        out += ctxs
    return out


def rand_body2(rng, depth, maxlen, ids, counter):
    """c03.rand_body with self-rebinding statements mixed in"""
    out = []
    for _ in range(rng.randint(1, maxlen)):
        x = rng.choice(ids)
        r = rng.random()
        if depth > 0 and r < 0.30:
            counter[0] += 1
            k = rng.choice(['def', 'defp', 'defp', 'class', 'class', 'for'])
            b = rand_body2(rng, depth - 1, max(1, maxlen - 1), ids, counter)
            if k == 'def':
                out.append(('def', 'f%d' % counter[0], [], b))
            elif k == 'defp':
                out.append(('def', 'f%d' % counter[0], rng.sample(ids, rng.randint(1, len(ids))), b))
            elif k == 'class':
                out.append(('class', 'C%d' % counter[0], b))
            else:
                out.append(('for', x, b))
        elif r < 0.46:
            out.append(('bind', x))
        elif r < 0.66:
            out.append(('use', x))
        elif r < 0.70:
            out.append(('lam', x))
        elif r < 0.74:
            out.append(('comp', x, rng.choice(ids + ['v'])))
        elif r < 0.97:
            out.append(('rb', rng.choice(RB_FORMS), x, rng.choice([i for i in ids if i != x] or ids)))
        elif r < 0.985:
            out.append(('global', x))
        else:
            out.append(('nonlocal', x))
    return out


def run_trace(src):
    g = {}
    try:
        exec(compile(src, '<prog>', 'exec'), g)
    except SyntaxError:
        return 'SyntaxError'
    except Exception as e:
        return g.get('_r', []) + [('EXC', type(e).__name__)]
    return g.get('_r', [])


def _task(item):
    import jedi
    import parso
    fam, prog = item
    try:
        if fam == 'c03':
            p, src = c03.build(prog)
            gprog = c03.g_prog(p.scopes[0])
        else:
            p, src = build2(prog)
            gprog = g_prog2(p.scopes[0])
        compile(src, '<prog>', 'exec')
    except SyntaxError:
        return dict(skip='syntax')
    except Exception as e:
        return dict(skip=repr(e))
    trace = run_trace(src)
    pos2occ = {(o.line, o.col): o for o in p.occs}
    out = dict(src=src, gprog=gprog, occs=[], names={}, fam=fam,
               params=[o.oid for o in p.occs if o.how == 'param'],
               order=[o.oid for o in sorted(p.occs, key=lambda o: (o.line, o.col))],
               up=list(getattr(p, 'up', [])), down=list(getattr(p, 'down', [])),
               aborted=bool(trace and isinstance(trace[-1], tuple) and trace[-1][0] == 'EXC'))
    script = jedi.Script(src)
    cache = {}
    backs = []

    def refs_from(o):
        if o.oid in cache:
            return cache[o.oid]
        try:
            res = script.get_references(o.line, o.col)
            ids = []
            for d in res:
                q = pos2occ.get((d.line, d.column))
                ids.append(q.oid if q is not None and d.module_path is None and d.name == q.name else 0)
            r = sorted(set(ids))
        except Exception as e:
            r = dict(exc=common.exc_sig(e))
        cache[o.oid] = r
        return r

    # leaves of the file for the text model
    leaves = []
    leaf = parso.parse(src).get_first_leaf()
    while leaf is not None:
        leaves.append((leaf.prefix, leaf.value, leaf.start_pos))
        leaf = leaf.get_next_leaf()
    for o in p.occs:
        if o.name in ('v', 'w'):
            continue
        rec = dict(id=o.oid, name=o.name, pos=(o.line, o.col))
        r = refs_from(o)
        if isinstance(r, dict):
            rec['exc'] = r['exc']
            out['occs'].append(rec)
            continue
        rec['refs'] = r
        # partition: same answer from every member
        for i in r:
            if i and i != o.oid:
                r2 = refs_from(next(q for q in p.occs if q.oid == i))
                if r2 != r:
                    rec['partition'] = dict(member=i, other=r2)
                    break
        # rename (once per distinct reference set)
        key = tuple(r)
        if key not in out['names'] and 0 not in r and r:
            out['names'][key] = True
            try:
                ref = script.rename(o.line, o.col, new_name=NEW)
                files = ref.get_changed_files()
                new_code = files[None].get_new_code() if None in files else src
                sel = {(q.line, q.col) for q in p.occs if q.oid in set(r)}
                rec['text'] = dict(new=new_code,
                                   leaves=[(pr, v, (sp in sel)) for (pr, v, sp) in leaves],
                                   renames=[(str(a), str(b)) for a, b in ref.get_renames()])
                backs.append((rec, o, new_code))
            except Exception as e:
                rec['rename_exc'] = common.exc_sig(e)
        out['occs'].append(rec)
    # renaming back and running happen only now: a new path-less Script re-parses incrementally
    # and thereby invalidates the tree of the Script used above
    for rec, o, new_code in backs:
        try:
            # the start token keeps its line; its column moves by the renamed tokens before it
            sel_before = sum(1 for q in p.occs if q.oid in set(rec['refs']) and q.line == o.line and q.col < o.col)
            s2 = jedi.Script(new_code)
            back = s2.rename(o.line, o.col + sel_before * (len(NEW) - len(o.name)), new_name=o.name).get_changed_files()
            rec['text']['back'] = back[None].get_new_code() if None in back else new_code
        except Exception as e:
            rec['text']['back_exc'] = common.exc_sig(e)
        rec['text']['trace_equal'] = run_trace(new_code) == trace
    return out


def g_leaves(ls):
    return g_list(ls, lambda t: '(%s, %s, %s)' % (g_str(t[0]), g_str(t[1]), g_bool(t[2])), 'str * str * bool')


# ------------------------------------------------------------------ multi-module projects
MODS = ['qma', 'qmb', 'qmc', 'qmd']
MM_NEW = 'zq9fresh'
DRIVER = r'''
import importlib, json, sys
sys.path.insert(0, '.')
out = []
for m in sys.argv[1:]:
    try:
        mod = importlib.import_module(m)
        out.append([m, 'ok', list(getattr(mod, '_r', []))])
    except BaseException as e:
        out.append([m, type(e).__name__, []])
print(json.dumps(out))
'''


class Proj:
    """files as lists of lines built from parts; a part (text, var) registers a token of the
    focus identifier that belongs to variable `var`; variables are merged by import links"""

    def __init__(self, name):
        self.name = name
        self.lines = {}
        self.toks = []          # dict(mod, line, col, var, site)
        self.parent = {}
        self.flags = set()
        self.sentinel = {}      # value -> defining token index
        self.sid = 0

    def find(self, v):
        self.parent.setdefault(v, v)
        while self.parent[v] != v:
            self.parent[v] = self.parent[self.parent[v]]
            v = self.parent[v]
        return v

    def link(self, a, b):
        self.parent[self.find(a)] = self.find(b)

    def emit(self, mod, parts):
        ls = self.lines.setdefault(mod, [])
        line = ''
        for p in parts:
            if isinstance(p, tuple):
                text, var = p[0], p[1]
                self.find(var)
                self.toks.append(dict(mod=mod, line=len(ls) + 1, col=len(line), var=var, site=p[2] if len(p) > 2 else None))
                line += text
            else:
                line += p
        ls.append(line)

    def files(self):
        return {m + '.py': '\n'.join(ls) + '\n' for m, ls in self.lines.items()}


def gen_project(rng, directed=None):
    """one project; `directed` = (alt form, use inside first branch, use inside second branch,
    joining use, start module order) for the systematic family, None = random"""
    X = rng.choice(['value', 'item', 'conf'])
    kind = rng.choice(['var', 'var', 'func'])
    P = Proj(X)
    P.kind = kind
    call = '()' if kind == 'func' else ''
    nmod = rng.randint(2, 4) if directed is None else directed.get('nmod', 3)
    mods = MODS[:nmod]
    order = list(mods)
    rng.shuffle(order)
    nsrc = 1 if nmod == 2 else rng.choice([1, 2, 2])
    if directed is not None:
        nsrc = 2
        order = directed['order']
    sources, consumers = order[:nsrc], order[nsrc:]
    g = lambda m: ('g', m)
    exporters = []           # modules whose global X can be imported from

    def site():
        P.sid += 1
        return P.sid

    def use_stmts(m, expr_parts, n, indent=''):
        """n recorded reads at module level of m"""
        for _ in range(n):
            s = site()
            P.emit(m, [indent + '_r.append((%d, ' % s] + expr_parts(s) + ['))'])

    for i, s in enumerate(sources):
        P.emit(s, ['_r = []'])
        val = 101 + i
        if kind == 'var':
            P.emit(s, [(X, g(s)), ' = %d' % val])
        else:
            P.emit(s, ['def ', (X, g(s)), '():'])
            P.emit(s, ['    return %d' % val])
        P.sentinel[val] = len(P.toks) - 1
        if rng.random() < 0.4:
            use_stmts(s, lambda sid: [(X, g(s), sid), call], 1)
        if rng.random() < 0.3:
            P.emit(s, ['def own_%s():' % s])
            P.emit(s, ['    return ', (X, g(s)), call])
        exporters.append(s)

    for ci, m in enumerate(consumers):
        P.emit(m, ['_r = []'])
        form = rng.choice(['from', 'from', 'mod', 'try', 'try', 'try', 'if', 'if', 'alias']) if directed is None else directed['form']
        s1 = rng.choice(exporters)
        others = [e for e in exporters if e != s1]
        plain = lambda sid: [(X, g(m), sid), call]
        if form in ('try', 'if') and not others and rng.random() < 0.6:
            form = 'from'
        if form == 'from':
            P.emit(m, ['from %s import ' % s1, (X, g(m))])
            P.link(g(m), g(s1))
            expr = plain
            exporters.append(m)
        elif form == 'mod':
            P.emit(m, ['import %s' % s1])
            expr = lambda sid: ['%s.' % s1, (X, g(s1), sid), call]
        elif form == 'alias':
            P.emit(m, ['from %s import ' % s1, (X, g(s1)), ' as other_nm'])
            expr = lambda sid: ['other_nm', call]
        else:
            # two alternatives binding the same module variable
            if others:
                s2 = rng.choice(others)
                alt = s2
                if directed is None and rng.random() < 0.25:
                    alt = 'qmissing'        # no such module: ImportError at run time, nothing to link
            else:
                s2, alt = None, 'qmissing'
            in1 = rng.random() < 0.6 if directed is None else directed['in1']
            in2 = rng.random() < 0.4 if directed is None else directed['in2']
            join = rng.random() < 0.85 if directed is None else directed['join']
            if form == 'try':
                P.emit(m, ['try:'])
                P.emit(m, ['    from %s import ' % alt, (X, g(m))])
                if in1:
                    use_stmts(m, plain, 1, '    ')
                P.emit(m, ['except ImportError:'])
                P.emit(m, ['    from %s import ' % s1, (X, g(m))])
                if in2:
                    use_stmts(m, plain, 1, '    ')
            else:
                decided = rng.random() < 0.2 if directed is None else directed.get('decided', False)
                truth = rng.random() < 0.5
                if decided:
                    P.flags.add('decided-branch')
                    P.emit(m, ['flag = %d' % (1 if truth else 0)])
                else:
                    P.emit(m, ['flag = %s' % ('[1]' if truth else '[]')])
                P.emit(m, ['if flag:'])
                P.emit(m, ['    from %s import ' % alt, (X, g(m))])
                if in1:
                    use_stmts(m, plain, 1, '    ')
                P.emit(m, ['else:'])
                P.emit(m, ['    from %s import ' % s1, (X, g(m))])
                if in2:
                    use_stmts(m, plain, 1, '    ')
            P.link(g(m), g(s1))
            if alt != 'qmissing':
                P.link(g(m), g(alt))
            if not join:
                P.flags.add('alternatives-without-joining-use')
            expr = plain if join else None
            exporters.append(m)
        if expr is not None:
            # reads after the import(s): module level, inside a function, both
            shape = rng.choice(['mod', 'fn', 'both', 'fn']) if (directed is None or 'shape' not in directed) else directed['shape']
            if form in ('try', 'if') or rng.random() < 0.85:
                if shape in ('fn', 'both'):
                    s = site()
                    P.emit(m, ['def show_%s():' % m])
                    P.emit(m, ['    return '] + expr(s))
                    P.emit(m, ['_r.append((%d, show_%s()))' % (s, m)])
                if shape in ('mod', 'both'):
                    use_stmts(m, expr, 1)
        # a parameter / a local of the same spelling: different variables
        r = rng.random()
        if r < 0.25:
            P.emit(m, ['def shade_%s(' % m, (X, ('p', m)), '):'])
            P.emit(m, ['    return ', (X, ('p', m))])
            P.emit(m, ['_r.append((%d, shade_%s(7)))' % (site(), m)])
        elif r < 0.4:
            P.emit(m, ['def local_%s():' % m])
            P.emit(m, ['    ', (X, ('l', m)), ' = 8'])
            P.emit(m, ['    return ', (X, ('l', m))])
            P.emit(m, ['_r.append((%d, local_%s()))' % (site(), m)])
    return P


def mm_directed():
    """try/if alternatives x reads inside either branch x joining read x module scan orders"""
    out = []
    for form in ('try', 'if'):
        for in1, in2 in ((1, 0), (0, 1), (1, 1), (0, 0)):
            for shape in ('fn', 'mod'):
                for order in (['qma', 'qmc', 'qmb'], ['qmc', 'qma', 'qmb'], ['qmb', 'qmc', 'qma']):
                    out.append(dict(form=form, in1=bool(in1), in2=bool(in2), join=True, shape=shape, order=order, nmod=3))
    return out


def _mm_run(d, mods):
    p = subprocess.run([common.PY, '-S', os.path.join(os.path.dirname(d), 'driver.py')] + mods, cwd=d, capture_output=True,
                       text=True, timeout=120, env={'PATH': os.environ.get('PATH', ''), 'PYTHONDONTWRITEBYTECODE': '1'})
    try:
        return json.loads(p.stdout)
    except Exception:
        return ['unparsable', p.stdout[-200:], p.stderr[-300:]]


def _mm_write(d, files):
    os.makedirs(d, exist_ok=True)
    for k, v in files.items():
        with open(os.path.join(d, k), 'w', newline='') as f:
            f.write(v)


_CAP = dict(on=False, in_def=0, found0=None, cands=None)


def _install_capture():
    """wrap _find_defining_names / _find_names (module globals looked up by find_references) to
    record, per get_references call, the start set and the name set of every scanned token"""
    from jedi.inference import references as R
    if getattr(R, '_c05_wrapped', False):
        return
    orig_names, orig_def = R._find_names, R._find_defining_names

    def key(n):
        t = n.tree_name
        if t is None:
            return ('obj', repr(n))
        try:
            mp = str(n.get_root_context().py__file__())
        except Exception:
            mp = None
        return (mp, t.start_pos[0], t.start_pos[1])

    def find_names(module_context, tree_name):
        r = orig_names(module_context, tree_name)
        if _CAP['on'] and not _CAP['in_def']:
            _CAP['cands'].append(sorted(set(key(n) for n in r), key=repr))
        return r

    def find_defining_names(module_context, tree_name):
        _CAP['in_def'] += 1
        try:
            r = orig_def(module_context, tree_name)
        finally:
            _CAP['in_def'] -= 1
        if _CAP['on']:
            _CAP['found0'] = sorted(set(key(n) for n in r), key=repr)
        return r
    R._find_names, R._find_defining_names = find_names, find_defining_names
    R._c05_wrapped = True


def _mm_task(arg):
    import jedi
    import pathlib
    _install_capture()
    base, idx, P = arg
    root = os.path.join(base, 'p%d' % idx)
    files = P.files()
    mods = sorted(m[:-3] for m in files)
    d0 = os.path.join(root, 'o')
    _mm_write(d0, files)
    with open(os.path.join(root, 'driver.py'), 'w') as f:
        f.write(DRIVER)
    X = P.name
    out = dict(files=files, name=X, flags=sorted(P.flags), toks=[], renames=[], kind=P.kind)
    trace0 = _mm_run(d0, mods)
    out['trace'] = trace0
    key = lambda t: (t['mod'] + '.py', t['line'], t['col'])
    comp = {}
    for t in P.toks:
        comp.setdefault(P.find(t['var']), []).append(key(t))
    # which definition did every recorded site read
    site_val = {}
    for m, status, rs in trace0:
        for s, v in rs:
            site_val.setdefault(s, set()).add(v)
    proj = jedi.Project(d0)
    scripts = {}

    def script_for(d, proj, fn, cache):
        if fn not in cache:
            path = os.path.join(d, fn)
            with open(path, newline='') as f:
                cache[fn] = jedi.Script(f.read(), path=path, project=proj)
        return cache[fn]

    def canon(res, d):
        r = []
        for x in res:
            mp = x.module_path
            rel = os.path.relpath(str(mp), d) if mp is not None else None
            r.append((rel, x.line, x.column))
        return sorted(set(r))

    seen = {}
    for ti, t in enumerate(P.toks):
        rec = dict(tok=key(t), expected=sorted(comp[P.find(t['var'])]))
        try:
            s = script_for(d0, proj, t['mod'] + '.py', scripts)
            _CAP.update(on=True, in_def=0, found0=None, cands=[])
            try:
                res = s.get_references(t['line'], t['col'])
            finally:
                _CAP['on'] = False
            rec['refs'] = canon(res, d0)
            rel = lambda k: (os.path.relpath(k[0], d0), k[1], k[2]) if k[0] not in ('obj', None) else tuple(k)
            rec['cap'] = dict(found0=[rel(k) for k in (_CAP['found0'] or [])], cands=[[rel(k) for k in c] for c in _CAP['cands']])
        except Exception as e:
            rec['exc'] = common.exc_sig(e)
            out['toks'].append(rec)
            continue
        out['toks'].append(rec)
        k = tuple(rec['refs'])
        if k in seen:
            continue
        seen[k] = ti
        # rename once per distinct reported set
        ren = dict(tok=key(t), refs=rec['refs'])
        out['renames'].append(ren)
        try:
            rf = s.rename(t['line'], t['col'], new_name=MM_NEW)
            changed = {os.path.relpath(str(pth), d0): cf.get_new_code() for pth, cf in rf.get_changed_files().items()}
            ren['file_renames'] = [(str(a), str(b)) for a, b in rf.get_renames()]
        except Exception as e:
            ren['exc'] = common.exc_sig(e)
            continue
        new_files = dict(files)
        new_files.update(changed)
        ren['new'] = {k2: v for k2, v in new_files.items() if v != files[k2]}
        # exactly the reported tokens changed?  splice them by hand
        want = {}
        for fn, code in files.items():
            ls = code.split('\n')
            for (rf_, ln, col) in sorted([r for r in rec['refs'] if r[0] == fn], reverse=True):
                row = ls[ln - 1]
                if row[col:col + len(X)] != X:
                    ren['not_a_token'] = (rf_, ln, col)
                ls[ln - 1] = row[:col] + MM_NEW + row[col + len(X):]
            want[fn] = '\n'.join(ls)
        ren['exact'] = want == new_files
        d1 = os.path.join(root, 'n%d' % ti)
        _mm_write(d1, new_files)
        ren['trace_new'] = _mm_run(d1, mods)
        ren['trace_equal'] = ren['trace_new'] == trace0
        # rename back in the rewritten project
        try:
            before = sum(1 for r in rec['refs'] if r[0] == t['mod'] + '.py' and r[1] == t['line'] and r[2] < t['col'])
            proj1 = jedi.Project(d1)
            s1 = script_for(d1, proj1, t['mod'] + '.py', {})
            rb = s1.rename(t['line'], t['col'] + before * (len(MM_NEW) - len(X)), new_name=X)
            back = dict(new_files)
            back.update({os.path.relpath(str(pth), d1): cf.get_new_code() for pth, cf in rb.get_changed_files().items()})
            ren['back_equal'] = back == files
            if not ren['back_equal']:
                ren['back'] = {k2: v for k2, v in back.items() if v != files.get(k2)}
        except Exception as e:
            ren['back_exc'] = common.exc_sig(e)
    # run-time denotation: a site that read definition D's sentinel must be in the set asked from D
    deno = []
    by_tok = {tuple(r['tok']): r for r in out['toks']}
    for t in P.toks:
        if t['site'] is None:
            continue
        for v in site_val.get(t['site'], ()):
            di = P.sentinel.get(v)
            if di is None:
                continue
            dr = by_tok.get(key(P.toks[di]))
            if dr is not None and 'refs' in dr and key(t) not in [tuple(r) for r in dr['refs']]:
                deno.append(dict(site=key(t), definition=key(P.toks[di]), value=v))
    out['denotes_missing'] = deno
    return out


MM_DEFS = """
Fixpoint sorted_ins (a : N) (l : list N) : list N :=
  match l with [] => [a] | b :: r => if N.leb a b then a :: l else b :: sorted_ins a r end.
Definition sortN (l : list N) := fold_right sorted_ins [] l.
Fixpoint uniq (l : list N) : list N :=
  match l with a :: ((b :: _) as r) => if N.eqb a b then uniq r else a :: uniq r | _ => l end.
(* the proved merge loop of Model/C05_Rename.v on the start set and candidate sets captured
   from the running find_references *)
Definition mm_predict (c : list N * list (list N)) : list N := uniq (sortN (find_refs (fst c) (snd c))).
"""


def _closure(found0, cands):
    """what a transitively closed merge would return (connected component of the start set)"""
    found = set(found0)
    todo = [set(c) for c in cands]
    changed = True
    while changed:
        changed = False
        rest = []
        for c in todo:
            if c & found:
                found |= c
                changed = True
            else:
                rest.append(c)
        todo = rest
    return found


def run_mm(ctx):
    base = os.path.join(ctx.tmp, 'mm')
    os.makedirs(base, exist_ok=True)
    projs = []
    directed = mm_directed()
    ctx.rng.shuffle(directed)
    for d in directed[:ctx.n(int(os.environ.get('C05_MMD', 30)), len(directed))]:
        projs.append(gen_project(ctx.rng, d))
    for _ in range(ctx.n(int(os.environ.get('C05_MM', 50)), 600)):
        projs.append(gen_project(ctx.rng))
    import time
    t0 = time.time()
    results = common.pmap(_mm_task, [(base, i, P) for i, P in enumerate(projs)], chunksize=2)
    t1 = time.time()
    stats = dict(projects=len(projs), tokens=0, renames=0, with_alternatives=0, flags={}, import_errors=0, sites_read=0,
                 merge_loop_cases=0, merge_loop_predicted=0, not_transitive=0)
    # --- the merge loop on the captured inputs (model) vs what find_references returned
    cases, cmeta = [], []
    for ri, r in enumerate(results):
        if not (isinstance(r['trace'], list) and all(isinstance(m, list) and len(m) == 3 for m in r['trace'])):
            raise RuntimeError('multi-module driver failed: %r' % (r['trace'],))
        for ti, t in enumerate(r['toks']):
            if 'cap' not in t:
                continue
            num = {}
            n_of = lambda k: num.setdefault(tuple(k), len(num) + 1)
            f0 = [n_of(k) for k in t['cap']['found0']]
            cs = [[n_of(k) for k in c] for c in t['cap']['cands']]
            obs = sorted(n_of(k) for k in t['refs'])
            cases.append('(%s, %s)' % (g_list(f0, g_N, 'N'), g_list(cs, lambda c: g_list(c, g_N, 'N'), 'list N')))
            cmeta.append((ri, ti, obs, num))
    pred, err = common.coq_eval_N_lists(IMPORTS, 'mm_predict', cases, shard=300, defs=MM_DEFS, timeout=1200)
    if err:
        raise RuntimeError('coq evaluation failed (merge loop): ' + err)
    stats['seconds'] = dict(projects=round(t1 - t0, 1), coq=round(time.time() - t1, 1))
    n_obl = 0
    for (ri, ti, obs, num), pl in zip(cmeta, pred):
        t = results[ri]['toks'][ti]
        inv = {v: k for k, v in num.items()}
        # names outside the project files (none in these projects) would not be reported as positions
        pl = [x for x in pl if inv[x][0] not in ('obj', None)]
        t['predicted'] = pl == obs
        t['model'] = [list(inv[x]) for x in pl]
        t['closed'] = sorted(k for k in _closure([tuple(k) for k in t['cap']['found0']], [[tuple(k) for k in c] for c in t['cap']['cands']])
                             if k[0] not in ('obj', None))
        stats['merge_loop_cases'] += 1
        stats['merge_loop_predicted'] += t['predicted']
        ctx.count('mm-merge-loop', (json.dumps(results[ri]['files'], sort_keys=True), tuple(t['tok'])), nontrivial=len(t['cap']['cands']) >= 2)
    for r in results:
        fl = r['flags']
        for f in fl:
            stats['flags'][f] = stats['flags'].get(f, 0) + 1
        stats['with_alternatives'] += any(('try:' in c or 'if flag' in c) for c in r['files'].values())
        stats['import_errors'] += sum(1 for m in r['trace'] if m[1] != 'ok')
        stats['sites_read'] += sum(len(m[2]) for m in r['trace'])
        where = dict(files=r['files'], name=r['name'])

        def reason_of(t):
            """model-computed class of a deviating answer: it must be exactly what the merge loop
            (Coq) returns on the captured inputs; then either a transitively closed merge of the
            same inputs gives the expected component (the loop's non-transitivity is the cause),
            or the generator marked the project (alternatives without a joining read / decided branch)"""
            if not t.get('predicted'):
                return 'not-the-merge-loop-answer'
            if [list(k) for k in t['closed']] == [list(e) for e in t['expected']]:
                return 'merge-not-transitive'
            return fl[0] if fl else 'none'
        prio = lambda rs: (sorted(rs, key=lambda x: (x != 'not-the-merge-loop-answer', x != 'none', x)) or ['none'])[0]
        sets, reasons = {}, {}
        by_tok = {}
        for t in r['toks']:
            stats['tokens'] += 1
            by_tok[tuple(t['tok'])] = t
            if 'exc' in t:
                ctx.deviation(dict(stream='mm', exc=t['exc']['exc'], site=t['exc']['site']), dict(error=t['exc'], token=t['tok'], **where),
                              'get_references raised in a multi-module project')
                continue
            ctx.count('mm-refs', (json.dumps(r['files'], sort_keys=True), tuple(t['tok'])), nontrivial=len(t['expected']) >= 2)
            exp = [list(e) for e in t['expected']]
            got = [list(e) for e in t['refs']]
            if got != exp:
                rs = reason_of(t)
                stats['not_transitive'] += rs == 'merge-not-transitive'
                reasons.setdefault(json.dumps(exp), []).append(rs)
                ctx.deviation(dict(stream='mm', cls='refs-differ-from-import-component', reason=rs),
                              dict(token=t['tok'], reported=got, expected=exp, merge_loop_model=t.get('model'), **where),
                              'get_references from %r reports %r; the occurrences linked to it by scoping and imports are %r' % (t['tok'], got, exp))
            elif not t.get('predicted'):
                n_obl += 1
                if n_obl <= 4:
                    ctx.violation('obligation', dict(what='correspondence merge_loop (Model/C05_Rename.v) on the start set and candidate sets captured from '
                                                          'find_references: model and implementation differ',
                                                     input=dict(token=t['tok'], reported=got, captured=t['cap'], **where), model=t.get('model')), nofail=True)
            sets.setdefault(json.dumps(exp), set()).add(json.dumps(got))
        for exp, gots in sets.items():
            if len(gots) > 1:
                ctx.deviation(dict(stream='mm', cls='not-a-partition', reason=prio(reasons.get(exp, []))),
                              dict(component=json.loads(exp), answers=[json.loads(g) for g in sorted(gots)], **where),
                              'get_references gives %d different answers depending on the member asked' % len(gots))
        for dm in r['denotes_missing']:
            ctx.deviation(dict(stream='mm', cls='runtime-reader-not-a-reference', reason=reason_of(by_tok[tuple(dm['definition'])])), dict(**dm, **where),
                          'the use at %r read the value of the definition at %r at run time but is not among its references' % (dm['site'], dm['definition']))
        for ren in r['renames']:
            stats['renames'] += 1
            ctx.count('mm-rename', (json.dumps(r['files'], sort_keys=True), tuple(ren['tok'])), nontrivial=len(ren['refs']) >= 2)
            w = dict(token=ren['tok'], references=ren['refs'], **where)
            rs = reason_of(by_tok[tuple(ren['tok'])])
            if 'exc' in ren:
                ctx.deviation(dict(stream='mm', exc=ren['exc']['exc'], site=ren['exc']['site']), dict(error=ren['exc'], **w), 'rename raised')
                continue
            if ren.get('file_renames'):
                ctx.deviation(dict(stream='mm', cls='unexpected-file-rename'), dict(renames=ren['file_renames'], **w),
                              'rename of a variable announces file renames')
            if not ren['exact']:
                ctx.deviation(dict(stream='mm', cls='rename-not-exactly-the-references'), dict(new=ren['new'], **w),
                              'rename changed something other than exactly the reported references')
            if not ren['trace_equal']:
                ctx.deviation(dict(stream='mm', cls='behaviour-changed', reason=rs), dict(new=ren['new'], old_trace=r['trace'], new_trace=ren['trace_new'], **w),
                              'the renamed project does not behave like the original')
            if 'back_exc' in ren:
                ctx.deviation(dict(stream='mm', exc=ren['back_exc']['exc'], site=ren['back_exc']['site'], reason=rs), dict(error=ren['back_exc'], **w),
                              'renaming back raised')
            elif not ren['back_equal']:
                ctx.deviation(dict(stream='mm', cls='roundtrip', reason=rs), dict(new=ren['new'], back=ren.get('back'), **w),
                              'renaming to a fresh name and back does not restore the original files')
    ctx.stat('multi_module', stats)
    for r in results[:1]:
        ctx.sample(dict(files=r['files'], name=r['name'], references=r['toks'][0].get('refs') if r['toks'] else None))


# ------------------------------------------------------------------ the check
def run(ctx):
    common.setup_jedi(os.path.join(ctx.tmp, 'cache'))
    ctx.proofs()
    ctx.cov['fingerprints'] = common.fingerprint(FP)
    ctx.cov['rule'] = ('programs of the C03 scope-tree language (exhaustive small prefix + seeded random, as in C03) plus the self-rebinding family '
                       '(x = [.. for v in x] etc.: every form x every place of the previous binding, and random mixes); a case = one identifier occurrence '
                       '(refs/predict/partition) or one rename of one variable (text/run); multi-module projects: a case = one token of the focus name '
                       '(mm-refs) or one rename (mm-rename); non-trivial = the reference set has >= 2 members; distinct by (program, occurrence)')
    ctx.assumptions += ['multi-module reference discovery is checked by oracles only (generator-computed import components, execution, round trip): the Coq language is single-module',
                        'file/package renames (renaming a module) are not generated here',
                        'protocol names and names reached through strings/getattr do not occur in the generated programs']
    run_mm(ctx)
    progs = list(itertools.islice(c03.enum_bodies(2, 2, ['a']), ctx.n(40000, 400000)))
    ctx.rng.shuffle(progs)
    progs = [('c03', p) for p in progs[:ctx.n(int(os.environ.get("C05_N", 150)), 6000)]]
    counter = [0]
    for _ in range(ctx.n(int(os.environ.get("C05_M", 120)), 4000)):
        progs.append(('c03', c03.rand_body(ctx.rng, ctx.rng.randint(1, 4), ctx.rng.randint(2, 5), ['a', 'b'], counter)))
    fam = rebind_family()
    if ctx.quick:
        ctx.rng.shuffle(fam)
        fam = fam[:int(os.environ.get("C05_F", 60))]
    progs += [('rb', p) for p in fam]
    for _ in range(ctx.n(int(os.environ.get("C05_R", 70)), 1500)):
        progs.append(('rb', rand_body2(ctx.rng, ctx.rng.randint(1, 3), ctx.rng.randint(2, 5), ['a', 'b'], counter)))
    results = common.pmap(_task, progs, chunksize=8)
    defs, rcases, rmeta, tcases, tmeta = [DEFS], [], [], [], []
    stats = dict(programs=0, skipped=0, occurrences=0, renames=0, trace_changed=0, rebind_programs=0, rebind_aborted=0)
    pi = 0
    for r in results:
        if 'skip' in r:
            stats['skipped'] += 1
            continue
        stats['programs'] += 1
        if r['fam'] == 'rb':
            stats['rebind_programs'] += 1
            stats['rebind_aborted'] += r['aborted']
        name = 'p%d' % pi
        pi += 1
        defs.append('Definition %s : program := %s.' % (name, r['gprog']))
        defs.append('Definition %s_params : list N := %s.' % (name, g_list(r['params'], g_N, 'N')))
        defs.append('Definition %s_ord : list N := %s.' % (name, g_list(r['order'], g_N, 'N')))
        defs.append('Definition %s_up : list N := %s.' % (name, g_list(r['up'], g_N, 'N')))
        defs.append('Definition %s_down : list N := %s.' % (name, g_list(r['down'], g_N, 'N')))
        for rec in r['occs']:
            stats['occurrences'] += 1
            where = dict(source=r['src'], occurrence=rec['id'], name=rec['name'], position=list(rec['pos']))
            if 'exc' in rec:
                ctx.deviation(dict(stream='refs', exc=rec['exc']['exc'], site=rec['exc']['site']), dict(error=rec['exc'], **where),
                              'get_references raised')
                continue
            ctx.count('refs', (r['src'], rec['id']), nontrivial=len(rec['refs']) >= 2)
            rcases.append('(%s, %s_params, %s_ord, %s_up, %s_down, %d%%N, %d%%N, %s)' % (name, name, name, name, name, rec['id'], IDS[rec['name']], g_list(rec['refs'], g_N, 'N')))
            rmeta.append(dict(refs=rec['refs'], prog=name, gprog=r['gprog'], params=r['params'], order=r['order'],
                              partition=rec.get('partition'), **where))
            if 'rename_exc' in rec:
                ctx.deviation(dict(stream='text', exc=rec['rename_exc']['exc'], site=rec['rename_exc']['site']),
                              dict(error=rec['rename_exc'], **where), 'rename raised')
            t = rec.get('text')
            if t:
                stats['renames'] += 1
                ctx.count('text', (r['src'], rec['id'], 'rename'), nontrivial=len(rec['refs']) >= 2)
                tcases.append('(%s, %s, %s, %s)' % (g_leaves(t['leaves']), g_str(NEW), g_str(t['new']), g_str(rec['name'])))
                tmeta.append(dict(idx=len(rmeta) - 1, new=t['new'], back=t.get('back'), back_exc=t.get('back_exc'),
                                  trace_equal=t['trace_equal'], renames=t['renames'], **where))
    ctx.stat('programs', stats)
    # --- one Coq evaluation per occurrence
    flags, err = common.coq_eval_N_lists(IMPORTS, 'chk_refs', rcases, shard=600, defs='\n'.join(defs), timeout=2400)
    if err:
        raise RuntimeError('coq evaluation failed (refs): ' + err)
    outside = {i for i, f in enumerate(flags) if not f[0]}
    unbound = {i for i, f in enumerate(flags) if not f[1]}
    failset = {i for i, f in enumerate(flags) if not f[2]}
    unpredicted = {i for i, f in enumerate(flags) if not f[5]}
    byocc = {(m['prog'], m['occurrence']): i for i, m in enumerate(rmeta)}
    # what the transcription predicts where it differs from the observation (for the reports)
    ul = sorted(unpredicted)
    pl, err = common.coq_eval_N_lists(IMPORTS, "(fun c => let '(p, params, ord, up, down, i, x, obs) := c in uniq (sortN (refs_j p params ord up down i)))",
                                      [rcases[i] for i in ul], shard=600, defs='\n'.join(defs), timeout=2400)
    if err:
        raise RuntimeError('coq evaluation failed (prediction): ' + err)
    predicted = dict(zip(ul, pl))

    def reason(i, also=()):
        """the model-computed class of the identifier; a class is claimed only if the answer
        (and the answers it is compared with) is exactly what the transcription of
        find_references predicts"""
        f = flags[i]
        cls = ('outside-c03-fragment' if not f[0] else 'late-bound-use' if f[3] else
               'parameter-rebound' if f[4] else 'none')
        if cls != 'none' and (i in unpredicted or any(j in unpredicted for j in also if j is not None)):
            return 'not-the-predicted-answer(%s)' % cls
        return cls
    stats['occurrences_of_unbound_names'] = len(unbound)
    stats['occurrences_outside_fragment'] = len(outside)
    n_obl = 0
    for i, m in enumerate(rmeta):
        ctx.count('predict', (m['source'], m['occurrence']), nontrivial=len(m['refs']) >= 2)
        if i in unpredicted and not (i in failset and i not in unbound):
            # the transcription of find_references and the implementation disagree on an answer that
            # satisfies the specification (or concerns a name bound nowhere)
            n_obl += 1
            if n_obl <= 6:
                ctx.violation('obligation', dict(what='correspondence refs_j (transcription of find_references over jedi_goto): model and implementation differ',
                                                 input=dict(source=m['source'], occurrence=m['occurrence'], position=m['position'], reported=m['refs'], program=m['gprog']),
                                                 model=predicted[i]), nofail=True)
        if i in unbound:
            continue   # a name that is bound nowhere has no definition to collect references for
        if i in failset:
            ctx.deviation(dict(stream='refs', cls='refs-differ-from-python-variable', reason=reason(i)),
                          dict(source=m['source'], occurrence=m['occurrence'], name=m['name'], position=m['position'], reported=m['refs'],
                               transcription_predicts=predicted.get(i, m['refs'])),
                          'get_references from occurrence #%d reports %r, which is not the set of occurrences of that variable' % (m['occurrence'], m['refs']))
        if m['partition']:
            ctx.deviation(dict(stream='partition', cls='not-a-partition', reason=reason(i, [byocc.get((m['prog'], m['partition']['member']))])),
                          dict(source=m['source'], occurrence=m['occurrence'], position=m['position'], reported=m['refs'], **m['partition']),
                          'get_references from #%d gives %r but from its member #%d gives %r' % (
                              m['occurrence'], m['refs'], m['partition']['member'], m['partition']['other']))
    stats['predicted_exactly'] = len(rmeta) - len(unpredicted)
    # --- rename text vs model, round trip, behaviour
    tf, err = common.coq_failing(IMPORTS, 'chk_text', tcases, shard=150, defs=DEFS, timeout=2400)
    if err:
        raise RuntimeError('coq evaluation failed (text): ' + err)
    tfs = set(tf)
    for k, m in enumerate(tmeta):
        if m['idx'] in unbound:
            continue
        refs_ok = m['idx'] not in failset
        if k in tfs:
            ctx.deviation(dict(stream='text', cls='rename-not-exactly-the-references'),
                          dict(source=m['source'], occurrence=m['occurrence'], position=m['position'], new_code=m['new']),
                          'rename changed something other than exactly the value bytes of the reported references')
        if m['renames']:
            ctx.deviation(dict(stream='text', cls='unexpected-file-rename'), dict(source=m['source'], renames=m['renames']),
                          'rename of a variable announces file renames')
        if m['back_exc']:
            ctx.deviation(dict(stream='text', exc=m['back_exc']['exc'], site=m['back_exc']['site'], reason=reason(m['idx'])),
                          dict(source=m['source'], occurrence=m['occurrence'], position=m['position'], error=m['back_exc']), 'renaming back raised')
        elif m['back'] is not None and m['back'] != m['source']:
            ctx.deviation(dict(stream='text', cls='roundtrip', reason=reason(m['idx']), refs_are_variable=refs_ok),
                          dict(source=m['source'], occurrence=m['occurrence'], position=m['position'], new_code=m['new'], back=m['back']),
                          'renaming to a fresh name and back does not restore the original text')
        if not m['trace_equal']:
            stats['trace_changed'] += 1
            ctx.deviation(dict(stream='run', cls='behaviour-changed', reason=reason(m['idx']), refs_are_variable=refs_ok),
                          dict(source=m['source'], occurrence=m['occurrence'], position=m['position'], new_code=m['new']),
                          'the renamed program does not behave like the original')
    ctx.stat('programs', stats)
    for m in rmeta[:2]:
        ctx.sample(dict(source=m['source'], occurrence=m['occurrence'], references=m['refs']))
    for m in tmeta[:1]:
        ctx.sample(dict(source=m['source'], occurrence=m['occurrence'], renamed=m['new']))


def replay(ctx, path):
    """re-run the recorded case against the implementation and print what it answers now"""
    rec = json.load(open(path))
    print(json.dumps({k: v for k, v in rec.items() if k not in ('files', 'source', 'input')}, indent=1)[:3000])
    jedi = common.setup_jedi(os.path.join(ctx.tmp, 'cache'))
    case = rec.get('input') if isinstance(rec.get('input'), dict) else rec
    if 'files' in case:
        d = os.path.join(ctx.tmp, 'replay')
        _mm_write(d, case['files'])
        for fn, code in sorted(case['files'].items()):
            print('--- %s\n%s' % (fn, code))
        tok = case.get('token')
        if tok:
            p = os.path.join(d, tok[0])
            s = jedi.Script(open(p).read(), path=p, project=jedi.Project(d))
            now = sorted((os.path.relpath(str(x.module_path), d), x.line, x.column) for x in s.get_references(tok[1], tok[2]))
            print('get_references from %r now:' % (tok,), now)
            print('recorded :', case.get('reported') or case.get('references'))
            print('expected :', case.get('expected'))
    elif 'source' in case:
        print(case['source'])
        pos = case.get('position')
        if pos:
            s = jedi.Script(case['source'])
            print('get_references from %r now (line, column):' % (pos,), sorted((x.line, x.column) for x in s.get_references(*pos)))
            print('recorded occurrence ids :', case.get('reported'), ' transcription predicts:', case.get('transcription_predicts', rec.get('model')))
            try:
                print('rename to %s:\n%s' % (NEW, s.rename(*pos, new_name=NEW).get_changed_files()[None].get_new_code()))
            except Exception as e:
                print('rename raised %r' % (e,))
    return 0
