"""C05 — rename rewrites exactly the references and preserves behaviour.

On programs of the C03 scope-tree language (executable, every binding assigns a unique value,
every use records what it read):
  refs      Script.get_references from every occurrence vs the Coq specification refs_ids
            (same identifier AND same variable by Python's scoping: py_scope/bind_scope)
  partition asking from every reported occurrence yields the same set
  text      Script.rename(new): changed text vs the Coq model rename_text on the file's leaves
            with exactly the reported references selected; renaming back restores the bytes
  run       old and renamed program are executed: same trace
"""
import json
import os
import itertools

import common
import c03
from common import g_str, g_list, g_N, g_bool

IMPORTS = 'From JV Require Import Base.Str Model.C03_Resolve Model.C05_Rename.\n'
FP = [('jedi/api/refactoring/__init__.py', 'rename'), ('jedi/inference/references.py', 'find_references'),
      ('jedi/inference/references.py', '_find_defining_names'), ('jedi/inference/references.py', '_find_names'),
      ('jedi/inference/references.py', '_add_names_in_same_context'), ('jedi/inference/references.py', '_find_global_variables')]

DEFS = c03.DEFS + '''
Fixpoint sorted_ins (a : N) (l : list N) : list N :=
  match l with [] => [a] | b :: r => if N.leb a b then a :: l else b :: sorted_ins a r end.
Definition sortN (l : list N) := fold_right sorted_ins [] l.
Definition b2n (b : bool) : N := if b then 1%N else 0%N.
Definition has_bind (p : program) (ids : list N) : bool :=
  existsb (fun id => match find_occ id (occs_of p) with
                     | Some (o, _) => role_eqb (o_role o) Bind | None => false end) ids.
Definition owner_of (oc : occ * chain) : N := owner_sid (snd oc) (fst oc).
(* some use of the variable precedes every binding of it (late-bound / loop-carried) *)
Definition late_bound (p : program) (x : N) : bool :=
  let all := occs_of p in
  existsb (fun u => N.eqb (o_name (fst u)) x && role_eqb (o_role (fst u)) Use && negb (N.eqb (owner_of u) 0) &&
                    existsb (fun b => N.eqb (o_name (fst b)) x && role_eqb (o_role (fst b)) Bind && N.eqb (owner_of b) (owner_of u)) all &&
                    negb (existsb (fun b => N.eqb (o_name (fst b)) x && role_eqb (o_role (fst b)) Bind &&
                                            N.eqb (owner_of b) (owner_of u) && N.ltb (o_id (fst b)) (o_id (fst u))) all)) all.
(* a parameter that is assigned again in the body of its function *)
Definition param_rebound (p : program) (x : N) (params : list N) : bool :=
  let all := occs_of p in
  existsb (fun a => N.eqb (o_name (fst a)) x && memN (o_id (fst a)) params &&
                    existsb (fun b => N.eqb (o_name (fst b)) x && role_eqb (o_role (fst b)) Bind &&
                                      negb (memN (o_id (fst b)) params) && N.eqb (owner_of b) (owner_of a)) all) all.
(* program, parameter ids, occurrence id, identifier, observed reference ids (sorted) ->
   [identifier inside the C03 fragment; the variable has a binding; observed = specification;
    late-bound use of the identifier; rebound parameter] *)
Definition chk_refs (c : program * list N * N * N * list N) : list N :=
  let '(p, params, i, x, obs) := c in
  let spec := refs_ids p i in
  [b2n (name_in_fragment p x); b2n (has_bind p spec); b2n (nl_eqb (sortN spec) obs);
   b2n (late_bound p x); b2n (param_rebound p x params)].
Definition mkleaf (pv : str * str * bool) : leaf :=
  let '(p, v, s) := pv in {| l_prefix := p; l_value := v; l_sel := s |}.
(* leaves (prefix, value, selected), new name, observed new text, old name *)
Definition chk_text (c : list (str * str * bool) * str * str * str) : bool :=
  let '(ls, new, obs, old) := c in
  str_eqb (rename_text new (map mkleaf ls)) obs &&
  str_eqb (rename_text old (map (rename_leaf new) (map mkleaf ls))) (code_of (map mkleaf ls)).
'''

NEW = 'zq9'


def run_trace(src):
    g = {}
    try:
        exec(compile(src, '<prog>', 'exec'), g)
    except SyntaxError:
        return 'SyntaxError'
    except Exception as e:
        return g.get('_r', []) + [('EXC', type(e).__name__)]
    return g.get('_r', [])


def _task(prog):
    import jedi
    import parso
    try:
        p, src = c03.build(prog)
        compile(src, '<prog>', 'exec')
    except SyntaxError:
        return dict(skip='syntax')
    except Exception as e:
        return dict(skip=repr(e))
    trace = run_trace(src)
    pos2occ = {(o.line, o.col): o for o in p.occs}
    out = dict(src=src, gprog=c03.g_prog(p.scopes[0]), occs=[], names={},
               params=[o.oid for o in p.occs if o.how == 'param'])
    script = jedi.Script(src)
    cache = {}
    backs = []

    def refs_from(o):
        if o.oid in cache:
            return cache[o.oid]
        try:
            res = script.get_references(o.line, o.col)
            ids = []
            for d in res:
                q = pos2occ.get((d.line, d.column))
                ids.append(q.oid if q is not None and d.module_path is None and d.name == q.name else 0)
            r = sorted(set(ids))
        except Exception as e:
            r = dict(exc=common.exc_sig(e))
        cache[o.oid] = r
        return r

    # leaves of the file for the text model
    leaves = []
    leaf = parso.parse(src).get_first_leaf()
    while leaf is not None:
        leaves.append((leaf.prefix, leaf.value, leaf.start_pos))
        leaf = leaf.get_next_leaf()
    for o in p.occs:
        if o.name == 'v':
            continue
        rec = dict(id=o.oid, name=o.name)
        r = refs_from(o)
        if isinstance(r, dict):
            rec['exc'] = r['exc']
            out['occs'].append(rec)
            continue
        rec['refs'] = r
        # partition: same answer from every member
        for i in r:
            if i and i != o.oid:
                r2 = refs_from(next(q for q in p.occs if q.oid == i))
                if r2 != r:
                    rec['partition'] = dict(member=i, other=r2)
                    break
        # rename (once per distinct reference set)
        key = tuple(r)
        if key not in out['names'] and 0 not in r and r:
            out['names'][key] = True
            try:
                ref = script.rename(o.line, o.col, new_name=NEW)
                files = ref.get_changed_files()
                new_code = files[None].get_new_code() if None in files else src
                sel = {(q.line, q.col) for q in p.occs if q.oid in set(r)}
                rec['text'] = dict(new=new_code,
                                   leaves=[(pr, v, (sp in sel)) for (pr, v, sp) in leaves],
                                   renames=[(str(a), str(b)) for a, b in ref.get_renames()])
                backs.append((rec, o, new_code))
            except Exception as e:
                rec['rename_exc'] = common.exc_sig(e)
        out['occs'].append(rec)
    # renaming back and running happen only now: a new path-less Script re-parses incrementally
    # and thereby invalidates the tree of the Script used above
    for rec, o, new_code in backs:
        try:
            s2 = jedi.Script(new_code)
            back = s2.rename(o.line, o.col, new_name=o.name).get_changed_files()
            rec['text']['back'] = back[None].get_new_code() if None in back else new_code
        except Exception as e:
            rec['text']['back_exc'] = common.exc_sig(e)
        rec['text']['trace_equal'] = run_trace(new_code) == trace
    return out


def g_leaves(ls):
    return g_list(ls, lambda t: '(%s, %s, %s)' % (g_str(t[0]), g_str(t[1]), g_bool(t[2])), 'str * str * bool')


def run(ctx):
    common.setup_jedi(os.path.join(ctx.tmp, 'cache'))
    ctx.proofs()
    ctx.cov['fingerprints'] = common.fingerprint(FP)
    ctx.cov['rule'] = ('programs of the C03 scope-tree language (exhaustive small prefix + seeded random, as in C03); a case = one identifier occurrence '
                       '(refs/partition) or one rename of one variable (text/run); non-trivial = the reference set has >= 2 members; distinct by (program, occurrence)')
    ctx.assumptions += ['cross-module reference discovery and file/package renames are not part of the modelled language (single-module programs)',
                        'protocol names and names reached through strings/getattr do not occur in the generated programs']
    progs = list(itertools.islice(c03.enum_bodies(2, 2, ['a']), ctx.n(40000, 400000)))
    ctx.rng.shuffle(progs)
    progs = progs[:ctx.n(int(os.environ.get("C05_N", 150)), 6000)]
    counter = [0]
    for _ in range(ctx.n(int(os.environ.get("C05_M", 120)), 4000)):
        progs.append(c03.rand_body(ctx.rng, ctx.rng.randint(1, 4), ctx.rng.randint(2, 5), ['a', 'b'], counter))
    results = common.pmap(_task, progs, chunksize=8)
    defs, rcases, rmeta, tcases, tmeta, fcases = [DEFS], [], [], [], [], []
    stats = dict(programs=0, skipped=0, occurrences=0, renames=0, trace_changed=0)
    pi = 0
    for r in results:
        if 'skip' in r:
            stats['skipped'] += 1
            continue
        stats['programs'] += 1
        name = 'p%d' % pi
        pi += 1
        defs.append('Definition %s : program := %s.' % (name, r['gprog']))
        defs.append('Definition %s_params : list N := %s.' % (name, g_list(r['params'], g_N, 'N')))
        for rec in r['occs']:
            stats['occurrences'] += 1
            where = dict(source=r['src'], occurrence=rec['id'], name=rec['name'])
            if 'exc' in rec:
                ctx.deviation(dict(stream='refs', exc=rec['exc']['exc'], site=rec['exc']['site']), dict(error=rec['exc'], **where),
                              'get_references raised')
                continue
            ctx.count('refs', (r['src'], rec['id']), nontrivial=len(rec['refs']) >= 2)
            rcases.append('(%s, %s_params, %d%%N, %d%%N, %s)' % (name, name, rec['id'], c03.IDS[rec['name']], g_list(rec['refs'], g_N, 'N')))
            rmeta.append(dict(refs=rec['refs'], prog=name, partition=rec.get('partition'), **where))
            if 'rename_exc' in rec:
                ctx.deviation(dict(stream='text', exc=rec['rename_exc']['exc'], site=rec['rename_exc']['site']),
                              dict(error=rec['rename_exc'], **where), 'rename raised')
            t = rec.get('text')
            if t:
                stats['renames'] += 1
                ctx.count('text', (r['src'], rec['id'], 'rename'), nontrivial=len(rec['refs']) >= 2)
                tcases.append('(%s, %s, %s, %s)' % (g_leaves(t['leaves']), g_str(NEW), g_str(t['new']), g_str(rec['name'])))
                tmeta.append(dict(idx=len(rmeta) - 1, new=t['new'], back=t.get('back'), back_exc=t.get('back_exc'),
                                  trace_equal=t['trace_equal'], renames=t['renames'], **where))
    ctx.stat('programs', stats)
    # --- one Coq evaluation per occurrence: [inside the C03 fragment; variable has a binding; refs = spec]
    flags, err = common.coq_eval_N_lists(IMPORTS, 'chk_refs', rcases, shard=800, defs='\n'.join(defs), timeout=2400)
    if err:
        raise RuntimeError('coq evaluation failed (refs): ' + err)
    outside = {i for i, f in enumerate(flags) if not f[0]}
    unbound = {i for i, f in enumerate(flags) if not f[1]}
    failset = {i for i, f in enumerate(flags) if not f[2]}

    def reason(i):
        f = flags[i]
        return ('outside-c03-fragment' if not f[0] else 'late-bound-use' if f[3] else
                'parameter-rebound' if f[4] else 'none')
    stats['occurrences_of_unbound_names'] = len(unbound)
    n_out = 0
    for i, m in enumerate(rmeta):
        infrag = i not in outside
        n_out += (not infrag)
        if i in unbound:
            continue   # a name that is bound nowhere has no definition to collect references for
        if i in failset:
            spec = None
            ctx.deviation(dict(stream='refs', cls='refs-differ-from-python-variable', reason=reason(m['idx'] if 'idx' in m else i)),
                          dict(source=m['source'], occurrence=m['occurrence'], name=m['name'], reported=m['refs'], spec=spec),
                          'get_references from occurrence #%d reports %r, which is not the set of occurrences of that variable' % (m['occurrence'], m['refs']))
        if m['partition']:
            ctx.deviation(dict(stream='partition', cls='not-a-partition', reason=reason(m['idx'] if 'idx' in m else i)),
                          dict(source=m['source'], occurrence=m['occurrence'], reported=m['refs'], **m['partition']),
                          'get_references from #%d gives %r but from its member #%d gives %r' % (
                              m['occurrence'], m['refs'], m['partition']['member'], m['partition']['other']))
    stats['occurrences_outside_fragment'] = n_out
    # --- rename text vs model, round trip, behaviour
    tf, err = common.coq_failing(IMPORTS, 'chk_text', tcases, shard=150, defs=DEFS, timeout=2400)
    if err:
        raise RuntimeError('coq evaluation failed (text): ' + err)
    tfs = set(tf)
    for k, m in enumerate(tmeta):
        if m['idx'] in unbound:
            continue
        infrag = m['idx'] not in outside
        refs_ok = m['idx'] not in failset
        if k in tfs:
            ctx.deviation(dict(stream='text', cls='rename-not-exactly-the-references'),
                          dict(source=m['source'], occurrence=m['occurrence'], new_code=m['new']),
                          'rename changed something other than exactly the value bytes of the reported references')
        if m['renames']:
            ctx.deviation(dict(stream='text', cls='unexpected-file-rename'), dict(source=m['source'], renames=m['renames']),
                          'rename of a variable announces file renames')
        if m['back_exc']:
            ctx.deviation(dict(stream='text', exc=m['back_exc']['exc'], site=m['back_exc']['site'], reason=reason(m['idx'] if 'idx' in m else i)),
                          dict(source=m['source'], occurrence=m['occurrence'], error=m['back_exc']), 'renaming back raised')
        elif m['back'] is not None and m['back'] != m['source']:
            ctx.deviation(dict(stream='text', cls='roundtrip', reason=reason(m['idx']), refs_are_variable=refs_ok),
                          dict(source=m['source'], occurrence=m['occurrence'], new_code=m['new'], back=m['back']),
                          'renaming to a fresh name and back does not restore the original text')
        if not m['trace_equal']:
            stats['trace_changed'] += 1
            ctx.deviation(dict(stream='run', cls='behaviour-changed', reason=reason(m['idx']), refs_are_variable=refs_ok),
                          dict(source=m['source'], occurrence=m['occurrence'], new_code=m['new']),
                          'the renamed program does not behave like the original')
    ctx.stat('programs', stats)
    for m in rmeta[:2]:
        ctx.sample(dict(source=m['source'], occurrence=m['occurrence'], references=m['refs']))
    for m in tmeta[:1]:
        ctx.sample(dict(source=m['source'], occurrence=m['occurrence'], renamed=m['new']))


def replay(ctx, path):
    rec = json.load(open(path))
    print(json.dumps(rec, indent=1)[:3000])
    return 0
