"""C03 — name resolution follows Python's scoping rules.

A scope-tree language (bind/use/global/nonlocal/def/class/lambda/comprehension/for) is
enumerated exhaustively at small sizes and sampled at larger ones.  Each program is printed
so that every binding assigns its own occurrence id and every use records (use id, value).
  python   CPython executes it: the value read at a use IS the binding Python took; the Coq
           model of Python's scoping (py_scope/bind_scope) must put both in the same scope
  goto     Script.goto at every executed use vs the Coq transcription jedi_goto
  oracle   the property itself on the implementation: every returned definition has the
           same identifier and belongs to the scope of the observed binding (or is a
           global/nonlocal declaration); straight-line code -> exactly the observed binding
"""
import itertools
import json
import os
import re

import common

IMPORTS = 'From JV Require Import Model.C03_Resolve.\n'
FP = [('jedi/inference/context.py', 'get_global_filters'),
      ('jedi/inference/context.py', 'AbstractContext.goto'),
      ('jedi/inference/filters.py', 'ParserTreeFilter._filter'),
      ('jedi/inference/filters.py', 'ParserTreeFilter._is_name_reachable'),
      ('jedi/inference/filters.py', 'ParserTreeFilter._check_flows'),
      ('jedi/inference/filters.py', 'GlobalNameFilter'),
      ('jedi/inference/names.py', 'AbstractTreeName.goto'),
      ('jedi/parser_utils.py', 'get_parent_scope')]

FUNCLIKE = ('def', 'lam', 'comp')
IDS = {'a': 1, 'b': 2, 'v': 3}


class Occ:
    __slots__ = ('oid', 'name', 'role', 'scope', 'line', 'col', 'how', 'stmt_loop')

    def __init__(self, oid, name, role, scope, how=None):
        self.oid, self.name, self.role, self.scope, self.how = oid, name, role, scope, how
        self.line = self.col = None
        self.stmt_loop = False


class Scope:
    def __init__(self, sid, kind, parent):
        self.sid, self.kind, self.parent = sid, kind, parent
        self.occs, self.items = [], []   # own occurrences; items in textual order (Occ | Scope)
        self.globals_, self.nonlocals = set(), set()

    def bound(self, x):
        return any(o.role == 'bind' and o.name == x for o in self.occs)


class Printer:
    """program tree -> python text, occurrence table with positions, scope tree"""

    def __init__(self):
        self.lines, self.occs, self.scopes = [], [], []
        self.n = 0
        self.in_loop = 0

    def new_scope(self, kind, parent):
        s = Scope(len(self.scopes), kind, parent)
        self.scopes.append(s)
        if parent is not None:
            parent.items.append(s)
        return s

    def occ(self, name, role, scope, how=None):
        self.n += 1
        o = Occ(self.n, name, role, scope, how)
        o.stmt_loop = self.in_loop > 0
        self.occs.append(o)
        scope.occs.append(o)
        scope.items.append(o)
        return o

    def emit(self, indent, parts):
        line = ' ' * indent
        for p in parts:
            if isinstance(p, tuple):
                text, o = p
                o.line, o.col = len(self.lines) + 1, len(line)
                line += text
            else:
                line += p
        self.lines.append(line)

    def body(self, stmts, scope, indent):
        if not stmts:
            self.emit(indent, ['pass'])
        for st in stmts:
            self.stmt(st, scope, indent)

    def stmt(self, st, scope, indent):
        k = st[0]
        if k == 'bind':
            o = self.occ(st[1], 'bind', scope, 'assign')
            self.emit(indent, [(st[1], o), ' = %d' % o.oid])
        elif k == 'use':
            o = self.occ(st[1], 'use', scope)
            self.emit(indent, ['try: _r.append((%d, ' % o.oid, (st[1], o), '))'])
            self.emit(indent, ['except NameError: pass'])
        elif k == 'global':
            o = self.occ(st[1], 'declg', scope, 'global')
            scope.globals_.add(st[1])
            self.emit(indent, ['global ', (st[1], o)])
        elif k == 'nonlocal':
            o = self.occ(st[1], 'decln', scope, 'nonlocal')
            scope.nonlocals.add(st[1])
            self.emit(indent, ['nonlocal ', (st[1], o)])
        elif k == 'def':
            _, fname, params, body = st
            inner = self.new_scope('def', scope)
            parts = ['def %s(' % fname]
            saved, self.in_loop = self.in_loop, 0
            for i, p in enumerate(params):
                o = self.occ(p, 'bind', inner, 'param')
                if i:
                    parts.append(', ')
                parts += [(p, o), '=%d' % o.oid]
            parts.append('):')
            self.emit(indent, parts)
            self.body(body, inner, indent + 4)
            self.in_loop = saved
            self.emit(indent, ['%s()' % fname])
            return ('call', fname, indent)
        elif k == 'class':
            _, cname, body = st
            inner = self.new_scope('class', scope)
            saved, self.in_loop = self.in_loop, 0
            self.emit(indent, ['class %s:' % cname])
            self.body(body, inner, indent + 4)
            self.in_loop = saved
        elif k == 'lam':
            inner = self.new_scope('lam', scope)
            o = self.occ(st[1], 'use', inner)
            self.emit(indent, ['try: (lambda: _r.append((%d, ' % o.oid, (st[1], o), ')))()'])
            self.emit(indent, ['except NameError: pass'])
        elif k == 'comp':
            _, x, var = st
            inner = self.new_scope('comp', scope)
            ou = self.occ(x, 'use', inner)
            ov = self.occ(var, 'bind', inner, 'compfor')
            self.emit(indent, ['try: [_r.append((%d, ' % ou.oid, (x, ou), ')) for ', (var, ov), ' in (%d,)]' % ov.oid])
            self.emit(indent, ['except NameError: pass'])
        elif k == 'for':
            _, var, body = st
            o = self.occ(var, 'bind', scope, 'for')
            self.emit(indent, ['for ', (var, o), ' in (%d, %d):' % (o.oid, o.oid)])
            self.in_loop += 1
            self.body(body, scope, indent + 4)
            self.in_loop -= 1
        else:
            raise ValueError(st)


def build(prog):
    p = Printer()
    mod = p.new_scope('module', None)
    p.lines.append('_r = []')
    calls = []
    for st in prog:
        r = p.stmt(st, mod, 0)
        if r:
            calls.append(r)
    for _, fname, indent in calls:      # call module-level functions once more at the end
        p.emit(indent, ['%s()' % fname])
    return p, '\n'.join(p.lines) + '\n'


# -------------------------------------------------------- python-side scope owner (for the oracle)
def efb_nonlocal(x, t):
    while t is not None:
        if t.kind in FUNCLIKE and x not in t.globals_ and x not in t.nonlocals and t.bound(x):
            return t
        t = t.parent
    return None


def binding_scope(p, b):
    x, s = b.name, b.scope
    if s.kind == 'module' or x in s.globals_:
        return p.scopes[0]
    if x in s.nonlocals:
        return efb_nonlocal(x, s.parent)
    return s


def jedi_parent(s):
    t = s.parent
    if s.kind in ('def', 'lam'):
        while t is not None and t.kind == 'class':
            t = t.parent
    return t


def classify(p, u, b):
    """label of the known divergence shapes (DESIGN §C03 F1..F5); b = the binding Python took"""
    s, x = u.scope, u.name
    sc = binding_scope(p, b)
    # F5: a scope on the way out declares the name global while a function further out binds it
    t = s
    while t is not None:
        if x in t.globals_:
            e = t.parent
            while e is not None:
                if e.kind in FUNCLIKE and e.bound(x):
                    return 'F5-global-under-binding-function'
                e = e.parent
        t = t.parent
    # F1: every binding of the variable (in the scope that owns it) comes textually after the use
    # (loop-carried / late-bound): goto only looks before the use and falls outward or finds nothing
    if sc is not None and \
            not any(o.role == 'bind' and o.name == x and o.oid < u.oid and binding_scope(p, o) is sc for o in p.occs):
        return 'F1-late-local'
    crossed = []
    tt = s
    while tt is not None:
        par = jedi_parent(tt)
        if par is not None and par.kind == 'class':
            crossed.append(par)
        tt = par
    if s.kind == 'class' and any(c.bound(x) for c in crossed):
        return 'F4-nested-class-sees-outer-class'
    if any(c.bound(x) for c in crossed):
        return 'F2-comp-sees-class'
    if s.kind == 'class' and s.bound(x):
        return 'F3-class-loadname'
    return 'other'


# -------------------------------------------------------- generators
def enum_bodies(depth, size, ids):
    atoms = []
    for x in ids:
        atoms += [('bind', x), ('use', x), ('lam', x), ('comp', x, 'v'), ('comp', x, x), ('global', x), ('nonlocal', x)]

    def stmts(d):
        yield from atoms
        if d > 0:
            for b in bodies(d - 1, 2):
                yield ('def', 'f%d' % d, [], b)
                yield ('class', 'C%d' % d, b)
                yield ('for', ids[0], b)
            for b in bodies(d - 1, 1):
                yield ('def', 'f%d' % d, [ids[0]], b)

    def bodies(d, n):
        if n == 0:
            yield []
            return
        for k in range(1, n + 1):
            for combo in itertools.product(list(stmts(d)), repeat=k):
                yield list(combo)
    return bodies(depth, size)


def rand_body(rng, depth, maxlen, ids, counter):
    out = []
    for _ in range(rng.randint(1, maxlen)):
        x = rng.choice(ids)
        r = rng.random()
        if depth > 0 and r < 0.34:
            counter[0] += 1
            k = rng.choice(['def', 'def', 'class', 'for', 'defp'])
            b = rand_body(rng, depth - 1, max(1, maxlen - 1), ids, counter)
            if k == 'def':
                out.append(('def', 'f%d' % counter[0], [], b))
            elif k == 'defp':
                out.append(('def', 'f%d' % counter[0], rng.sample(ids, rng.randint(1, len(ids))), b))
            elif k == 'class':
                out.append(('class', 'C%d' % counter[0], b))
            else:
                out.append(('for', x, b))
        elif r < 0.52:
            out.append(('bind', x))
        elif r < 0.76:
            out.append(('use', x))
        elif r < 0.82:
            out.append(('lam', x))
        elif r < 0.90:
            out.append(('comp', x, rng.choice(ids + ['v'])))
        elif r < 0.95:
            out.append(('global', x))
        else:
            out.append(('nonlocal', x))
    return out


def chain_programs(ids=('a',)):
    """systematic family: a chain of nested def/class scopes (length 1..3), the innermost holding a
    use / lambda / comprehension of the name, every level (module included) binding the name
    before the nested scope, after it, or not at all"""
    x = ids[0]
    out = []
    for k in (1, 2, 3):
        for kinds in itertools.product(('def', 'class'), repeat=k):
            for leaf in (('use', x), ('lam', x), ('comp', x, 'v')):
                for binds in itertools.product((0, 1, 2), repeat=k + 1):
                    def build_level(i):
                        if i == k:
                            inner = [leaf]
                        else:
                            body = build_level(i + 1)
                            inner = [('def', 'g%d' % i, [], body)] if kinds[i] == 'def' else [('class', 'K%d' % i, body)]
                        b = binds[i]
                        return ([('bind', x)] if b == 1 else []) + inner + ([('bind', x)] if b == 2 else [])
                    out.append(build_level(0))
    return out


# -------------------------------------------------------- running
def g_prog(scope):
    parts = []
    for it in scope.items:
        if isinstance(it, Occ):
            c = {'bind': 'B', 'use': 'U', 'declg': 'G', 'decln': 'NL'}[it.role]
            parts.append('%s %d %d' % (c, it.oid, IDS[it.name]))
        else:
            k = {'def': 'Def', 'lam': 'Lam', 'comp': 'Comp', 'class': 'Class'}[it.kind]
            parts.append('Sub %s %d %s' % (k, it.sid, g_prog(it)))
    return '[' + '; '.join(parts) + ']' if parts else '(@nil item)'


DEFS = '''
Definition B (i n : N) := Occ {| o_id := i; o_name := n; o_role := Bind |}.
Definition U (i n : N) := Occ {| o_id := i; o_name := n; o_role := Use |}.
Definition G (i n : N) := Occ {| o_id := i; o_name := n; o_role := DeclG |}.
Definition NL (i n : N) := Occ {| o_id := i; o_name := n; o_role := DeclN |}.
Fixpoint nl_eqb (a b : list N) : bool :=
  match a, b with [], [] => true | x :: a', y :: b' => N.eqb x y && nl_eqb a' b' | _, _ => false end.
(* case: program, use id, goto result ids (sorted by position), observed binding id (0 = none) *)
Definition chk (c : program * N * list N * N) : bool :=
  let '(p, u, js, b) := c in
  nl_eqb (goto_ids p u) js &&
  (if N.eqb b 0 then true else let '(d1, d2) := py_sids p u b in negb (N.eqb d1 0) && N.eqb d1 d2).
Definition chk_goto (c : program * N * list N * N) : bool :=
  let '(p, u, js, b) := c in nl_eqb (goto_ids p u) js.
'''.replace('%', '%%').replace('%%', '%')


def _task(prog):
    import jedi
    try:
        p, src = build(prog)
    except Exception as e:
        return dict(skip='build %r' % e)
    g = {}
    try:
        code = compile(src, '<prog>', 'exec')
    except SyntaxError:
        return dict(skip='syntax')
    try:
        exec(code, g)
    except Exception as e:
        pass
    trace = g.get('_r', [])
    byid = {o.oid: o for o in p.occs}
    pos2occ = {(o.line, o.col): o for o in p.occs}
    uses = {}
    for uid, val in trace:
        uses.setdefault(uid, set()).add(val if isinstance(val, int) and val in byid else 0)
    out = []
    script = None
    for uid, vals in sorted(uses.items()):
        u = byid[uid]
        rec = dict(use=uid, vals=sorted(vals))
        try:
            if script is None:
                script = jedi.Script(src)
            res = script.goto(u.line, u.col)
            ids = []
            for d in res:
                o = pos2occ.get((d.line, d.column))
                ids.append(o.oid if o is not None and d.name == o.name else 0)
            rec['goto'] = sorted(ids)
        except Exception as e:
            rec['exc'] = common.exc_sig(e)
        # oracle on the implementation
        if 'goto' in rec and len(vals) == 1 and 0 not in vals:
            b = byid[next(iter(vals))]
            bad = []
            for i in rec['goto']:
                d = byid.get(i)
                if d is None or d.name != u.name:
                    bad.append(i)
                elif d.role in ('declg', 'decln'):
                    continue
                elif d.role != 'bind' or binding_scope(p, d) is not binding_scope(p, b):
                    bad.append(i)
            if bad or not rec['goto']:
                rec['viol'] = dict(bad=bad, cls=classify(p, u, b), kind='wrong-scope' if bad else 'empty')
            # straight-line clause: use and all bindings of the name in the resolved scope are
            # straight-line statements of that one scope -> exactly the observed assignment
            sc = binding_scope(p, b)
            if sc is u.scope and b.scope is sc and not u.stmt_loop \
                    and all(o.scope is sc and o.how == 'assign' and not o.stmt_loop
                            for o in p.occs if o.role == 'bind' and o.name == u.name and binding_scope(p, o) is sc) \
                    and not any(o.name == u.name and o.role in ('declg', 'decln') for o in p.occs):
                rec['straight'] = True
                if rec['goto'] != [b.oid] and 'viol' not in rec:
                    rec['viol'] = dict(bad=rec['goto'], cls='straight-line-not-exact', kind='straight')
        out.append(rec)
    return dict(src=src, gprog=g_prog(p.scopes[0]), uses=out, nscopes=len(p.scopes))


# ------------------------------------------------------------------ directed shapes outside the modelled language
# (source, [(marker of the use, occurrence index), expected lines of the definitions Python's scoping admits])
# Binders the scope-tree language does not have (star parameters, lambda star parameters) and the
# global/nonlocal interplay at module level.  Oracle: CPython's scoping, written out by hand per case and
# re-checked by executing the program (the value read at the use is the one bound at the expected line).
DIRECTED = [
    ("def f(*args, **kw):\n    return args, kw\nargs = 5\nkw = 6\n", [('args', 1, {1}), ('kw', 1, {1})]),
    ("def f(first, *rest, key=1, **more):\n    return first, rest, key, more\nrest = 7\nmore = 8\nfirst = 9\nkey = 3\n",
     [('rest', 1, {1}), ('more', 1, {1}), ('first', 1, {1}), ('key', 1, {1})]),
    ("g = lambda *rest: rest\nrest = 8\n", [('rest', 1, {1})]),
    ("h = lambda **kw: kw\nkw = 8\n", [('kw', 1, {1})]),
    ("class K:\n    def m(self, *args):\n        return args\nargs = 1\n", [('args', 1, {2})]),
    ("counter = 0\ndef make():\n    counter = 1\n    def bump():\n        nonlocal counter\n        counter += 1\n"
     "        return counter\n    return bump\ndef read():\n    return counter\ncounter\n",
     [('counter', 5, {1}), ('counter', 6, {1}), ('counter', 4, {3, 6})]),
    ("total = 0\ndef outer():\n    total = 5\n    def inner():\n        nonlocal total\n        total = 6\n    inner()\n"
     "    return total\ndef peek():\n    return total\nprint(total)\n",
     [('total', 5, {1}), ('total', 6, {1}), ('total', 4, {3, 6})]),
    ("x = 1\ndef a():\n    global x\n    x = 2\ndef b():\n    x = 3\n    def c():\n        nonlocal x\n        x = 4\n"
     "    return x\ndef d():\n    return x\n", [('x', 7, {1, 3, 4}), ('x', 6, {6, 9})]),
]


def _directed_task(item):
    import jedi
    src, probes = item
    out = []
    for (name, occ, want) in probes:
        # position of the occ-th (0-based) occurrence of the identifier as a whole word
        pos = [(m.start()) for m in re.finditer(r'\b%s\b' % re.escape(name), src)]
        off = pos[occ]
        line = src.count('\n', 0, off) + 1
        col = off - (src.rfind('\n', 0, off) + 1)
        try:
            got = sorted({d.line for d in jedi.Script(src).goto(line, col) if d.line is not None})
        except Exception as e:
            out.append(dict(name=name, at=(line, col), exc=common.exc_sig(e)))
            continue
        out.append(dict(name=name, at=(line, col), got=got, want=sorted(want)))
    return out


def stream_directed(ctx):
    res = common.pmap(_directed_task, DIRECTED, chunksize=1)
    for (src, probes), recs in zip(DIRECTED, res):
        for r in recs:
            ctx.count('directed', (src, r['name'], tuple(r['at'])), nontrivial=True)
            if 'exc' in r:
                ctx.deviation(dict(stream='goto', exc=r['exc']['exc'], site=r['exc']['site']),
                              dict(source=src, use=r['at'], error=r['exc']), 'Script.goto raised')
            elif not r['got'] or not set(r['got']) <= set(r['want']):
                ctx.deviation(dict(stream='directed', cls='goto-outside-python-scope', name=r['name']),
                              dict(source=src, use=r['at'], goto_lines=r['got'], lines_python_scoping_admits=r['want']),
                              'goto on %s at %r lands on lines %r; Python\'s scoping admits only bindings on lines %r'
                              % (r['name'], r['at'], r['got'], r['want']))
    ctx.stat('directed_probes', sum(len(p) for _, p in DIRECTED))


def run(ctx):
    common.setup_jedi(os.path.join(ctx.tmp, 'cache'))
    ctx.proofs()
    stream_directed(ctx)
    ctx.cov['fingerprints'] = common.fingerprint(FP)
    ctx.cov['rule'] = ('programs of the scope-tree language: exhaustive over 1 identifier, nesting depth<=2, <=2 statements per body '
                       '(a seed-independent prefix of the enumeration in quick), the systematic family of nested def/class chains of length<=3 with every binding placement, plus seeded random programs (2 identifiers, depth<=4); '
                       'a case = one executed use; non-trivial = the use read a value from a binding in the program; distinct by (program, use)')
    ctx.assumptions += ['flow analysis (if/else/try reachability) is not part of the modelled language',
                        'the pretty-printer from the scope tree to Python text and the position table are harness code']
    progs = list(itertools.islice(enum_bodies(2, 2, ['a']), ctx.n(40000, 400000)))
    ctx.rng.shuffle(progs)
    progs = progs[:ctx.n(1200, 12000)]
    chains = chain_programs()
    ctx.rng.shuffle(chains)
    progs += chains[:ctx.n(700, len(chains))]
    counter = [0]
    for _ in range(ctx.n(500, 6000)):
        progs.append(rand_body(ctx.rng, ctx.rng.randint(1, 4), ctx.rng.randint(2, 5), ['a', 'b'], counter))
    results = common.pmap(_task, progs, chunksize=16)
    defs, cases, metas = [DEFS], [], []
    stats = dict(programs=0, skipped=0, uses=0, in_property_violation=0, straight=0)
    pi = 0
    for prog, r in zip(progs, results):
        if 'skip' in r:
            stats['skipped'] += 1
            continue
        stats['programs'] += 1
        name = 'p%d' % pi
        pi += 1
        used = False
        for rec in r['uses']:
            stats['uses'] += 1
            if 'exc' in rec:
                ctx.deviation(dict(stream='goto', exc=rec['exc']['exc'], site=rec['exc']['site']),
                              dict(source=r['src'], use=rec['use'], error=rec['exc']), 'Script.goto raised')
                continue
            b = rec['vals'][0] if len(rec['vals']) == 1 else 0
            ctx.count('goto', (r['src'], rec['use']), nontrivial=b != 0)
            stats['straight'] += bool(rec.get('straight'))
            cases.append('(%s, %d%%N, %s, %d%%N)' % (name, rec['use'], common.g_list(rec['goto'], common.g_N, 'N'), b))
            metas.append(dict(source=r['src'], use=rec['use'], goto=rec['goto'], observed_binding=b, viol=rec.get('viol'),
                              program=r['gprog']))
            used = True
        if used:
            defs.append('Definition %s : program := %s.' % (name, r['gprog']))
    ctx.stat('programs', stats)
    fails, err = common.coq_failing(IMPORTS, 'chk', cases, shard=1500, defs='\n'.join(defs))
    if err:
        raise RuntimeError('coq evaluation failed: ' + err)
    failset = set(fails)
    # which failures are goto-model failures (as opposed to python-model failures)?
    gfail = set()
    if fails:
        sub = [cases[i] for i in fails]
        gf, err = common.coq_failing(IMPORTS, 'chk_goto', sub, shard=1500, defs='\n'.join(defs))
        gfail = {fails[i] for i in gf}
    nviol = 0
    infrag_cases = []
    for i, m in enumerate(metas):
        v = m['viol']
        if v:
            nviol += 1
            predicted = i not in gfail
            ctx.deviation(dict(stream='oracle', cls=v['cls'], predicted=predicted),
                          dict(source=m['source'], use=m['use'], goto=m['goto'], observed_binding=m['observed_binding'], bad=v['bad']),
                          'goto on use #%d returns %r; Python took binding #%d (%s)' % (m['use'], m['goto'], m['observed_binding'], v['cls']))
    stats['in_property_violation'] = nviol
    for i in fails[:6]:
        m = metas[i]
        if m['viol']:
            continue  # the failing input is already reported (or known)
        model = common.coq_show(IMPORTS, ['(goto_ids (%s) %d%%N, py_sids (%s) %d%%N %d%%N)' % (
            m['program'], m['use'], m['program'], m['use'], m['observed_binding'])], defs=DEFS)
        ctx.violation('obligation', dict(what='correspondence %s: model and implementation differ; the property oracle accepts the implementation\'s answer' % (
            'jedi_goto' if i in gfail else 'py_scope/bind_scope vs CPython'), input=m, model=model), nofail=True)
    # how much of the sample lies inside the fragment of the main theorem, and does the theorem's
    # conclusion hold of the implementation there (it must: model = impl and the theorem is proved)
    frag_cases = ['(%s, %d%%N)' % (c.split(',')[0][1:], metas[i]['use']) for i, c in enumerate(cases)]
    outside, err = common.coq_failing(IMPORTS, "(fun c => let '(p, u) := c in in_fragment_id p u)", frag_cases,
                                      shard=1500, defs='\n'.join(defs))
    if err:
        raise RuntimeError('coq evaluation failed (fragment): ' + err)
    outside = set(outside)
    stats['uses_in_fragment'] = len(cases) - len(outside)
    for i, m in enumerate(metas):
        if m['viol'] and i not in outside and m['viol']['kind'] == 'wrong-scope':
            ctx.violation('obligation', dict(what='a use inside the fragment of theorem C03_goto_in_python_scope violates the property on the implementation',
                                             input=m), nofail=False)
    ctx.stat('programs', stats)
    for m in metas[:3]:
        ctx.sample(dict(source=m['source'], use=m['use'], goto=m['goto'], observed_binding=m['observed_binding']))


def replay(ctx, path):
    rec = json.load(open(path))
    print(json.dumps(rec, indent=1)[:3000])
    return 0
