"""C02 — inferred types agree with what the program does when executed.

Streams (all through the public API `Script.infer(line, column)`):
  core    programs of the core language of coq/Model/C02_MiniInfer.v (assignments, defs with
          positional/keyword/default/*args/**kwargs parameters, classes, literals, tuples,
          constant indexing, conditional expressions over opaque run inputs, calls), printed to
          Python.  (a) executed by CPython with every probed expression occurrence wrapped (at
          the AST level, same text) by a recorder, for several condition inputs -> compared with
          the Coq `eval`/`first_fail`; (b) Script.infer at the same occurrence -> compared with the
          Coq `ainfer`; (c) the property itself: run-time class (name, class statement line) is
          among the reported definitions, and where no conditional can reach the expression the
          report is exactly that class.
  bind    the same pipeline on small programs enumerating signature x call shapes (ties
          jedi_bind / py_bind).
  mro     class hierarchies with attributes/methods: CPython __mro__ and attribute values vs the
          Coq C3 model, Script.infer vs the Coq depth-first MRO model, and the property directly.
  explore model-free: templates over the wider documented feature list, jedi vs execution only.
"""
import ast
import itertools
import json
import os
import random
import sys

import common

IMPORTS = 'From JV Require Import Model.C02_MiniInfer.\n'
FP = [('jedi/inference/syntax_tree.py', 'infer_node'),
      ('jedi/inference/syntax_tree.py', '_infer_node'),
      ('jedi/inference/syntax_tree.py', 'infer_atom'),
      ('jedi/inference/syntax_tree.py', 'infer_trailer'),
      ('jedi/inference/syntax_tree.py', 'infer_expr_stmt'),
      ('jedi/inference/syntax_tree.py', '_infer_expr_stmt'),
      ('jedi/inference/syntax_tree.py', 'tree_name_to_values'),
      ('jedi/inference/syntax_tree.py', 'check_tuple_assignments'),
      ('jedi/inference/filters.py', 'ParserTreeFilter._filter'),
      ('jedi/inference/filters.py', 'ParserTreeFilter._check_flows'),
      ('jedi/inference/param.py', 'get_executed_param_names_and_issues'),
      ('jedi/inference/arguments.py', 'TreeArguments.unpack'),
      ('jedi/inference/value/iterable.py', 'SequenceLiteralValue.py__simple_getitem__'),
      ('jedi/inference/value/iterable.py', 'Sequence.py__getitem__'),
      ('jedi/inference/value/function.py', 'BaseFunctionExecutionContext.get_return_values'),
      ('jedi/inference/value/klass.py', 'ClassMixin.py__mro__'),
      ('jedi/inference/value/instance.py', 'AbstractInstanceValue.get_filters'),
      ('jedi/inference/base_value.py', '_getitem')]

LITS = {'int': ('1', 'LInt', 1), 'str': ("'s'", 'LStr', 2), 'float': ('1.5', 'LFloat', 3), 'bytes': ("b'b'", 'LBytes', 4)}
TAGN = {'int': 1, 'str': 2, 'float': 3, 'bytes': 4, 'tuple': 5, 'dict': 6}
NCOND = 4


# ------------------------------------------------------------------ core language: printing
class Occ:
    __slots__ = ('oid', 'stmt', 'expr', 'line', 'c0', 'c1', 'probe', 'kind', 'top', 'where', 'path')

    def __init__(self, **kw):
        for k, v in kw.items():
            setattr(self, k, v)


def pr_expr(e, col, occs, stmt, where, top=False, path=()):
    """text of e starting at column col; records the occurrences of e and its sub-expressions
    (span of the AST node, position at which Script.infer is asked)."""
    k = e[0]
    me = Occ(oid=None, stmt=stmt, expr=e, line=None, c0=col, c1=None, probe=None, kind=k, top=top, where=where, path=tuple(path))
    occs.append(me)
    if k == 'lit':
        s = LITS[e[1]][0]
        me.c1 = col + len(s)
        me.probe = me.c1 if e[1] in ('int', 'float') else None      # infer() answers [] on string leaves
    elif k == 'new':
        s = 'K%d()' % e[1]
        me.c1 = col + len(s)
        me.probe = me.c1
    elif k == 'name':
        s = 'n%d' % e[1]
        me.c1 = col + len(s)
        me.probe = col
    elif k == 'tuple':
        s = '('
        for i, x in enumerate(e[1]):
            if i:
                s += ', '
            s += pr_expr(x, col + len(s), occs, stmt, where, path=path + (i,))
        if len(e[1]) == 1:
            s += ','
        s += ')'
        me.c1 = col + len(s)
        me.probe = me.c1
    elif k == 'index':
        s = pr_expr(e[1], col, occs, stmt, where, path=path + (0,)) + '[%d]' % e[2]
        me.c1 = col + len(s)
        me.probe = me.c1
    elif k == 'tern':
        # always parenthesised unless it is the whole right-hand side; the AST node excludes the parentheses
        off = 0 if top else 1
        me.c0 = col + off
        s = '(' if off else ''
        s += pr_expr(e[2], col + len(s), occs, stmt, where, path=path + (0,))
        s += ' if c%d else ' % e[1]
        s += pr_expr(e[3], col + len(s), occs, stmt, where, path=path + (1,))
        me.c1 = col + len(s)
        if off:
            s += ')'
            me.probe = col + len(s)
    elif k == 'call':
        s = 'f%d(' % e[1]
        first = True
        for j, x in enumerate(e[2]):
            if not first:
                s += ', '
            first = False
            s += pr_expr(x, col + len(s), occs, stmt, where, path=path + (j,))
        for j, (kw, x) in enumerate(e[3]):
            if not first:
                s += ', '
            first = False
            s += 'n%d=' % kw
            s += pr_expr(x, col + len(s), occs, stmt, where, path=path + (len(e[2]) + j,))
        s += ')'
        me.c1 = col + len(s)
        me.probe = me.c1
    else:
        raise ValueError(e)
    return s


def pr_body(e):
    """function bodies are printed without recording occurrences"""
    return pr_expr(e, 0, [], None, None, top=True)


def build(prog):
    """program -> (source, occurrences with positions, class id -> line)"""
    lines, occs, cls_line = [], [], {}
    for i, st in enumerate(prog):
        ln = len(lines) + 1
        if st[0] == 'assign':
            head = 'n%d = ' % st[1]
            mine = []
            text = head + pr_expr(st[2], len(head), mine, i, 'rhs', top=True)
            mine[0].probe = ('target', 0)       # the whole right-hand side is asked at the target name
            for o in mine:
                o.line = ln
            occs += mine
            lines.append(text)
        elif st[0] == 'def':
            s = 'def f%d(' % st[1]
            mine = []
            for j, (x, kind, d) in enumerate(st[2]):
                if j:
                    s += ', '
                s += {'reg': '', 'star': '*', 'sstar': '**'}[kind] + 'n%d' % x
                if d is not None:
                    s += '='
                    s += pr_expr(d, len(s), mine, i, 'default', path=(j,))
            s += '):'
            for o in mine:
                o.line = ln
            occs += mine
            lines.append(s)
            lines.append('    return ' + pr_body(st[3]))
        elif st[0] == 'class':
            cls_line[st[1]] = ln
            lines.append('class K%d:' % st[1])
            lines.append('    pass')
        else:
            raise ValueError(st)
    for n, o in enumerate(occs):
        o.oid = n
    return '\n'.join(lines) + '\n', occs, cls_line


# ------------------------------------------------------------------ Gallina terms
def g_expr(e):
    k = e[0]
    if k == 'lit':
        return '(ELit %s)' % LITS[e[1]][1]
    if k == 'new':
        return '(ENew %d)' % e[1]
    if k == 'name':
        return '(EName %d)' % e[1]
    if k == 'tuple':
        return '(ETuple %s)' % common.g_list(e[1], g_expr, 'expr')
    if k == 'index':
        return '(EIndex %s (%d)%%Z)' % (g_expr(e[1]), e[2])
    if k == 'tern':
        return '(ETern %d%%nat %s %s)' % (e[1], g_expr(e[2]), g_expr(e[3]))
    if k == 'call':
        return '(ECall %d %s %s)' % (e[1], common.g_list(e[2], g_expr, 'expr'),
                                     common.g_list(e[3], lambda ke: '(%d%%N, %s)' % (ke[0], g_expr(ke[1])), 'N * expr'))
    raise ValueError(e)


def g_stmt(st):
    if st[0] == 'assign':
        return 'SAssign %d %s' % (st[1], g_expr(st[2]))
    if st[0] == 'def':
        ps = common.g_list(st[2], lambda p: '(%d%%N, %s, %s)' % (
            p[0], {'reg': 'PReg', 'star': 'PStar', 'sstar': 'PStarStar'}[p[1]],
            'None' if p[2] is None else '(Some %s)' % g_expr(p[2])), 'pdecl')
        return 'SDef %d %s %s' % (st[1], ps, g_expr(st[3]))
    return 'SClass %d' % st[1]


def g_prog(prog):
    return '(' + common.g_list(prog, g_stmt, 'stmt') + ' : prog)'


DEFS = '''
(* addressing of occurrences: (statement index, path) -> expression; a path is written as one
   number, base 32 after a leading 1 *)
Fixpoint dec_path (fuel : nat) (n : N) (acc : list nat) : list nat :=
  match fuel with
  | O => acc
  | S f => if N.leb n 1 then acc else dec_path f (N.div n 32) (N.to_nat (N.modulo n 32) :: acc)
  end.
Fixpoint sub_at (e : expr) (path : list nat) : option expr :=
  match path with
  | [] => Some e
  | k :: r =>
      match e with
      | ETuple es => match nth_error es k with Some x => sub_at x r | None => None end
      | EIndex x _ => sub_at x r
      | ETern _ a b => if Nat.eqb k 0 then sub_at a r else sub_at b r
      | ECall _ args kws =>
          match nth_error args k with
          | Some x => sub_at x r
          | None => match nth_error kws (k - length args) with Some (_, x) => sub_at x r | None => None end
          end
      | _ => None
      end
  end.
Definition occ_expr (p : prog) (i : nat) (path : list nat) : option expr :=
  match nth_error p i with
  | Some (SAssign _ e) => sub_at e path
  | Some (SDef _ ps _) =>
      match path with
      | j :: r => match nth_error ps j with Some (_, _, Some d) => sub_at d r | _ => None end
      | [] => None
      end
  | _ => None
  end.
Definition bits (n : N) : list bool := [N.testbit n 0; N.testbit n 1; N.testbit n 2; N.testbit n 3].
Definition mask (l : list N) : N := fold_left (fun acc t => N.lor acc (N.shiftl 1 t)) l 0%N.
(* program, condition inputs, statement index, path, observed run-time tag *)
Definition EV (p : prog) (inp i path t : N) := (p, inp, i, path, t).
Definition chk_eval (c : prog * N * N * N * N) : bool :=
  let '(p, inp, i, path, t) := c in
  match occ_expr p (N.to_nat i) (dec_path 24 path []) with
  | Some e => match eval p (bits inp) (N.to_nat i) e with Some v => N.eqb (tagN (tag_of v)) t | None => false end
  | None => false
  end.
(* program, condition inputs, 1 + index of the raising statement or 0 *)
Definition FF (p : prog) (inp k : N) := (p, inp, k).
Definition chk_fail (c : prog * N * N) : bool :=
  let '(p, inp, k) := c in
  match first_fail (bits inp) cinit p 0%nat with Some j => N.eqb k (N.of_nat (S j)) | None => N.eqb k 0 end.
(* program, statement index, path, set of tags Script.infer reports (bit mask) *)
Definition IN (p : prog) (i path ts : N) := (p, i, path, ts).
Definition chk_infer (c : prog * N * N * N) : bool :=
  let '(p, i, path, ts) := c in
  match occ_expr p (N.to_nat i) (dec_path 24 path []) with
  | Some e => N.eqb (mask (map tagN (ainfer_tags p (N.to_nat i) e))) ts
  | None => false
  end.
Definition fails {X : Type} (f : X -> bool) (l : list X) : list N :=
  (fix go (i : N) (l : list X) : list N :=
     match l with [] => [] | c :: r => if f c then go (N.succ i) r else i :: go (N.succ i) r end) 0%N l.
(* hierarchy, class, attribute, jedi (owner class, tag), python (owner class, tag); 0 = none *)
Definition AT (h : hier) (k a jc jl pc pl : N) := (h, k, a, jc, jl, pc, pl).
Definition chk_attr (c : hier * N * N * N * N * N * N) : bool :=
  let '(h, k, a, jc, jl, pc, pl) := c in
  let enc o := match o with Some (c, l) => (c, tagN (TLit l)) | None => (0%N, 0%N) end in
  let '(mjc, mjl) := enc (jedi_attr h k a) in
  let '(mpc, mpl) := enc (py_attr h k a) in
  N.eqb mjc jc && N.eqb mjl jl && N.eqb mpc pc && N.eqb mpl pl.
(* hierarchy, class, python mro as a base-32 path number (1 = class never created) *)
Definition MR (h : hier) (k pm : N) := (h, k, pm).
Definition chk_mro (c : hier * N * N) : bool :=
  let '(h, k, pm) := c in
  let want := map N.of_nat (dec_path 24 pm []) in
  let got := match c3_table [] h with Some t => or_nil (lookup k t) | None => [] end in
  (fix go (a b : list N) := match a, b with [] , [] => true | x :: a', y :: b' => N.eqb x y && go a' b' | _, _ => false end) got want.
'''


def enc_path(path):
    n = 1
    for x in path:
        assert 0 <= x < 32
        n = n * 32 + x
    return n


def enc_inp(inp):
    return sum(1 << k for k, b in enumerate(inp) if b)


def enc_tags(tags):
    return sum(1 << t for t in set(tags))


def coq_groups(groups, kinds, timeout=1500):
    '''one coqc per group: group = dict(defs=[...], <kind>=[case terms]); kinds = [(kind, checker)].
    returns {kind: [(group index, case index)] failing}, error text or None'''
    from concurrent.futures import ThreadPoolExecutor

    def one(gi):
        g = groups[gi]
        body = [common._EVAL_HDR, IMPORTS, DEFS] + g['defs']
        for n, (kind, fn) in enumerate(kinds):
            cs = g.get(kind) or []
            if not cs:
                continue
            names = []
            for j in range(0, len(cs), 400):              # keep list literals moderate
                names.append('cs_%s_%d' % (kind, j))
                body.append('Definition %s := [%s].' % (names[-1], ';\n'.join(cs[j:j + 400])))
            parts = ' ++ '.join(names)
            body.append('Eval vm_compute in (%d%%N, N.of_nat (length (%s)), fails %s (%s)).' % (n, parts, fn, parts))
        rc, out = common._coqc_text('\n'.join(body) + '\n', 'g%d' % gi, timeout)
        if rc != 0:
            return gi, None, out[-3000:]
        res = {}
        import re
        for m in re.finditer(r'=\s*\((\d+)%N,\s*(\d+)%N,\s*\[(.*?)\]\)\s*:', out, flags=re.S):
            kind = kinds[int(m.group(1))][0]
            if int(m.group(2)) != len(g.get(kind) or []):
                return gi, None, 'case count mismatch for %s' % kind
            res[kind] = [int(x) for x in re.findall(r'(\d+)%N', m.group(3))]
        for kind, _ in kinds:
            if (g.get(kind) or []) and kind not in res:
                return gi, None, 'unparsable coqc output: ' + out[-1500:]
        return gi, res, None

    fails = {k: [] for k, _ in kinds}
    err = None
    with ThreadPoolExecutor(max_workers=common.NPROC) as ex:
        for gi, res, e in ex.map(one, range(len(groups))):
            if e and not err:
                err = 'group %d: %s' % (gi, e)
            for k, idx in (res or {}).items():
                fails[k] += [(gi, i) for i in idx]
    return fails, err


# ------------------------------------------------------------------ executing with a recorder
class _Wrap(ast.NodeTransformer):
    def __init__(self, table):
        self.table, self.hit = table, set()

    def generic_visit(self, node):
        node = super().generic_visit(node)
        if isinstance(node, ast.expr) and hasattr(node, 'lineno'):
            key = (node.lineno, node.col_offset, node.end_col_offset)
            oid = self.table.get(key)
            if oid is not None and oid not in self.hit and not isinstance(getattr(node, 'ctx', None), (ast.Store, ast.Del)):
                self.hit.add(oid)
                new = ast.Call(func=ast.Name(id='_jv_p', ctx=ast.Load()), args=[ast.Constant(value=oid), node], keywords=[])
                return ast.copy_location(new, node)
        if isinstance(node, ast.ClassDef):
            mark = ast.Assign(targets=[ast.Name(id='__jv_line__', ctx=ast.Store())], value=ast.Constant(value=node.lineno))
            node.body.insert(0, ast.copy_location(mark, node))
        return node


def runtime_class(v):
    t = type(v)
    return (t.__name__, t.__dict__.get('__jv_line__'))


def execute(src, table, globs, want_mro=False):
    """run src with the expressions at the spans in `table` ({(line, c0, c1): id}) recorded.
    returns (records [(id, (class name, class line))], failing line or None, exception name, missing ids)"""
    import warnings
    warnings.simplefilter('ignore', SyntaxWarning)
    tree = ast.parse(src)
    w = _Wrap(table)
    tree = w.visit(tree)
    ast.fix_missing_locations(tree)
    missing = sorted(set(table.values()) - w.hit)
    code = compile(tree, '<prog>', 'exec')
    rec = []
    g = dict(globs)
    g['_jv_p'] = lambda i, v: (rec.append((i, runtime_class(v))), v)[1]
    fail = exc = None
    try:
        exec(code, g)
    except Exception as e:
        exc = type(e).__name__
        tb = e.__traceback__
        while tb is not None:
            if tb.tb_frame.f_code.co_filename == '<prog>' and tb.tb_frame.f_code.co_name == '<module>':
                fail = tb.tb_lineno
            tb = tb.tb_next
    return rec, fail, exc, missing, g


GAVE_UP = [0]


def watch_limits():
    """jedi documents give-up limits for function executions (recursion.py: at most 6 executions of
    one function and 2 nested executions of the same function per query, 200 executions in total,
    depth 15).  The property quantifies over programs that do not hit them; the harness observes the
    detector itself (wrapped in this process only) to know when a query was cut short."""
    from jedi.inference import recursion
    det = recursion.ExecutionRecursionDetector
    if getattr(det.push_execution, '_jv_wrapped', False):
        return
    orig = det.push_execution

    def push_execution(self, execution):
        r = orig(self, execution)
        if r:
            GAVE_UP[0] += 1
        return r
    push_execution._jv_wrapped = True
    det.push_execution = push_execution


def ask(script, line, col):
    """Script.infer -> sorted [(name, type, line, module_path is None)] or an exception signature"""
    GAVE_UP[0] = 0
    try:
        res = script.infer(line, col)
        return sorted((d.name, d.type, d.line, d.module_path is None) for d in res), None
    except Exception as e:
        return None, common.exc_sig(e)


def tag_of_def(d, cls_line):
    """(name, type, line, nopath) reported by jedi -> model tag number (9 = something the model has no tag for)"""
    name, typ, line, _ = d
    if typ != 'instance':
        return 9
    if line is None:
        return TAGN.get(name, 9)
    if name.startswith('K') and name[1:].isdigit() and cls_line.get(int(name[1:])) == line:
        return 10 + int(name[1:])
    return 9


def tag_of_rt(rc, cls_line):
    name, line = rc
    if line is None:
        return TAGN.get(name, 9)
    if name.startswith('K') and name[1:].isdigit() and cls_line.get(int(name[1:])) == line:
        return 10 + int(name[1:])
    return 9


# ------------------------------------------------------------------ which occurrences can depend on a conditional
def tern_reach(prog, i, e, memo=None):
    """can a conditional expression be reached from e evaluated at statement i? (harness-side,
    independent of the Coq model: follows names to their last assignment and calls to bodies/defaults)"""
    k = e[0]
    if k in ('lit', 'new'):
        return False
    if k == 'tern':
        return True
    if k == 'name':
        for j in range(i - 1, -1, -1):
            st = prog[j]
            if st[0] == 'assign' and st[1] == e[1]:
                return tern_reach(prog, j, st[2])
        return False
    if k == 'tuple':
        return any(tern_reach(prog, i, x) for x in e[1])
    if k == 'index':
        return tern_reach(prog, i, e[1])
    if k == 'call':
        if any(tern_reach(prog, i, x) for x in e[2]) or any(tern_reach(prog, i, x) for _, x in e[3]):
            return True
        for j in range(i - 1, -1, -1):
            st = prog[j]
            if st[0] == 'def' and st[1] == e[1]:
                if body_tern(prog, j, st[3]):
                    return True
                return any(d is not None and tern_reach(prog, j, d) for _, _, d in st[2])
        return False
    raise ValueError(e)


def body_tern(prog, j, e):
    k = e[0]
    if k in ('lit', 'new', 'name'):
        return False
    if k == 'tern':
        return True
    if k == 'tuple':
        return any(body_tern(prog, j, x) for x in e[1])
    if k == 'index':
        return body_tern(prog, j, e[1])
    if k == 'call':
        if any(body_tern(prog, j, x) for x in e[2]) or any(body_tern(prog, j, x) for _, x in e[3]):
            return True
        for jj in range(j - 1, -1, -1):
            st = prog[jj]
            if st[0] == 'def' and st[1] == e[1]:
                return body_tern(prog, jj, st[3]) or any(d is not None and tern_reach(prog, jj, d) for _, _, d in st[2])
        return False
    raise ValueError(e)


# ------------------------------------------------------------------ generator (core stream)
class Gen:
    """random programs; a shape evaluator (sets of possible concrete shapes) steers the choice of
    indices and arguments so that most programs run to the end"""

    def __init__(self, rng, nstmts):
        self.rng, self.nstmts = rng, nstmts
        self.prog = []
        self.vars = {}       # name -> set of shapes
        self.funs = {}       # fid -> (params, body, classes at def time)
        self.classes = []
        self.nv = self.nf = self.nc = 0

    # shapes: 'int' 'str' 'float' 'bytes' ('inst', c) ('tuple', (shapes...)) 'dict'; a set of them, None = too many
    def shapes(self, e, env, funs=None, depth=0):
        funs = self.funs if funs is None else funs
        k = e[0]
        if k == 'lit':
            return {e[1]}
        if k == 'new':
            return {('inst', e[1])}
        if k == 'name':
            return env.get(e[1], set())
        if k == 'tuple':
            parts = [self.shapes(x, env, funs, depth) for x in e[1]]
            if any(p is None for p in parts):
                return None
            out = set()
            for combo in itertools.islice(itertools.product(*parts), 40):
                out.add(('tuple', tuple(combo)))
            return out
        if k == 'index':
            s = self.shapes(e[1], env, funs, depth)
            if s is None:
                return None
            out = set()
            for x in s:
                if isinstance(x, tuple) and x[0] == 'tuple' and -len(x[1]) <= e[2] < len(x[1]):
                    out.add(x[1][e[2]])
            return out
        if k == 'tern':
            a, b = self.shapes(e[2], env, funs, depth), self.shapes(e[3], env, funs, depth)
            return None if a is None or b is None else a | b
        if k == 'call':
            if e[1] not in funs or depth > 6:
                return set()
            params, body, _ = funs[e[1]]
            pos = [self.shapes(x, env, funs, depth) for x in e[2]]
            kws = {kk: self.shapes(x, env, funs, depth) for kk, x in e[3]}
            if any(p is None for p in pos) or any(v is None for v in kws.values()):
                return None
            penv, pi = {}, 0
            regs = [p for p in params if p[1] == 'reg']
            seen_star = False
            for (x, kind, d) in params:
                if kind == 'star':
                    seen_star = True
                    rest = pos[pi:]
                    penv[x] = {('tuple', tuple(c)) for c in itertools.islice(itertools.product(*rest), 20)} if rest else {('tuple', ())}
                    pi = len(pos)
                elif kind == 'sstar':
                    penv[x] = {'dict'}
                elif not seen_star and pi < len(pos):
                    penv[x] = pos[pi]
                    pi += 1
                elif x in kws:
                    penv[x] = kws[x]
                elif d is not None:
                    penv[x] = d      # shapes of the default, computed at def time
                else:
                    return set()     # the call raises
            earlier = {f: v for f, v in funs.items() if f < e[1]}
            return self.shapes(body, penv, earlier, depth + 1)
        raise ValueError(e)

    def lit(self):
        return ('lit', self.rng.choice(['int', 'str', 'float', 'bytes']))

    def atom(self, env_names):
        r = self.rng.random()
        if env_names and r < 0.45:
            return ('name', self.rng.choice(env_names))
        if self.classes and r < 0.65:
            return ('new', self.rng.choice(self.classes))
        return self.lit()

    def expr(self, depth, env, funs, classes, body_of=None):
        """env: name -> shapes (module variables or parameters)"""
        rng = self.rng
        names = sorted(env)
        r = rng.random()
        if depth <= 0 or r < 0.22:
            r2 = rng.random()
            if names and r2 < 0.5:
                return ('name', rng.choice(names))
            if classes and r2 < 0.7:
                return ('new', rng.choice(classes))
            return self.lit()
        if r < 0.42:
            n = rng.choice([0, 1, 2, 2, 3, 3, 4])
            return ('tuple', [self.expr(depth - 1, env, funs, classes, body_of) for _ in range(n)])
        if r < 0.60:
            return ('tern', rng.randrange(NCOND), self.expr(depth - 1, env, funs, classes, body_of),
                    self.expr(depth - 1, env, funs, classes, body_of))
        if r < 0.80:
            # index something that is (sometimes) a tuple
            for _ in range(4):
                base = self.expr(depth - 1, env, funs, classes, body_of)
                if body_of is not None and base[0] == 'name':
                    if env.get(base[1]) == {'dict'}:
                        continue    # **kwargs[int]: KeyError at run time; jedi answers with all values (not modelled)
                    # a parameter: shape unknown inside the body; callers pass tuples sometimes
                    return ('index', base, rng.choice([0, 0, 1, -1, 2]))
                sh = self.shapes(base, env, funs)
                if not sh or 'dict' in sh:
                    continue
                if any(x in ('str', 'bytes') for x in sh):
                    continue        # indexing str/bytes needs the (absent) stubs
                tl = [len(x[1]) for x in sh if isinstance(x, tuple) and x[0] == 'tuple']
                if not tl:
                    if rng.random() < 0.03:
                        return ('index', base, 0)        # not subscriptable: raises / infers nothing
                    continue
                lo = min(tl)
                r3 = rng.random()
                if lo > 0 and r3 < 0.80:
                    i = rng.randrange(-lo, lo)
                elif r3 < 0.93:
                    i = rng.randrange(-max(tl) - 1, max(tl) + 1)
                else:
                    i = rng.choice([max(tl), -max(tl) - 1, max(tl) + 1])
                return ('index', base, i)
            return self.expr(depth - 1, env, funs, classes, body_of)
        if funs:
            return self.call(depth, env, funs, classes, body_of)
        return self.expr(depth - 1, env, funs, classes, body_of)

    def call(self, depth, env, funs, classes, body_of):
        rng = self.rng
        f = rng.choice(sorted(funs))
        params = funs[f][0]
        regs = [p for p in params if p[1] == 'reg']
        star = [p for p in params if p[1] == 'star']
        sstar = [p for p in params if p[1] == 'sstar']
        si = params.index(star[0]) if star else len(params)
        posable = [p for p in params[:si] if p[1] == 'reg']
        kwonly = [p for p in params[si:] if p[1] == 'reg']
        sub = lambda: self.expr(depth - 1, env, funs, classes, body_of)
        mode = rng.random()
        pos, kws = [], []
        if mode < 0.80:      # a call Python accepts
            npos = rng.randint(0, len(posable))
            if star and rng.random() < 0.6:
                npos = len(posable) + rng.randint(0, 2)
            pos = [sub() for _ in range(npos)]
            rest = posable[npos:] + kwonly
            for p in rest:
                if p[2] is None or rng.random() < 0.5:
                    kws.append((p[0], sub()))
            if sstar and rng.random() < 0.5:
                kws.append((90 + rng.randrange(3), sub()))
            rng.shuffle(kws)
        else:                # anything: too many / too few / unknown or repeated-with-positional keywords
            pos = [sub() for _ in range(rng.randint(0, len(posable) + 2))]
            cand = [p[0] for p in regs] + [90, 91]
            rng.shuffle(cand)
            kws = [(kname, sub()) for kname in cand[:rng.randint(0, 2)]]
        return ('call', f, pos, kws)

    def params(self):
        rng = self.rng
        n = rng.choice([0, 1, 1, 2, 2, 3, 3, 4])
        out, nid = [], 1
        ndef = rng.randint(0, n)
        for i in range(n):
            d = None
            if i >= n - ndef:
                d = self.expr(1, self.vars, self.funs, self.classes)
            out.append((nid, 'reg', d))
            nid += 1
        # starred parameters get names no keyword of the program uses (the theorems' hypothesis kw_ok_prog)
        if rng.random() < 0.3:
            out.append((50 + rng.randrange(3), 'star', None))
            for _ in range(rng.choice([0, 0, 1, 2])):
                d = self.expr(1, self.vars, self.funs, self.classes) if rng.random() < 0.6 else None
                out.append((nid, 'reg', d))
                nid += 1
        if rng.random() < 0.2:
            out.append((70 + rng.randrange(3), 'sstar', None))
        return out

    def candidate(self):
        rng = self.rng
        r = rng.random()
        if r < 0.12 and self.nc < 5:
            return ('class', self.nc + 1), None
        if r < 0.30 and self.nf < 6:
            f = self.nf + 1
            ps = self.params()
            penv = {x: ({'dict'} if k == 'sstar' else set()) for x, k, _ in ps}
            body = self.expr(rng.choice([1, 2, 2, 3]), penv, dict(self.funs), list(self.classes), body_of=f)
            if not penv and rng.random() < 0.5:
                body = ('tuple', [body, self.lit()])
            dshapes = [(x, k, None if d is None else (self.shapes(d, self.vars) or set())) for x, k, d in ps]
            return ('def', f, ps, body), (dshapes, body, list(self.classes))
        # assignment; rebinding an existing name is frequent (exercises "last assignment before")
        if self.vars and rng.random() < 0.35:
            x = rng.choice(sorted(self.vars))
        else:
            x = self.nv + 1
        e = self.expr(rng.choice([1, 2, 2, 3, 3]), self.vars, self.funs, self.classes)
        return ('assign', x, e), None

    def accept(self, st, extra):
        self.prog.append(st)
        if st[0] == 'class':
            self.nc = st[1]
            self.classes.append(st[1])
        elif st[0] == 'def':
            self.nf = st[1]
            self.funs[st[1]] = extra
        else:
            self.nv = max(self.nv, st[1])
            sh = self.shapes(st[2], self.vars)
            self.vars[st[1]] = sh if sh is not None else set()

    def trial(self, st):
        """execute the candidate after the program so far, for every live condition input.
        -> (new global dicts, number of inputs on which it raises, a str/bytes value was subscripted)"""
        import warnings
        warnings.simplefilter('ignore', SyntaxWarning)
        src, _, _ = build([st])
        tree = _NoStrIndex().visit(ast.parse(src))
        ast.fix_missing_locations(tree)
        code = compile(tree, '<cand>', 'exec')
        new, bad, strix = [], 0, False
        for g in self.live:
            g2 = dict(g)
            try:
                exec(code, g2)
                new.append(g2)
            except _StrIndex:
                strix = True
                bad += 1
            except Exception:
                bad += 1
        return new, bad, strix

    def run(self):
        rng = self.rng
        self.live = []
        for combo in itertools.product([False, True], repeat=NCOND):
            g = {'c%d' % k: b for k, b in enumerate(combo)}
            g['_jv_ix'] = _jv_ix
            self.live.append(g)
        while len(self.prog) < self.nstmts and self.live:
            for attempt in range(10):
                st, extra = self.candidate()
                new, bad, strix = self.trial(st)
                if strix:
                    continue                      # subscripting str/bytes needs the (absent) stubs
                if bad == 0 or rng.random() < 0.04:
                    self.accept(st, extra)
                    self.live = new
                    break
            else:
                st = ('assign', self.nv + 1, self.lit())
                new, _, _ = self.trial(st)
                self.accept(st, None)
                self.live = new
        return self.prog


class _StrIndex(Exception):
    pass


def _jv_ix(v, i):
    if isinstance(v, (str, bytes)):
        raise _StrIndex()
    return v[i]


class _NoStrIndex(ast.NodeTransformer):
    def visit_Subscript(self, node):
        self.generic_visit(node)
        return ast.copy_location(ast.Call(func=ast.Name(id='_jv_ix', ctx=ast.Load()), args=[node.value, node.slice], keywords=[]), node)


def gen_bind_prog(rng):
    """one signature, one call; the function returns the tuple of its parameters"""
    nreg = rng.choice([0, 1, 2, 2, 3])
    lits = ['int', 'str', 'float', 'bytes']
    ps, nid = [], 1
    ndef = rng.randint(0, nreg)
    for i in range(nreg):
        ps.append((nid, 'reg', ('new', 1) if i >= nreg - ndef else None))
        nid += 1
    if rng.random() < 0.45:
        ps.append((nid, 'star', None))
        nid += 1
        for _ in range(rng.choice([0, 1, 1, 2])):
            ps.append((nid, 'reg', ('new', 2) if rng.random() < 0.5 else None))
            nid += 1
    if rng.random() < 0.35:
        ps.append((nid, 'sstar', None))
        nid += 1
    names = [p[0] for p in ps]
    argv = [('lit', t) for t in lits] + [('new', 3), ('new', 4)]
    rng.shuffle(argv)
    npos = rng.randint(0, min(4, nreg + 2))
    pos = argv[:npos]
    cand = [p[0] for p in ps if p[1] == 'reg'] + [90, 91] + ([p[0] for p in ps if p[1] != 'reg'] if rng.random() < 0.15 else [])
    rng.shuffle(cand)
    nkw = rng.randint(0, min(len(cand), 3))
    kws = [(k, argv[npos + j] if npos + j < len(argv) else ('lit', 'int')) for j, k in enumerate(cand[:nkw])]
    body = ('tuple', [('name', x) for x in names])
    prog = [('class', c) for c in (1, 2, 3, 4)]
    prog.append(('def', 1, ps, body))
    prog.append(('assign', 1, ('call', 1, pos, kws)))
    v = 2
    for j, p in enumerate(ps):
        prog.append(('assign', v, ('index', ('name', 1), j)))
        v += 1
        if p[1] == 'star':
            for jj in (0, 1, -1):
                prog.append(('assign', v, ('index', ('index', ('name', 1), j), jj)))
                v += 1
    # last statement: an index one past the end (IndexError at run time; jedi falls back to all entries)
    prog.append(('assign', v, ('index', ('name', 1), rng.choice([len(ps), -len(ps) - 1]))))
    return prog


# ------------------------------------------------------------------ worker: one core-language program
def cond_inputs(prog, rng_seed):
    used = set()

    def walk(e):
        if e[0] == 'tern':
            used.add(e[1])
            walk(e[2]), walk(e[3])
        elif e[0] == 'tuple':
            [walk(x) for x in e[1]]
        elif e[0] == 'index':
            walk(e[1])
        elif e[0] == 'call':
            [walk(x) for x in e[2]]
            [walk(x) for _, x in e[3]]
    for st in prog:
        if st[0] == 'assign':
            walk(st[2])
        elif st[0] == 'def':
            walk(st[3])
            [walk(d) for _, _, d in st[2] if d is not None]
    used = sorted(used)
    if len(used) <= 2:
        combos = list(itertools.product([False, True], repeat=len(used)))
    else:
        r = random.Random(rng_seed)
        combos = {tuple([False] * len(used)), tuple([True] * len(used))}
        while len(combos) < 4:
            combos.add(tuple(r.random() < 0.5 for _ in used))
        combos = sorted(combos)
    out = []
    for c in combos:
        inp = [False] * NCOND
        for u, b in zip(used, c):
            inp[u] = b
        out.append(inp)
    return out


def _core_task(item):
    kind, idx, prog = item
    import jedi
    watch_limits()
    try:
        src, occs, cls_line = build(prog)
    except Exception as e:
        return dict(skip='build %r' % (e,))
    table = {(o.line, o.c0, o.c1): o.oid for o in occs}
    if len(table) != len(occs):
        return dict(skip='ambiguous spans')
    line2stmt = {}
    ln = 1
    for i, st in enumerate(prog):
        line2stmt[ln] = i
        line2stmt[ln + 1] = i
        ln += 1 if st[0] == 'assign' else 2
    runs = []
    for inp in cond_inputs(prog, idx):
        globs = {'c%d' % k: b for k, b in enumerate(inp)}
        try:
            rec, fail, exc, missing, _ = execute(src, table, globs)
        except Exception as e:
            return dict(skip='execute %r' % (e,), src=src)
        if missing:
            return dict(skip='unmatched spans %r' % (missing,), src=src)
        runs.append(dict(inp=inp, rec=rec, fail=None if fail is None else line2stmt.get(fail, -1), exc=exc))
    answers = {}
    script = None
    try:
        script = jedi.Script(src)
    except Exception as e:
        return dict(skip='script', exc=common.exc_sig(e), src=src)
    for o in occs:
        if o.probe is None:
            continue
        col = 0 if isinstance(o.probe, tuple) else o.probe
        res, exc = ask(script, o.line, col)
        answers[o.oid] = dict(res=res, exc=exc, col=col, gave_up=GAVE_UP[0])
        if GAVE_UP[0]:
            script = jedi.Script(src)      # results cut short stay in the Script's caches: start clean
    return dict(kind=kind, src=src, prog=prog, cls_line=cls_line, runs=runs, answers=answers,
                occs=[(o.oid, o.stmt, o.expr, o.line, o.c0, o.c1, o.kind, o.where, o.path) for o in occs])


# ------------------------------------------------------------------ mro stream
ATTR_LITS = ['int', 'str', 'float', 'bytes']


def gen_hier(rng, n):
    """classes 1..n in textual order; bases among earlier classes; attributes 1..3"""
    h = []
    for c in range(1, n + 1):
        earlier = list(range(1, c))
        r = rng.random()
        if not earlier or r < 0.2:
            bases = []
        elif r < 0.55 or len(earlier) < 2:
            bases = [rng.choice(earlier)]
        else:
            bases = rng.sample(earlier, rng.choice([2, 2, 2, 3]) if len(earlier) >= 3 else 2)
        attrs = []
        for a in (1, 2, 3):
            if rng.random() < 0.4:
                attrs.append((a, rng.choice(ATTR_LITS)))
        h.append((c, bases, attrs))
    return h


def enum_hier4():
    """all hierarchies over 4 classes where class 1 defines attribute 1 (int) and every other class
    either overrides it (str) or not; bases = any ordered selection of <= 2 earlier classes"""
    def base_choices(c):
        earlier = list(range(1, c))
        out = [[]]
        out += [[b] for b in earlier]
        out += [list(p) for p in itertools.permutations(earlier, 2)]
        return out
    for b2 in base_choices(2):
        for b3 in base_choices(3):
            for b4 in base_choices(4):
                for ov in itertools.product([False, True], repeat=3):
                    yield [(1, [], [(1, 'int')]),
                           (2, b2, [(1, 'str')] if ov[0] else []),
                           (3, b3, [(1, 'float')] if ov[1] else []),
                           (4, b4, [(1, 'bytes')] if ov[2] else [])]


def build_hier(h):
    lines, cls_line, probes = [], {}, []
    for c, bases, attrs in h:
        cls_line[c] = len(lines) + 1
        lines.append('class K%d%s:' % (c, '(%s)' % ', '.join('K%d' % b for b in bases) if bases else ''))
        if not attrs:
            lines.append('    pass')
        for a, lit in attrs:
            if a % 2:
                lines.append('    def m%d(self):' % a)
                lines.append('        return %s' % LITS[lit][0])
            else:
                lines.append('    a%d = %s' % (a, LITS[lit][0]))
    attrs_all = sorted({a for _, _, at in h for a, _ in at})
    for c, _, _ in h:
        lines.append('x%d = K%d()' % (c, c))
        for a in attrs_all:
            ln = len(lines) + 1
            if a % 2:
                lines.append('r%d_%d = x%d.m%d()' % (c, a, c, a))
            else:
                lines.append('r%d_%d = x%d.a%d' % (c, a, c, a))
            probes.append((c, a, ln))
    return '\n'.join(lines) + '\n', cls_line, probes


def g_hier(h):
    return '(' + common.g_list(h, lambda k: '{| c_id := %d; c_bases := %s; c_attrs := %s |}' % (
        k[0], common.g_list(k[1], lambda b: '%d%%N' % b, 'N'),
        common.g_list(k[2], lambda al: '(%d%%N, %s)' % (al[0], LITS[al[1]][1]), 'N * lit')), 'cls') + ' : hier)'


def _mro_task(item):
    idx, h = item
    import jedi
    src, cls_line, probes = build_hier(h)
    # run statement by statement: a class statement that raises (inconsistent MRO) ends the program
    g, py = {}, {}
    mros = {}
    fail = None
    try:
        tree = ast.parse(src)
    except SyntaxError as e:
        return dict(skip='syntax %r' % (e,))
    for node in tree.body:
        try:
            exec(compile(ast.Module(body=[node], type_ignores=[]), '<h>', 'exec'), g)
        except Exception as e:
            if isinstance(node, ast.ClassDef):          # inconsistent MRO: the program ends here
                fail = (node.lineno, type(e).__name__)
                break
            # a probe statement raising AttributeError: the attribute is not defined along the MRO
    for c, _, _ in h:
        k = g.get('K%d' % c)
        if k is not None and 'x%d' % c in g:
            mros[c] = [int(x.__name__[1:]) for x in k.__mro__ if x is not object]
    line_cls = {v: k for k, v in cls_line.items()}
    for c, a, ln in probes:
        name = 'r%d_%d' % (c, a)
        if name in g:
            v = g[name]
            # which class provided it
            owner = None
            for k in type(g['x%d' % c]).__mro__:
                if ('m%d' % a if a % 2 else 'a%d' % a) in k.__dict__:
                    owner = int(k.__name__[1:])
                    break
            py[(c, a)] = (owner, type(v).__name__)
    out = []
    try:
        script = jedi.Script(src)
    except Exception as e:
        return dict(skip='script', exc=common.exc_sig(e), src=src)
    jm = {}
    for c, a, ln in probes:
        res, exc = ask(script, ln, 0)
        # the definition jedi goes to for the attribute name (which class it found it in)
        owner = None
        try:
            text = src.split('\n')[ln - 1]
            col = text.index('.') + 1
            gd = script.goto(ln, col)
            if len(gd) == 1 and gd[0].line is not None:
                # the class statement enclosing that line
                best = max((l for l in line_cls if l <= gd[0].line), default=None)
                owner = line_cls.get(best)
        except Exception as e:
            exc = exc or common.exc_sig(e)
        out.append(dict(c=c, a=a, line=ln, res=res, exc=exc, owner=owner, py=py.get((c, a))))
    return dict(src=src, h=h, probes=out, mros=mros, fail=fail, cls_line=cls_line)


# ------------------------------------------------------------------ core / bind streams
KINDS = [('ev', 'chk_eval'), ('ff', 'chk_fail'), ('inf', 'chk_infer')]
WHAT = {'ev': 'Coq eval (concrete semantics) vs CPython',
        'ff': 'Coq first_fail (which statement raises) vs CPython',
        'inf': 'Coq ainfer (abstract evaluator) vs Script.infer'}


def core_stream(ctx, items, stats):
    import time
    t0 = time.time()
    results = common.pmap(_core_task, items, chunksize=4)
    stats['t_jedi_exec_s'] += round(time.time() - t0, 1)
    groups, gmeta = [], []
    cur, curm = None, None
    pi = 0
    pending = []
    for item, r in zip(items, results):
        if 'skip' in r:
            stats['skipped'] += 1
            if 'exc' in r:
                ctx.deviation(dict(stream='core', exc=r['exc']['exc'], site=r['exc']['site']), dict(source=r.get('src'), error=r['exc']), 'Script() raised')
            else:
                ctx.violation('obligation', dict(what='check machinery: ' + str(r['skip'])[:300], source=r.get('src')), nofail=True)
            continue
        if cur is None or len(cur['defs']) >= 36:
            cur = dict(defs=[], ev=[], ff=[], inf=[])
            curm = dict(ev=[], ff=[], inf=[])
            groups.append(cur)
            gmeta.append(curm)
        kind = r['kind']
        stats['programs_' + kind] += 1
        stats['programs_in_theorem_fragment'] += not kw_star_clash(r['prog'])
        stats['statements'] += len(r['prog'])
        pname = 'p%d' % pi
        pi += 1
        gp = g_prog(r['prog'])
        cur['defs'].append('Definition %s := %s.' % (pname, gp))
        occs = {o[0]: o for o in r['occs']}
        cls_line = {int(k): v for k, v in r['cls_line'].items()}
        single, jtags, infidx = {}, {}, {}
        # (b) Script.infer vs ainfer
        for oid, a in sorted(r['answers'].items()):
            o = occs[oid]
            if a['exc']:
                ctx.deviation(dict(stream=kind, exc=a['exc']['exc'], site=a['exc']['site']),
                              dict(source=r['src'], line=o[3], column=a['col'], error=a['exc']), 'Script.infer raised')
                continue
            if a['gave_up']:
                stats['probes_cut_short_by_giveup_limits'] += 1     # outside the property's quantifier
                continue
            tags = sorted({tag_of_def(d, cls_line) for d in a['res']})
            jtags[oid] = tags
            stats['probes'] += 1
            ctx.count(kind + '-infer', (r['src'], oid), nontrivial=bool(tags))
            infidx[oid] = (len(groups) - 1, len(cur['inf']))
            cur['inf'].append('IN %s %d %d %d' % (pname, o[1], enc_path(o[8]), enc_tags(tags)))
            curm['inf'].append(dict(source=r['src'], line=o[3], column=a['col'], stmt=o[1], expr=g_expr(o[2]), infer=a['res'], program=gp))
        # (a) execution vs eval, (c) the property
        for run_ in r['runs']:
            stats['runs'] += 1
            k = 0 if run_['fail'] is None else run_['fail'] + 1
            stats['runs_raising'] += k != 0
            cur['ff'].append('FF %s %d %d' % (pname, enc_inp(run_['inp']), k))
            curm['ff'].append(dict(source=r['src'], inputs=run_['inp'], raising_statement=run_['fail'], exception=run_['exc'], program=gp))
            ctx.count(kind + '-run', (r['src'], tuple(run_['inp'])), nontrivial=True)
            seen = set()
            for oid, rc in run_['rec']:
                o = occs[oid]
                rc = tuple(rc)
                rt = tag_of_rt(rc, cls_line)
                if (oid, rt) in seen:
                    continue
                seen.add((oid, rt))
                stats['reached'] += 1
                ctx.count(kind + '-eval', (r['src'], oid, tuple(run_['inp'])), nontrivial=True)
                cur['ev'].append('EV %s %d %d %d %d' % (pname, enc_inp(run_['inp']), o[1], enc_path(o[8]), rt))
                curm['ev'].append(dict(source=r['src'], inputs=run_['inp'], line=o[3], span=[o[4], o[5]], stmt=o[1], expr=g_expr(o[2]),
                                       runtime=list(rc), program=gp))
                if oid not in jtags:
                    continue
                if oid not in single:
                    single[oid] = not tern_reach(r['prog'], o[1], o[2])
                stats['property_checks'] += 1
                stats['single_valued'] += single[oid]
                a = r['answers'][oid]
                names = [(d[0], d[2]) for d in a['res'] if d[1] == 'instance' and d[3]]
                ok_in = rc in names and rt in jtags[oid]
                ok_exact = (not single[oid]) or jtags[oid] == [rt]
                if not ok_in or not ok_exact:
                    pending.append((infidx[oid],
                                    dict(stream=kind, cls='class-missing' if not ok_in else 'not-exact', where=o[7],
                                         shape='keyword-names-star-param' if kw_star_clash(r['prog']) else 'plain'),
                                    dict(source=r['src'], line=o[3], column=a['col'], inputs=run_['inp'], runtime=list(rc), infer=a['res'],
                                         stmt=o[1], expr=g_expr(o[2]), program=gp),
                                    'line %d col %d: run-time class %r, infer reports %r%s' % (
                                        o[3], a['col'], rc, a['res'], '' if not ok_in else ' (single-valued expression: must be exactly that class)')))
    t0 = time.time()
    fails, err = coq_groups(groups, KINDS)
    stats['t_coq_s'] += round(time.time() - t0, 1)
    if err:
        raise RuntimeError('coq evaluation failed: ' + err)
    badinf = set(fails['inf'])
    for key, sig, data, what in pending:
        # predicted: the Coq transcription of jedi's evaluator gives exactly the answer the implementation gave
        sig['predicted'] = key not in badinf
        ctx.deviation(sig, data, what)
    for kind, _ in KINDS:
        stats['coq_%s_cases' % kind] += sum(len(g[kind]) for g in groups)
        stats['coq_%s_disagree' % kind] += len(fails[kind])
        for gi, ci in fails[kind][:4]:
            m = gmeta[gi][kind][ci]
            if kind == 'inf':
                q = 'map tagN (ainfer_tags %s %d%%nat %s)' % (m['program'], m['stmt'], m['expr'])
            elif kind == 'ev':
                q = 'eval %s %s %d%%nat %s' % (m['program'], g_inp(m['inputs']), m['stmt'], m['expr'])
            else:
                q = 'first_fail %s cinit %s 0%%nat' % (g_inp(m['inputs']), m['program'])
            model = common.coq_show(IMPORTS, [q])
            ctx.violation('obligation', dict(what='correspondence %s: model and implementation differ (the property oracle found no failing input at this case)' % WHAT[kind],
                                             input=m, model=model[-1500:]), nofail=True)
    for r in results[:2]:
        if 'src' in r and 'runs' in r:
            ctx.sample(dict(stream=r['kind'], source=r['src'], probes=len(r['answers']), runs=len(r['runs'])))
    return results


def g_inp(inp):
    return common.g_list(inp, common.g_bool, 'bool')


def kw_star_clash(prog):
    """harness-side classifier: some call passes a keyword that names a *args/**kwargs parameter of a
    function of the program (the negation of the theorems' hypothesis kw_ok_prog)"""
    star = {x for st in prog if st[0] == 'def' for x, k, _ in st[2] if k != 'reg'}
    found = []

    def walk(e):
        if e[0] == 'tuple':
            [walk(x) for x in e[1]]
        elif e[0] == 'index':
            walk(e[1])
        elif e[0] == 'tern':
            walk(e[2]), walk(e[3])
        elif e[0] == 'call':
            [walk(x) for x in e[2]]
            for k, x in e[3]:
                if k in star:
                    found.append(k)
                walk(x)
    for st in prog:
        if st[0] == 'assign':
            walk(st[2])
        elif st[0] == 'def':
            walk(st[3])
            [walk(d) for _, _, d in st[2] if d is not None]
    return bool(found)


# ------------------------------------------------------------------ mro stream
def mro_stream(ctx, hiers, stats):
    results = common.pmap(_mro_task, list(enumerate(hiers)), chunksize=8)
    groups, gmeta = [], []
    cur = None
    hi = 0
    pending = []
    for h, r in zip(hiers, results):
        if 'skip' in r:
            stats['skipped'] += 1
            if 'exc' in r:
                ctx.deviation(dict(stream='mro', exc=r['exc']['exc'], site=r['exc']['site']), dict(source=r.get('src'), error=r['exc']), 'Script() raised')
            continue
        if cur is None or len(cur['defs']) >= 200:
            cur = dict(defs=[], at=[], mr=[])
            curm = dict(at=[], mr=[])
            groups.append(cur)
            gmeta.append(curm)
        stats['hierarchies'] += 1
        stats['hier_class_stmt_raises'] += r['fail'] is not None
        hname = 'h%d' % hi
        hi += 1
        gh = g_hier(h)
        cur['defs'].append('Definition %s := %s.' % (hname, gh))
        mros = {int(k): v for k, v in r['mros'].items()}
        for c, _, _ in h:
            cur['mr'].append('MR %s %d %d' % (hname, c, enc_path(mros.get(c, []))))
            curm['mr'].append(dict(source=r['src'], cls=c, python_mro=mros.get(c), hierarchy=gh))
            ctx.count('mro-c3', (r['src'], c), nontrivial=len(mros.get(c, [])) > 2)
        for pr in r['probes']:
            if pr['exc']:
                ctx.deviation(dict(stream='mro', exc=pr['exc']['exc'], site=pr['exc']['site']),
                              dict(source=r['src'], line=pr['line'], error=pr['exc']), 'Script.infer/goto raised')
                continue
            stats['mro_probes'] += 1
            res = pr['res']
            jl = 0
            if len(res) == 1 and res[0][1] == 'instance' and res[0][2] is None:
                jl = TAGN.get(res[0][0], 9)
            elif res:
                jl = 9
            jc = (pr['owner'] or 0) if res else 0
            py = pr['py']
            pc, pl = (py[0] or 0, TAGN.get(py[1], 9)) if py else (0, 0)
            cur['at'].append('AT %s %d %d %d %d %d %d' % (hname, pr['c'], pr['a'], jc, jl, pc, pl))
            curm['at'].append(dict(source=r['src'], line=pr['line'], cls=pr['c'], attr=pr['a'], infer=res, jedi_owner=pr['owner'], python=py, hierarchy=gh))
            ctx.count('mro-attr', (r['src'], pr['c'], pr['a']), nontrivial=py is not None)
            # the property itself: single-valued expression -> exactly the run-time class
            if py is not None:
                stats['property_checks'] += 1
                if jl != pl:
                    # classifier computed from the input: the class Python takes the attribute from is not the first
                    # definer in depth-first order (only possible with multiple inheritance), and jedi answers with
                    # the depth-first definer
                    dfs = dfs_owner(h, pr['c'], pr['a'])
                    cls = 'diamond-override-in-later-branch' if (dfs is not None and dfs != pc and jc == dfs) else 'other'
                    pending.append(((len(groups) - 1, len(cur['at']) - 1), dict(stream='mro', cls=cls),
                                    dict(source=r['src'], line=pr['line'], runtime=py, infer=res, jedi_owner=pr['owner'], hierarchy=gh),
                                    'line %d: attribute comes from class K%s (%s) at run time; infer reports %r (found in K%s)' % (
                                        pr['line'], py[0], py[1], res, pr['owner'])))
    fails, err = coq_groups(groups, [('at', 'chk_attr'), ('mr', 'chk_mro')])
    if err:
        raise RuntimeError('coq evaluation failed (mro): ' + err)
    badat = set(fails['at'])
    for key, sig, data, what in pending:
        sig['predicted'] = key not in badat     # the Coq depth-first model gives the implementation's (wrong) answer
        ctx.deviation(sig, data, what)
    for kind, what in (('at', 'Coq jedi_attr / py_attr vs Script.infer+goto / CPython attribute lookup'), ('mr', 'Coq c3_table vs CPython __mro__')):
        stats['coq_%s_cases' % kind] += sum(len(g[kind]) for g in groups)
        stats['coq_%s_disagree' % kind] += len(fails[kind])
        for gi, ci in fails[kind][:4]:
            m = gmeta[gi][kind][ci]
            q = ('(jedi_attr %s %d %d, py_attr %s %d %d)' % (m['hierarchy'], m['cls'], m['attr'], m['hierarchy'], m['cls'], m['attr'])
                 if kind == 'at' else '(c3_table [] %s, jedi_table [] %s)' % (m['hierarchy'], m['hierarchy']))
            model = common.coq_show(IMPORTS, [q])
            ctx.violation('obligation', dict(what='correspondence %s: model and implementation differ' % what, input=m, model=model[-1500:]), nofail=True)
    for r in results[:1]:
        if 'src' in r:
            ctx.sample(dict(stream='mro', source=r['src']))


def dfs_owner(h, c, a):
    """harness-side depth-first search for the first class defining attribute a (independent of the Coq model)"""
    byid = {k[0]: k for k in h}
    seen = []

    def walk(x):
        if x in seen or x not in byid:
            return
        seen.append(x)
        for b in byid[x][1]:
            walk(b)
    walk(c)
    for x in seen:
        if any(at == a for at, _ in byid[x][2]):
            return x
    return None


# ------------------------------------------------------------------ exploration stream (model-free)
# Programs over the wider documented feature list, assembled from parametrised scenarios.  Every
# name r_*/x_* bound anywhere is a probe: the classes of the values bound to it at run time must be
# among the definitions Script.infer reports at that binding occurrence (x_*: exactly that class).
EX_PRELUDE = ['class Ka:', '    pass', 'class Kb(Ka):', '    pass', 'class Kc:', '    pass']
EX_VALUES = ['1', "'s'", '2.5', "b'b'", 'Ka()', 'Kb()', 'Kc()']
EX_ANN = {'1': 'int', "'s'": 'str', '2.5': 'float', "b'b'": 'bytes', 'Ka()': 'Ka', 'Kb()': 'Kb', 'Kc()': 'Kc'}


def sc_closure(u, V, rng):
    a, b, c = V(), V(), V()
    return ['def outer_%s(p):' % u,
            '    y = %s' % a,
            '    def inner(q):',
            '        return (p, y, q)',
            '    return inner',
            'x_%s_a = outer_%s(%s)(%s)[0]' % (u, u, b, c),
            'x_%s_b = outer_%s(%s)(%s)[1]' % (u, u, b, c),
            'x_%s_c = outer_%s(%s)(%s)[2]' % (u, u, b, c)]


def sc_lambda(u, V, rng):
    a, b, c, d = V(), V(), V(), V()
    return ['f_%s = lambda p, q=%s: (q, p)' % (u, a),
            'x_%s_a = f_%s(%s)[0]' % (u, u, b),
            'x_%s_b = f_%s(%s, %s)[0]' % (u, u, b, c),
            'x_%s_c = f_%s(q=%s, p=%s)[1]' % (u, u, c, d),
            'x_%s_d = (lambda: %s)()' % (u, d)]


def sc_generator(u, V, rng):
    a, b, c = V(), V(), V()
    out = ['def g_%s(p):' % u,
           '    yield %s' % a,
           '    yield p',
           'for r_%s_a in g_%s(%s):' % (u, u, b),
           '    pass',
           'def h_%s():' % u,
           '    yield (%s, %s)' % (a, c),
           'for x_%s_b, x_%s_c in h_%s():' % (u, u, u),
           '    pass']
    if rng.random() < 0.5:
        out += ['def d_%s():' % u, '    yield from g_%s(%s)' % (u, c), 'for r_%s_d in d_%s():' % (u, u), '    pass']
    return out


def sc_comprehension(u, V, rng):
    a, b, c = V(), V(), V()
    return ['l_%s = [e for e in (%s, %s)]' % (u, a, b),
            'r_%s_a = l_%s[0]' % (u, u),
            'for r_%s_b in l_%s:' % (u, u),
            '    pass',
            'r_%s_c = [(e, %s) for e in (%s, %s)][1][0]' % (u, c, a, b),
            'x_%s_d = [(e, %s) for e in (%s, %s)][1][1]' % (u, c, a, b),
            'for r_%s_e in (e for e in (%s, %s)):' % (u, a, b),
            '    pass']


def sc_decorator(u, V, rng):
    a, b = V(), V()
    return ['def deco_%s(fn):' % u,
            '    def w(p):',
            '        return (fn(p), %s)' % a,
            '    return w',
            'def ident_%s(fn):' % u,
            '    return fn',
            '@deco_%s' % u,
            'def d_%s(p):' % u,
            '    return p',
            '@ident_%s' % u,
            'def e_%s(p):' % u,
            '    return (p,)',
            'x_%s_a = d_%s(%s)[0]' % (u, u, b),
            'x_%s_b = d_%s(%s)[1]' % (u, u, b),
            'x_%s_c = e_%s(%s)[0]' % (u, u, b)]


def sc_descriptors(u, V, rng):
    a, b, c = V(), V(), V()
    return ['class P_%s:' % u,
            '    def __init__(self, p):',
            '        self.p = p',
            '    @property',
            '    def prop(self):',
            '        return self.p',
            '    @staticmethod',
            '    def sm(q):',
            '        return (q, %s)' % a,
            '    @classmethod',
            '    def cm(cls, q):',
            '        return cls(q)',
            'o_%s = P_%s(%s)' % (u, u, b),
            'x_%s_a = o_%s.prop' % (u, u),
            'x_%s_b = o_%s.sm(%s)[0]' % (u, u, c),
            'x_%s_c = P_%s.sm(%s)[1]' % (u, u, c),
            'x_%s_d = P_%s.cm(%s)' % (u, u, c),
            'x_%s_e = o_%s.cm(%s).prop' % (u, u, c)]


def sc_magic(u, V, rng):
    a, b, c, d = V(), V(), V(), V()
    return ['class M_%s:' % u,
            '    def __init__(self, p):',
            '        self.p = p',
            '    def __call__(self, q):',
            '        return (q, self.p)',
            '    def __getitem__(self, i):',
            '        return %s' % a,
            '    def __iter__(self):',
            '        yield self.p',
            '        yield %s' % b,
            '    def __enter__(self):',
            '        return self.p',
            '    def __exit__(self, *e):',
            '        pass',
            'm_%s = M_%s(%s)' % (u, u, c),
            'x_%s_a = m_%s(%s)[0]' % (u, u, d),
            'x_%s_b = m_%s(%s)[1]' % (u, u, d),
            'x_%s_c = m_%s[0]' % (u, u),
            'for r_%s_d in m_%s:' % (u, u),
            '    pass',
            'with m_%s as x_%s_e:' % (u, u),
            '    pass']


def sc_isinstance(u, V, rng):
    # no `return` below the test and no use of the result: inferring the call would evaluate
    # isinstance() itself, whose bool result needs the absent stubs (K2)
    a, b = V(), V()
    return ['def n_%s(p):' % u,
            '    if isinstance(p, Ka):',
            '        r_%s_a = p' % u,
            '    else:',
            '        r_%s_b = p' % u,
            'n_%s(%s)' % (u, a),
            'n_%s(Kb())' % u,
            'n_%s(%s)' % (u, b)]


def sc_annotation(u, V, rng):
    a = V()
    t = EX_ANN[a]
    b = V()
    return ['def an_%s(p: %s, q) -> %s:' % (u, t, t),
            '    x_%s_a = p' % u,
            '    return p',
            'x_%s_b = an_%s(%s, %s)' % (u, u, a, b),
            'x_%s_c: %s = %s' % (u, t, a)]


def sc_docstring(u, V, rng):
    a = rng.choice(['Ka()', 'Kb()', 'Kc()'])
    t = EX_ANN[a]
    b = V()
    return ['def ds_%s(p, q):' % u,
            '    """',
            '    :type p: %s' % t,
            '    :rtype: %s' % t,
            '    """',
            '    r_%s_a = p' % u,
            '    return p',
            'r_%s_b = ds_%s(%s, %s)' % (u, u, a, b)]


def sc_inherit(u, V, rng):
    a, b, c, d, e = V(), V(), V(), V(), V()
    out = ['class I_%s:' % u,
           '    ca = %s' % a,
           '    def __init__(self, p, q=%s):' % b,
           '        self.p = p',
           '        self.q = q',
           '    def m(self):',
           '        return (self.p, self.q, self.ca)',
           '    def me(self):',
           '        return self',
           'class J_%s(I_%s):' % (u, u),
           '    cb = %s' % c,
           '    def n(self):',
           '        return self.m()[0]',
           'i_%s = I_%s(%s)' % (u, u, d),
           'j_%s = J_%s(%s, %s)' % (u, u, e, d),
           'x_%s_a = i_%s.p' % (u, u),
           'x_%s_b = i_%s.q' % (u, u),
           'x_%s_c = j_%s.q' % (u, u),
           'x_%s_d = j_%s.m()[0]' % (u, u),
           'x_%s_e = j_%s.n()' % (u, u),
           'x_%s_f = j_%s.ca' % (u, u),
           'x_%s_g = j_%s.cb' % (u, u),
           'x_%s_h = j_%s.me().me().m()[2]' % (u, u),
           'x_%s_i = j_%s.me()' % (u, u)]
    return out


def sc_super_init(u, V, rng):
    a, b, c = V(), V(), V()
    return ['class S_%s:' % u,
            '    def __init__(self, p, q=%s):' % a,
            '        self.p = p',
            '        self.q = q',
            'class T_%s(S_%s):' % (u, u),
            '    def __init__(self, p):',
            '        super().__init__(p, %s)' % b,
            't_%s = T_%s(%s)' % (u, u, c),
            'x_%s_a = t_%s.p' % (u, u),
            'x_%s_b = t_%s.q' % (u, u)]


def sc_flow(u, V, rng):
    a, b, c, d = V(), V(), V(), V()
    return ['class E_%s(Exception):' % u,
            '    pass',
            'for r_%s_a in (%s, %s):' % (u, a, b),
            '    pass',
            'for x_%s_b, x_%s_c in ((%s, %s), (%s, %s)):' % (u, u, a, b, a, b),
            '    pass',
            'try:',
            '    r_%s_d = %s' % (u, c),
            '    raise E_%s()' % u,
            'except E_%s as x_%s_e:' % (u, u),
            '    r_%s_f = %s' % (u, d),
            '    x_%s_h = x_%s_e' % (u, u),
            'if cond_%s:' % u,
            '    v_%s = %s' % (u, a),
            'else:',
            '    v_%s = %s' % (u, b),
            'r_%s_g = v_%s' % (u, u)]


def sc_unpack(u, V, rng):
    a, b, c = V(), V(), V()
    return ['x_%s_a, x_%s_b = (%s, %s)' % (u, u, a, b),
            '(x_%s_c, (x_%s_d, x_%s_e)) = (%s, (%s, %s))' % (u, u, u, a, b, c),
            '[x_%s_f, x_%s_g] = [%s, %s]' % (u, u, b, c),
            't_%s = (%s, %s, %s)' % (u, a, b, c),
            'x_%s_h, x_%s_i, x_%s_j = t_%s' % (u, u, u, u),
            'x_%s_k, x_%s_l = x_%s_b, x_%s_a' % (u, u, u, u)]


def sc_star_unpack(u, V, rng):
    a, b, c = V(), V(), V()
    return ['x_%s_a, *x_%s_b = (%s, %s, %s)' % (u, u, a, b, c)]


def sc_containers(u, V, rng):
    a, b, c = V(), V(), V()
    return ['x_%s_a = [%s, %s][1]' % (u, a, b),
            "x_%s_b = {'k': %s, 'l': %s}['l']" % (u, a, b),
            'x_%s_c = (%s, (%s, %s))[1][0]' % (u, a, b, c),
            'x_%s_d = (%s, %s, %s)[-1]' % (u, a, b, c),
            'x_%s_e = [%s, %s]' % (u, a, b),
            "x_%s_f = {'k': %s}" % (u, a),
            'x_%s_g = (%s, %s)' % (u, a, b)]


def sc_params(u, V, rng):
    a, b, c, d = V(), V(), V(), V()
    return ['gv_%s = %s' % (u, a),
            'def rd_%s():' % u,
            '    return gv_%s' % u,
            'x_%s_a = rd_%s()' % (u, u),
            'def st_%s(*args):' % u,
            '    return args[1]',
            'x_%s_b = st_%s(%s, %s, %s)' % (u, u, b, c, d),
            'def kw_%s(**kwargs):' % u,
            "    return kwargs['k']",
            'x_%s_c = kw_%s(j=%s, k=%s)' % (u, u, b, c),
            'def df_%s(p, q=%s, *, r=%s):' % (u, a, b),
            '    return (p, q, r)',
            'x_%s_d = df_%s(%s, r=%s)[1]' % (u, u, c, d),
            'x_%s_e = df_%s(%s, r=%s)[2]' % (u, u, c, d)]


def sc_dynparam(u, V, rng):
    a, b = V(), V()
    return ['def dp_%s(p):' % u,
            '    r_%s_a = p' % u,
            '    return (p,)',
            'x_%s_b = dp_%s(%s)[0]' % (u, u, a),
            'x_%s_c = dp_%s(%s)[0]' % (u, u, b)]


def sc_rebind(u, V, rng):
    a, b, c, d = V(), V(), V(), V()
    return ['v_%s = %s' % (u, a),
            'x_%s_a = v_%s' % (u, u),
            'v_%s = %s' % (u, b),
            'x_%s_b = v_%s' % (u, u),
            'def rb_%s(p):' % u,
            '    w = p',
            '    w = (w, %s)' % c,
            '    return w',
            'x_%s_c = rb_%s(%s)[1]' % (u, u, d),
            'x_%s_d = rb_%s(%s)[0]' % (u, u, d),
            'v_%s = %s' % (u, c),
            'x_%s_e = v_%s' % (u, u)]


# ---- round 2: two directed families (also mixed into the random programs) -------------------------
# (a) class-level callables reached through the MRO: @classmethod / @staticmethod defined in a base (or
#     middle) class, called on the defining class, on SUBCLASS OBJECTS (1-2 levels below), through an alias
#     of the class object and on instances; the result depends on `cls` (cls(), cls(1), cls(q), cls itself,
#     another classmethod through cls).  Every class has its own line, so "instance of Base" and "instance of
#     Sub" are different answers for the x_* (exact) probes.
# (b) binary operators between instances of two unrelated user classes: forward only, reflected only,
#     both; the magic method returns `other`, `self`, a fixed value, `other.w()` or `self.w()`; inline
#     operands, operands through names, an operand of a subclass that inherits the magic method, and
#     the augmented form.  Oracle for both: CPython execution.
CM_VARIANTS = [dict(depth=d, definer=w, ctor=c) for d in (1, 2) for w in ('base', 'mid') for c in ('cls()', 'cls(1)', 'cls(q)')
               if not (d == 1 and w == 'mid')]
BIN_OPS = ['+', '-', '*', '/', '//', '@', '**', '<<', '>>', '&', '|', '^']      # no '%': jedi answers the left operand by design
BIN_MAGIC = {'+': 'add', '-': 'sub', '*': 'mul', '/': 'truediv', '//': 'floordiv', '@': 'matmul', '**': 'pow', '<<': 'lshift',
             '>>': 'rshift', '&': 'and', '|': 'or', '^': 'xor'}
BIN_MODES = ['fwd', 'rev', 'both']
BIN_RETS = ['other', 'self', 'fixed', 'other.w()', 'self.w()']
BIN_VARIANTS = []
for _i, _ops in enumerate([('+', '-', '*'), ('-', '*', '+'), ('*', '+', '-'), ('/', '@', '|'), ('//', '**', '&'), ('<<', '>>', '^')]):
    for _m in range(3):
        for _r in range(5):
            # three operators per program; mode and return kind rotate so that over the family every
            # (operator of + - *, mode, return kind) combination occurs
            BIN_VARIANTS.append(dict(ops=[(_ops[k], BIN_MODES[(_m + k) % 3], BIN_RETS[(_r + k * 2) % 5], BIN_RETS[(_r + k * 2 + 1 + _i) % 5])
                                          for k in range(3)], nr=_i * 15 + _m * 5 + _r))


def sc_clsmeth(u, V, rng, variant=None):
    v = variant or dict(depth=rng.choice((1, 2)), definer=rng.choice(('base', 'mid')), ctor=rng.choice(('cls()', 'cls(1)', 'cls(q)')))
    depth, ctor = v['depth'], v['ctor']
    mid = v['definer'] == 'mid' and depth == 2
    a, b, c, d, e = V(), V(), V(), V(), V()
    B, S, T = 'B_%s' % u, 'S_%s' % u, 'T_%s' % u
    sig = 'cls, q' if ctor == 'cls(q)' else 'cls'
    arg = (lambda val: val) if ctor == 'cls(q)' else (lambda val: '')
    meths = ['    @classmethod',
             '    def mk(%s):' % sig,
             '        return %s' % ctor,
             '    @classmethod',
             '    def kd(cls):',
             '        return cls',
             '    @classmethod',
             '    def tp(cls, q):',
             '        return (%s, q)' % ('cls(q)' if ctor == 'cls(q)' else ctor),
             '    @classmethod',
             '    def ch(%s):' % sig,
             '        return cls.mk(%s)' % ('q' if ctor == 'cls(q)' else ''),
             '    @staticmethod',
             '    def sm(q):',
             '        return (q, %s)' % a,
             '    def im(self, q):',
             '        return self.mk(%s)' % ('q' if ctor == 'cls(q)' else '')]
    init = ['    def __init__(self, p=%s):' % b,
            '        self.p = p']
    out = ['class %s:' % B] + init + ([] if mid else meths)
    out += ['class %s(%s):' % (S, B), '    tag = %s' % c] + (meths if mid else [])
    classes = [S] if mid else [B, S]
    if depth == 2:
        out += ['class %s(%s):' % (T, S), '    pass']
        classes.append(T)
    n = [0]

    def probe(rhs):
        n[0] += 1
        out.append('x_%s_%s = %s' % (u, 'abcdefghijklmnopqrstuvwxyz'[n[0] - 1] if n[0] <= 26 else 'z%d' % n[0], rhs))
    for K in classes:
        probe('%s.mk(%s)' % (K, arg(d)))
        probe('%s(%s).mk(%s)' % (K, e, arg(d)))
    low = classes[-1]
    probe('%s.kd()()' % low)
    probe('%s.tp(%s)[0]' % (low, d))
    probe('%s.tp(%s)[1]' % (low, d))
    probe('%s.ch(%s)' % (low, arg(e)))
    probe('%s.sm(%s)[0]' % (low, d))
    probe('%s().sm(%s)[1]' % (low, d))
    probe('%s().im(%s)' % (low, e))
    probe('%s.mk(%s).p' % (low, arg(d)))
    out.append('c_%s = %s' % (u, low))
    probe('c_%s.mk(%s)' % (u, arg(e)))
    probe('c_%s().tp(%s)[0]' % (u, e))
    return out


def sc_binop(u, V, rng, variant=None):
    if variant is None:
        ops = rng.sample(BIN_OPS[:3], 2) + [rng.choice(BIN_OPS)]
        variant = dict(ops=[(o, rng.choice(BIN_MODES), rng.choice(BIN_RETS), rng.choice(BIN_RETS)) for o in dict.fromkeys(ops)], nr=rng.randrange(21))
    fixed = list(EX_VALUES)
    k = variant['nr'] % len(fixed)
    fixed = fixed[k:] + fixed[:k]            # pairwise distinct classes for w() of both sides and the fixed results
    L, L2, R, R2 = 'L_%s' % u, 'LL_%s' % u, 'R_%s' % u, 'RR_%s' % u
    wl, wr = ('self', fixed[0]) if variant['nr'] % 3 == 0 else (fixed[0], 'self') if variant['nr'] % 3 == 1 else (fixed[0], fixed[1])

    def ret(kind, n):
        return fixed[2 + n % 3] if kind == 'fixed' else kind
    lbody, rbody = ['    def w(self):', '        return %s' % wl], ['    def w(self):', '        return %s' % wr]
    for n, (op, mode, fret, rret) in enumerate(variant['ops']):
        if mode in ('fwd', 'both'):
            lbody += ['    def __%s__(self, other):' % BIN_MAGIC[op], '        return %s' % ret(fret, n)]
        if mode in ('rev', 'both'):
            rbody += ['    def __r%s__(self, other):' % BIN_MAGIC[op], '        return %s' % ret(rret, n + 1)]
    out = ['class %s:' % L] + lbody + ['class %s(%s):' % (L2, L), '    pass', 'class %s:' % R] + rbody + ['class %s(%s):' % (R2, R), '    pass']
    out += ['l_%s = %s()' % (u, L), 'rr_%s = %s()' % (u, R2)]
    n = [0]

    def probe(rhs):
        n[0] += 1
        out.append('x_%s_%s = %s' % (u, 'abcdefghijklmnopqrstuvwxyz'[n[0] - 1] if n[0] <= 26 else 'z%d' % n[0], rhs))
    for (op, mode, fret, rret) in variant['ops']:
        probe('%s() %s %s()' % (L, op, R))
        probe('l_%s %s rr_%s' % (u, op, u))
        probe('%s() %s %s()' % (L2, op, R))
        out.append('g_%s = %s()' % (u, L))
        out.append('g_%s %s= %s()' % (u, op, R))
        probe('g_%s' % u)
    return out


def sc_genorder(u, V, rng, variant=None):
    """generator with plain yields on BOTH sides of a `for ...: yield` loop, consumed by positional unpacking:
    the i-th target gets the i-th yielded value (second campaign, seeded C02-m3)"""
    H, M, T = 'H_%s' % u, 'M_%s' % u, 'T_%s' % u
    return ['class %s:' % H, '    pass', 'class %s:' % M, '    pass', 'class %s:' % T, '    pass',
            'def st_%s():' % u,
            '    yield %s()' % H,
            '    for it_%s in (%s(), %s()):' % (u, M, M),
            '        yield it_%s' % u,
            '    yield %s()' % T,
            'r_%s_a, r_%s_b, r_%s_c, r_%s_d = st_%s()' % (u, u, u, u, u),
            'def st2_%s():' % u,
            '    yield %s()' % T,
            '    yield %s()' % H,
            '    for it2_%s in (%s(),):' % (u, M),
            '        yield it2_%s' % u,
            '    yield %s()' % H,
            'r_%s_e, r_%s_f, r_%s_g, r_%s_h = st2_%s()' % (u, u, u, u, u)]


def sc_elif(u, V, rng, variant=None):
    """if / elif / else chains assigning one name: first test undecidable for jedi but true at run time, a later
    `elif` with a constant false test; the name read after the chain (second campaign, seeded C02-m4)"""
    D, S, X = 'D_%s' % u, 'S_%s' % u, 'X_%s' % u
    falsy = (variant or {}).get('falsy') or (rng.choice(['0', "''"]) if rng else '0')
    return ['class %s:' % D, '    pass', 'class %s:' % S, '    pass', 'class %s:' % X, '    pass',
            'class Cfg_%s:' % u,
            '    def __init__(self, level):',
            '        self.level = level',
            '    def deep(self):',
            '        return self.level * 2 > 3',
            'def mk_%s(cfg):' % u,
            '    if cfg.deep():',
            '        w = %s()' % D,
            '    elif %s:' % falsy,
            '        w = %s()' % X,
            '    else:',
            '        w = %s()' % S,
            '    return w',
            'r_%s_a = mk_%s(Cfg_%s(5))' % (u, u, u),
            'r_%s_b = mk_%s(Cfg_%s(0))' % (u, u, u),
            'def mk2_%s(cfg):' % u,
            '    if %s:' % falsy,
            '        w = %s()' % X,
            '    elif cfg.deep():',
            '        w = %s()' % D,
            '    else:',
            '        w = %s()' % S,
            '    return w',
            'r_%s_c = mk2_%s(Cfg_%s(5))' % (u, u, u),
            'r_%s_d = mk2_%s(Cfg_%s(1))' % (u, u, u)]


SCENARIOS = [('genorder', sc_genorder), ('elif', sc_elif), ('clsmeth', sc_clsmeth), ('binop', sc_binop),
             ('rebind', sc_rebind), ('closure', sc_closure), ('lambda', sc_lambda), ('generator', sc_generator), ('comprehension', sc_comprehension),
             ('decorator', sc_decorator), ('descriptors', sc_descriptors), ('magic', sc_magic), ('isinstance', sc_isinstance),
             ('annotation', sc_annotation), ('docstring', sc_docstring), ('inherit', sc_inherit), ('super_init', sc_super_init),
             ('flow', sc_flow), ('unpack', sc_unpack), ('star_unpack', sc_star_unpack), ('containers', sc_containers),
             ('params', sc_params), ('dynparam', sc_dynparam)]


def gen_directed():
    """the directed families of round 2: one program per variant, seed independent (values cycle)"""
    out = []
    for name, fn, variants in (('clsmeth', sc_clsmeth, CM_VARIANTS), ('binop', sc_binop, BIN_VARIANTS),
                               ('genorder', sc_genorder, [None]), ('elif', sc_elif, [dict(falsy='0'), dict(falsy="''")])):
        for j, variant in enumerate(variants):
            cyc = [j]

            def V():
                cyc[0] += 1
                return EX_VALUES[(cyc[0] * 3 + j) % len(EX_VALUES)]
            lines = list(EX_PRELUDE)
            block = fn('%s%d' % (name[:2], j), V, None, variant)
            where = {len(lines) + n + 1: name for n in range(len(block))}
            out.append(('\n'.join(lines + block) + '\n', where))
    return out


def gen_explore(rng, k):
    lines = list(EX_PRELUDE)
    where = {}
    for j in range(k):
        name, fn = rng.choice(SCENARIOS)
        u = '%s%d' % (name[:2], j)
        block = fn(u, lambda: rng.choice(EX_VALUES), rng)
        for n in range(len(block)):
            where[len(lines) + n + 1] = name
        lines += block
    return '\n'.join(lines) + '\n', where


class _Rec(ast.NodeTransformer):
    """after every statement that binds names r_*/x_* insert a recorder call"""

    def __init__(self, srclines):
        self.srclines = srclines
        self.probes = {}

    def _names(self, target):
        out = []
        for n in ast.walk(target):
            if isinstance(n, ast.Name) and isinstance(n.ctx, ast.Store) and n.id[:2] in ('r_', 'x_'):
                out.append((n.lineno, n.col_offset, n.id))
        return out

    def _calls(self, names, at):
        out = []
        for ln, col, nm in names:
            self.probes[(ln, col)] = nm
            call = ast.Expr(ast.Call(func=ast.Name(id='_jv_q', ctx=ast.Load()),
                                     args=[ast.Constant(ln), ast.Constant(col), ast.Name(id=nm, ctx=ast.Load())], keywords=[]))
            out.append(ast.copy_location(call, at))
        return out

    def _block(self, body):
        new = []
        for st in body:
            st = self.visit(st)
            new.append(st)
            if isinstance(st, ast.Assign):
                names = [x for t in st.targets for x in self._names(t)]
                new += self._calls(names, st)
            elif isinstance(st, ast.AnnAssign) and st.value is not None:
                new += self._calls(self._names(st.target), st)
        return new

    def generic_visit(self, node):
        for field in ('body', 'orelse', 'finalbody'):
            body = getattr(node, field, None)
            if isinstance(body, list) and body and isinstance(body[0], ast.stmt):
                setattr(node, field, self._block(body))
        if isinstance(node, ast.Try):
            for h in node.handlers:
                self.generic_visit(h)
        if isinstance(node, ast.For):
            node.body = self._calls(self._names(node.target), node) + node.body
        if isinstance(node, ast.With):
            names = [x for it in node.items if it.optional_vars is not None for x in self._names(it.optional_vars)]
            node.body = self._calls(names, node) + node.body
        if isinstance(node, ast.ExceptHandler) and node.name and node.name[:2] in ('r_', 'x_'):
            line = self.srclines[node.lineno - 1]
            col = line.index(' as ' + node.name) + 4
            node.body = self._calls([(node.lineno, col, node.name)], node) + node.body
        if isinstance(node, ast.ClassDef):
            mark = ast.Assign(targets=[ast.Name(id='__jv_line__', ctx=ast.Store())], value=ast.Constant(value=node.lineno))
            node.body.insert(0, ast.copy_location(mark, node))
        return node


def _explore_task(item):
    idx, src, where = item
    import jedi
    watch_limits()
    try:
        tree = ast.parse(src)
    except SyntaxError as e:
        return dict(skip='syntax %r' % (e,), src=src)
    rec = _Rec(src.split('\n'))
    tree = rec.visit(tree)
    ast.fix_missing_locations(tree)
    seen = {}
    r = random.Random(idx)
    g = {'_jv_q': lambda ln, col, v: seen.setdefault((ln, col), set()).add(runtime_class(v))}
    for ln, name in where.items():
        pass
    import re
    for m in re.finditer(r'\bcond_\w+', src):
        g[m.group(0)] = r.random() < 0.5
    err = None
    try:
        exec(compile(tree, '<explore>', 'exec'), g)
    except Exception as e:
        err = '%s: %s' % (type(e).__name__, e)
    out = []
    try:
        script = jedi.Script(src)
    except Exception as e:
        return dict(skip='script', exc=common.exc_sig(e), src=src)
    for (ln, col), classes in sorted(seen.items()):
        res, exc = ask(script, ln, col)
        if GAVE_UP[0]:
            script = jedi.Script(src)
        out.append(dict(line=ln, col=col, name=rec.probes.get((ln, col)), runtime=sorted(classes, key=repr), res=res, exc=exc, gave_up=GAVE_UP[0],
                        scenario=where.get(ln) or where.get(str(ln))))
    return dict(src=src, probes=out, err=err)


def explore_stream(ctx, items, stats):
    results = common.pmap(_explore_task, items, chunksize=4)
    for r in results:
        if 'skip' in r:
            stats['skipped'] += 1
            if 'exc' in r:
                ctx.deviation(dict(stream='explore', exc=r['exc']['exc'], site=r['exc']['site']), dict(source=r.get('src'), error=r['exc']), 'Script() raised')
            else:
                ctx.violation('obligation', dict(what='check machinery (explore): ' + str(r['skip'])[:300], source=r.get('src')), nofail=True)
            continue
        stats['explore_programs'] += 1
        if r['err']:
            stats['explore_programs_raising'] += 1
            ctx.violation('obligation', dict(what='check machinery (explore): generated program raised ' + r['err'], source=r['src']), nofail=True)
        for pr in r['probes']:
            sc = pr['scenario']
            label = (pr['name'] or '').rsplit('_', 1)[-1]
            if pr['exc']:
                ctx.deviation(dict(stream='explore', scenario=sc, exc=pr['exc']['exc'], site=pr['exc']['site']),
                              dict(source=r['src'], line=pr['line'], column=pr['col'], error=pr['exc']), 'Script.infer raised')
                continue
            if pr.get('gave_up'):
                stats['explore_probes_cut_short_by_giveup_limits'] += 1
                continue
            stats['explore_probes'] += 1
            if sc in ('clsmeth', 'binop'):
                stats['explore_probes_' + sc] += 1
            ctx.count('explore', (r['src'], pr['line'], pr['col']), nontrivial=True)
            got = {(d[0], d[2]) for d in pr['res'] if d[1] == 'instance'}
            rt = {tuple(x) for x in pr['runtime']}
            missing = sorted(rt - got, key=repr)
            exact = pr['name'].startswith('x_') and len(rt) == 1
            extra = sorted({(d[0], d[2]) for d in pr['res']} - rt, key=repr) if exact else []
            if missing or extra:
                ctx.deviation(dict(stream='explore', scenario=sc, probe=label, cls='class-missing' if missing else 'not-exact'),
                              dict(source=r['src'], line=pr['line'], column=pr['col'], runtime=sorted(rt, key=repr), infer=pr['res']),
                              '%s/%s line %d: run-time classes %r, infer reports %r' % (sc, label, pr['line'], sorted(rt, key=repr), pr['res']))
    for r in results[:1]:
        if 'src' in r:
            ctx.sample(dict(stream='explore', source=r['src']))


# ------------------------------------------------------------------ run
def run(ctx):
    import collections
    common.setup_jedi(os.path.join(ctx.tmp, 'cache'))
    import time
    t00 = time.time()
    ctx.proofs()
    t_proofs = round(time.time() - t00, 1)
    ctx.cov['fingerprints'] = common.fingerprint(FP)
    ctx.cov['rule'] = (
        'core/bind: seeded random programs of the core language (<= 25 statements; bind: one signature x one call, parameters '
        'returned as a tuple); a case = one probed expression occurrence (infer) or one occurrence x condition input (eval); '
        'non-trivial = infer reports something / the occurrence was evaluated by the run; distinct by (source, occurrence, input). '
        'mro: hierarchies over 4 classes from the exhaustive enumeration (bases = ordered selections of <= 2 earlier classes, '
        'override pattern) plus seeded random hierarchies of 3..6 classes; a case = (class, attribute). '
        'explore: seeded programs assembled from 21 feature scenarios with random values, plus the seed-independent directed families '
        '(9 programs: @classmethod/@staticmethod defined in a base or middle class called on the defining class, subclass objects 1-2 '
        'levels below, a class alias and instances, result built from cls; 90 programs: binary operators between instances of two '
        'unrelated user classes, forward only / reflected only / both x result other / self / fixed / other.w() / self.w(), every '
        'combination for + - * and nine further operators, inline and named operands, inherited magic method, augmented form); '
        'a case = one binding occurrence r_*/x_*.')
    ctx.assumptions += [
        'function bodies of the core language are closed (parameters, earlier functions, earlier classes); names of functions and classes are unique',
        'Script.infer is asked at the closing bracket / number / name of an occurrence and at the target name for a whole right-hand side',
        'the printer from core programs to Python text, the AST-level recorder and the occurrence/path table are harness code',
        'jedi\'s give-up limits (6 executions per function and query) are not modelled; generated programs stay below them',
        'exploration scenarios avoid what needs the absent typeshed stubs (builtin calls, None/True/False, str/bytes subscripts, *args forwarding wrappers)']
    stats = collections.Counter()
    stats['t_proofs_s'] = t_proofs
    rng = ctx.rng
    # core + bind
    n_core, n_bind = ctx.n(150, 900), ctx.n(100, 500)
    items = []
    for i in range(n_core):
        items.append(('core', i, Gen(rng, rng.randint(6, 25)).run()))
    for i in range(n_bind):
        items.append(('bind', n_core + i, gen_bind_prog(rng)))
    import time
    t0 = time.time()
    core_stream(ctx, items, stats)
    stats['t_core_stream_s'] = round(time.time() - t0, 1)
    t0 = time.time()
    # mro
    allh = list(enum_hier4())
    # seed-independent corpus: the sixteen diamonds K2(K1), K3(K1), K4(K2, K3) / K4(K3, K2) x override patterns
    corpus = [h for h in allh if h[1][1] == [1] and h[2][1] == [1] and sorted(h[3][1]) == [2, 3]]
    rng.shuffle(allh)
    hiers = corpus + allh[:ctx.n(100, 600)]
    for _ in range(ctx.n(70, 400)):
        hiers.append(gen_hier(rng, rng.randint(3, 6)))
    mro_stream(ctx, hiers, stats)
    stats['t_mro_stream_s'] = round(time.time() - t0, 1)
    t0 = time.time()
    # explore
    ex = []
    for i in range(ctx.n(100, 600)):
        src, where = gen_explore(rng, rng.randint(3, 6))
        ex.append((i, src, where))
    # round 2: the directed families (inherited class-level callables, binary operators) run in every tier
    directed = gen_directed()
    for src, where in directed:
        ex.append((len(ex), src, where))
    stats['explore_directed_programs'] = len(directed)
    explore_stream(ctx, ex, stats)
    stats['t_explore_stream_s'] = round(time.time() - t0, 1)
    cut = stats['probes_cut_short_by_giveup_limits']
    if cut > 0.05 * max(1, stats['probes'] + cut):
        ctx.violation('obligation', dict(what='%d of %d core probes were cut short by jedi\'s execution give-up limits (expected: rare); '
                                              'the limits trigger far more often than on the reference tree' % (cut, stats['probes'] + cut)), nofail=True)
    ctx.stat('counts', dict(stats))
    ctx.cov['streams_note'] = ('obligations = the theorems of Props/C02.v; core/bind/mro evaluations tie the Coq models to CPython and to Script.infer; '
                               'explore is model-free (jedi vs execution only) and contributes no obligations')


def replay(ctx, path):
    if not os.path.isabs(path) and not os.path.exists(path):
        path = os.path.join(common.VERIF, path)     # the harness runs in a scratch directory
    rec = json.load(open(path))
    print(json.dumps({k: v for k, v in rec.items() if k not in ('program', 'hierarchy')}, indent=1, default=repr)[:6000])
    data = rec.get('input') if isinstance(rec.get('input'), dict) else rec
    src = data.get('source')
    if src and data.get('line') is not None:
        jedi = common.setup_jedi(os.path.join(ctx.tmp, 'cache'))
        col = data.get('column', 0)
        res, exc = ask(jedi.Script(src), data['line'], col)
        print('--- replay: Script.infer(%d, %d) now ->' % (data['line'], col), res if exc is None else exc)
        if data.get('program') and data.get('expr') is not None and data.get('stmt') is not None:
            print('--- model:', common.coq_show(IMPORTS, [
                'map tagN (ainfer_tags %s %d%%nat %s)' % (data['program'], data['stmt'], data['expr'])] + (
                ['eval %s %s %d%%nat %s' % (data['program'], g_inp(data['inputs']), data['stmt'], data['expr'])] if data.get('inputs') else []))[-1500:])
    return 0
