"""C02 — inferred types agree with what the program does when executed.

Streams (all through the public API `Script.infer(line, column)`):
  core    programs of the core language of coq/Model/C02_MiniInfer.v (assignments, defs with
          positional/keyword/default/*args/**kwargs parameters, classes, literals, tuples,
          constant indexing, conditional expressions over opaque run inputs, calls), printed to
          Python.  (a) executed by CPython with every probed expression occurrence wrapped (at
          the AST level, same text) by a recorder, for several condition inputs -> compared with
          the Coq `eval`/`first_fail`; (b) Script.infer at the same occurrence -> compared with the
          Coq `ainfer`; (c) the property itself: run-time class (name, class statement line) is
          among the reported definitions, and where no conditional can reach the expression the
          report is exactly that class.
  bind    the same pipeline on small programs enumerating signature x call shapes (ties
          jedi_bind / py_bind).
  mro     class hierarchies with attributes/methods: CPython __mro__ and attribute values vs the
          Coq C3 model, Script.infer vs the Coq depth-first MRO model, and the property directly.
  explore model-free: templates over the wider documented feature list, jedi vs execution only.
"""
import ast
import itertools
import json
import os
import random
import sys

import common

IMPORTS = 'From JV Require Import Model.C02_MiniInfer.\n'
FP = [('jedi/inference/syntax_tree.py', 'infer_node'),
      ('jedi/inference/syntax_tree.py', '_infer_node'),
      ('jedi/inference/syntax_tree.py', 'infer_atom'),
      ('jedi/inference/syntax_tree.py', 'infer_trailer'),
      ('jedi/inference/syntax_tree.py', 'infer_expr_stmt'),
      ('jedi/inference/syntax_tree.py', '_infer_expr_stmt'),
      ('jedi/inference/syntax_tree.py', 'tree_name_to_values'),
      ('jedi/inference/syntax_tree.py', 'check_tuple_assignments'),
      ('jedi/inference/filters.py', 'ParserTreeFilter._filter'),
      ('jedi/inference/filters.py', 'ParserTreeFilter._check_flows'),
      ('jedi/inference/param.py', 'get_executed_param_names_and_issues'),
      ('jedi/inference/arguments.py', 'TreeArguments.unpack'),
      ('jedi/inference/value/iterable.py', 'SequenceLiteralValue.py__simple_getitem__'),
      ('jedi/inference/value/iterable.py', 'Sequence.py__getitem__'),
      ('jedi/inference/value/function.py', 'BaseFunctionExecutionContext.get_return_values'),
      ('jedi/inference/value/klass.py', 'ClassMixin.py__mro__'),
      ('jedi/inference/value/instance.py', 'AbstractInstanceValue.get_filters'),
      ('jedi/inference/base_value.py', '_getitem')]

LITS = {'int': ('1', 'LInt', 1), 'str': ("'s'", 'LStr', 2), 'float': ('1.5', 'LFloat', 3), 'bytes': ("b'b'", 'LBytes', 4)}
TAGN = {'int': 1, 'str': 2, 'float': 3, 'bytes': 4, 'tuple': 5, 'dict': 6}
NCOND = 4


# ------------------------------------------------------------------ core language: printing
class Occ:
    __slots__ = ('oid', 'stmt', 'expr', 'line', 'c0', 'c1', 'probe', 'kind', 'top', 'where')

    def __init__(self, **kw):
        for k, v in kw.items():
            setattr(self, k, v)


def pr_expr(e, col, occs, stmt, where, top=False):
    """text of e starting at column col; records the occurrences of e and its sub-expressions
    (span of the AST node, position at which Script.infer is asked)."""
    k = e[0]
    me = Occ(oid=None, stmt=stmt, expr=e, line=None, c0=col, c1=None, probe=None, kind=k, top=top, where=where)
    occs.append(me)
    if k == 'lit':
        s = LITS[e[1]][0]
        me.c1 = col + len(s)
        me.probe = me.c1 if e[1] in ('int', 'float') else None      # infer() answers [] on string leaves
    elif k == 'new':
        s = 'K%d()' % e[1]
        me.c1 = col + len(s)
        me.probe = me.c1
    elif k == 'name':
        s = 'n%d' % e[1]
        me.c1 = col + len(s)
        me.probe = col
    elif k == 'tuple':
        s = '('
        for i, x in enumerate(e[1]):
            if i:
                s += ', '
            s += pr_expr(x, col + len(s), occs, stmt, where)
        if len(e[1]) == 1:
            s += ','
        s += ')'
        me.c1 = col + len(s)
        me.probe = me.c1
    elif k == 'index':
        s = pr_expr(e[1], col, occs, stmt, where) + '[%d]' % e[2]
        me.c1 = col + len(s)
        me.probe = me.c1
    elif k == 'tern':
        # always parenthesised unless it is the whole right-hand side; the AST node excludes the parentheses
        off = 0 if top else 1
        me.c0 = col + off
        s = '(' if off else ''
        s += pr_expr(e[2], col + len(s), occs, stmt, where)
        s += ' if c%d else ' % e[1]
        s += pr_expr(e[3], col + len(s), occs, stmt, where)
        me.c1 = col + len(s)
        if off:
            s += ')'
            me.probe = col + len(s)
    elif k == 'call':
        s = 'f%d(' % e[1]
        first = True
        for x in e[2]:
            if not first:
                s += ', '
            first = False
            s += pr_expr(x, col + len(s), occs, stmt, where)
        for kw, x in e[3]:
            if not first:
                s += ', '
            first = False
            s += 'n%d=' % kw
            s += pr_expr(x, col + len(s), occs, stmt, where)
        s += ')'
        me.c1 = col + len(s)
        me.probe = me.c1
    else:
        raise ValueError(e)
    return s


def pr_body(e):
    """function bodies are printed without recording occurrences"""
    return pr_expr(e, 0, [], None, None, top=True)


def build(prog):
    """program -> (source, occurrences with positions, class id -> line)"""
    lines, occs, cls_line = [], [], {}
    for i, st in enumerate(prog):
        ln = len(lines) + 1
        if st[0] == 'assign':
            head = 'n%d = ' % st[1]
            mine = []
            text = head + pr_expr(st[2], len(head), mine, i, 'rhs', top=True)
            mine[0].probe = ('target', 0)       # the whole right-hand side is asked at the target name
            for o in mine:
                o.line = ln
            occs += mine
            lines.append(text)
        elif st[0] == 'def':
            s = 'def f%d(' % st[1]
            mine = []
            for j, (x, kind, d) in enumerate(st[2]):
                if j:
                    s += ', '
                s += {'reg': '', 'star': '*', 'sstar': '**'}[kind] + 'n%d' % x
                if d is not None:
                    s += '='
                    s += pr_expr(d, len(s), mine, i, 'default')
            s += '):'
            for o in mine:
                o.line = ln
            occs += mine
            lines.append(s)
            lines.append('    return ' + pr_body(st[3]))
        elif st[0] == 'class':
            cls_line[st[1]] = ln
            lines.append('class K%d:' % st[1])
            lines.append('    pass')
        else:
            raise ValueError(st)
    for n, o in enumerate(occs):
        o.oid = n
    return '\n'.join(lines) + '\n', occs, cls_line


# ------------------------------------------------------------------ Gallina terms
def g_expr(e):
    k = e[0]
    if k == 'lit':
        return '(ELit %s)' % LITS[e[1]][1]
    if k == 'new':
        return '(ENew %d)' % e[1]
    if k == 'name':
        return '(EName %d)' % e[1]
    if k == 'tuple':
        return '(ETuple %s)' % common.g_list(e[1], g_expr, 'expr')
    if k == 'index':
        return '(EIndex %s (%d)%%Z)' % (g_expr(e[1]), e[2])
    if k == 'tern':
        return '(ETern %d%%nat %s %s)' % (e[1], g_expr(e[2]), g_expr(e[3]))
    if k == 'call':
        return '(ECall %d %s %s)' % (e[1], common.g_list(e[2], g_expr, 'expr'),
                                     common.g_list(e[3], lambda ke: '(%d%%N, %s)' % (ke[0], g_expr(ke[1])), 'N * expr'))
    raise ValueError(e)


def g_stmt(st):
    if st[0] == 'assign':
        return 'SAssign %d %s' % (st[1], g_expr(st[2]))
    if st[0] == 'def':
        ps = common.g_list(st[2], lambda p: '(%d%%N, %s, %s)' % (
            p[0], {'reg': 'PReg', 'star': 'PStar', 'sstar': 'PStarStar'}[p[1]],
            'None' if p[2] is None else '(Some %s)' % g_expr(p[2])), 'pdecl')
        return 'SDef %d %s %s' % (st[1], ps, g_expr(st[3]))
    return 'SClass %d' % st[1]


def g_prog(prog):
    return '(' + common.g_list(prog, g_stmt, 'stmt') + ' : prog)'


DEFS = '''
Fixpoint subset (a b : list N) : bool := match a with [] => true | x :: r => memN x b && subset r b end.
Definition seteq (a b : list N) : bool := subset a b && subset b a.
(* (program, condition inputs, statement index, expression, observed run-time tag) *)
Definition chk_eval (c : prog * list bool * nat * expr * N) : bool :=
  let '(p, inp, i, e, t) := c in
  match eval p inp i e with Some v => N.eqb (tagN (tag_of v)) t | None => false end.
(* (program, condition inputs, 1 + index of the raising statement or 0) *)
Definition chk_fail (c : prog * list bool * nat) : bool :=
  let '(p, inp, k) := c in
  match first_fail inp cinit p 0%nat with Some j => Nat.eqb k (S j) | None => Nat.eqb k 0%nat end.
(* (program, statement index, expression, tags Script.infer reports) *)
Definition chk_infer (c : prog * nat * expr * list N) : bool :=
  let '(p, i, e, ts) := c in seteq (map tagN (ainfer_tags p i e)) ts.
Definition chk_attr (c : hier * N * N * N * N * N * N) : bool :=
  let '(h, k, a, jc, jl, pc, pl) := c in
  let enc o := match o with Some (c, l) => (c, tagN (TLit l)) | None => (0%N, 0%N) end in
  let '(mjc, mjl) := enc (jedi_attr h k a) in
  let '(mpc, mpl) := enc (py_attr h k a) in
  N.eqb mjc jc && N.eqb mjl jl && N.eqb mpc pc && N.eqb mpl pl.
Definition chk_mro (c : hier * N * list N * list N) : bool :=
  let '(h, k, jm, pm) := c in
  let nl_eqb := fix go (a b : list N) := match a, b with [], [] => true | x :: a', y :: b' => N.eqb x y && go a' b' | _, _ => false end in
  nl_eqb (or_nil (lookup k (jedi_table [] h))) jm &&
  nl_eqb (match c3_table [] h with Some t => or_nil (lookup k t) | None => [] end) pm.
'''


# ------------------------------------------------------------------ executing with a recorder
class _Wrap(ast.NodeTransformer):
    def __init__(self, table):
        self.table, self.hit = table, set()

    def generic_visit(self, node):
        node = super().generic_visit(node)
        if isinstance(node, ast.expr) and hasattr(node, 'lineno'):
            key = (node.lineno, node.col_offset, node.end_col_offset)
            oid = self.table.get(key)
            if oid is not None and oid not in self.hit and not isinstance(getattr(node, 'ctx', None), (ast.Store, ast.Del)):
                self.hit.add(oid)
                new = ast.Call(func=ast.Name(id='_jv_p', ctx=ast.Load()), args=[ast.Constant(value=oid), node], keywords=[])
                return ast.copy_location(new, node)
        if isinstance(node, ast.ClassDef):
            mark = ast.Assign(targets=[ast.Name(id='__jv_line__', ctx=ast.Store())], value=ast.Constant(value=node.lineno))
            node.body.insert(0, ast.copy_location(mark, node))
        return node


def runtime_class(v):
    t = type(v)
    return (t.__name__, t.__dict__.get('__jv_line__'))


def execute(src, table, globs, want_mro=False):
    """run src with the expressions at the spans in `table` ({(line, c0, c1): id}) recorded.
    returns (records [(id, (class name, class line))], failing line or None, exception name, missing ids)"""
    tree = ast.parse(src)
    w = _Wrap(table)
    tree = w.visit(tree)
    ast.fix_missing_locations(tree)
    missing = sorted(set(table.values()) - w.hit)
    code = compile(tree, '<prog>', 'exec')
    rec = []
    g = dict(globs)
    g['_jv_p'] = lambda i, v: (rec.append((i, runtime_class(v))), v)[1]
    fail = exc = None
    try:
        exec(code, g)
    except Exception as e:
        exc = type(e).__name__
        tb = e.__traceback__
        while tb is not None:
            if tb.tb_frame.f_code.co_filename == '<prog>' and tb.tb_frame.f_code.co_name == '<module>':
                fail = tb.tb_lineno
            tb = tb.tb_next
    return rec, fail, exc, missing, g


def ask(script, line, col):
    """Script.infer -> sorted [(name, type, line, module_path is None)] or an exception signature"""
    try:
        res = script.infer(line, col)
        return sorted((d.name, d.type, d.line, d.module_path is None) for d in res), None
    except Exception as e:
        return None, common.exc_sig(e)


def tag_of_def(d, cls_line):
    """(name, type, line, nopath) reported by jedi -> model tag number (9 = something the model has no tag for)"""
    name, typ, line, _ = d
    if typ != 'instance':
        return 9
    if line is None:
        return TAGN.get(name, 9)
    if name.startswith('K') and name[1:].isdigit() and cls_line.get(int(name[1:])) == line:
        return 10 + int(name[1:])
    return 9


def tag_of_rt(rc, cls_line):
    name, line = rc
    if line is None:
        return TAGN.get(name, 9)
    if name.startswith('K') and name[1:].isdigit() and cls_line.get(int(name[1:])) == line:
        return 10 + int(name[1:])
    return 9


# ------------------------------------------------------------------ which occurrences can depend on a conditional
def tern_reach(prog, i, e, memo=None):
    """can a conditional expression be reached from e evaluated at statement i? (harness-side,
    independent of the Coq model: follows names to their last assignment and calls to bodies/defaults)"""
    k = e[0]
    if k in ('lit', 'new'):
        return False
    if k == 'tern':
        return True
    if k == 'name':
        for j in range(i - 1, -1, -1):
            st = prog[j]
            if st[0] == 'assign' and st[1] == e[1]:
                return tern_reach(prog, j, st[2])
        return False
    if k == 'tuple':
        return any(tern_reach(prog, i, x) for x in e[1])
    if k == 'index':
        return tern_reach(prog, i, e[1])
    if k == 'call':
        if any(tern_reach(prog, i, x) for x in e[2]) or any(tern_reach(prog, i, x) for _, x in e[3]):
            return True
        for j in range(i - 1, -1, -1):
            st = prog[j]
            if st[0] == 'def' and st[1] == e[1]:
                if body_tern(prog, j, st[3]):
                    return True
                return any(d is not None and tern_reach(prog, j, d) for _, _, d in st[2])
        return False
    raise ValueError(e)


def body_tern(prog, j, e):
    k = e[0]
    if k in ('lit', 'new', 'name'):
        return False
    if k == 'tern':
        return True
    if k == 'tuple':
        return any(body_tern(prog, j, x) for x in e[1])
    if k == 'index':
        return body_tern(prog, j, e[1])
    if k == 'call':
        if any(body_tern(prog, j, x) for x in e[2]) or any(body_tern(prog, j, x) for _, x in e[3]):
            return True
        for jj in range(j - 1, -1, -1):
            st = prog[jj]
            if st[0] == 'def' and st[1] == e[1]:
                return body_tern(prog, jj, st[3]) or any(d is not None and tern_reach(prog, jj, d) for _, _, d in st[2])
        return False
    raise ValueError(e)


# ------------------------------------------------------------------ generator (core stream)
class Gen:
    """random programs; a shape evaluator (sets of possible concrete shapes) steers the choice of
    indices and arguments so that most programs run to the end"""

    def __init__(self, rng, nstmts):
        self.rng, self.nstmts = rng, nstmts
        self.prog = []
        self.vars = {}       # name -> set of shapes
        self.funs = {}       # fid -> (params, body, classes at def time)
        self.classes = []
        self.nv = self.nf = self.nc = 0

    # shapes: 'int' 'str' 'float' 'bytes' ('inst', c) ('tuple', (shapes...)) 'dict'; a set of them, None = too many
    def shapes(self, e, env, funs=None, depth=0):
        funs = self.funs if funs is None else funs
        k = e[0]
        if k == 'lit':
            return {e[1]}
        if k == 'new':
            return {('inst', e[1])}
        if k == 'name':
            return env.get(e[1], set())
        if k == 'tuple':
            parts = [self.shapes(x, env, funs, depth) for x in e[1]]
            if any(p is None for p in parts):
                return None
            out = set()
            for combo in itertools.islice(itertools.product(*parts), 40):
                out.add(('tuple', tuple(combo)))
            return out
        if k == 'index':
            s = self.shapes(e[1], env, funs, depth)
            if s is None:
                return None
            out = set()
            for x in s:
                if isinstance(x, tuple) and x[0] == 'tuple' and -len(x[1]) <= e[2] < len(x[1]):
                    out.add(x[1][e[2]])
            return out
        if k == 'tern':
            a, b = self.shapes(e[2], env, funs, depth), self.shapes(e[3], env, funs, depth)
            return None if a is None or b is None else a | b
        if k == 'call':
            if e[1] not in funs or depth > 6:
                return set()
            params, body, _ = funs[e[1]]
            pos = [self.shapes(x, env, funs, depth) for x in e[2]]
            kws = {kk: self.shapes(x, env, funs, depth) for kk, x in e[3]}
            if any(p is None for p in pos) or any(v is None for v in kws.values()):
                return None
            penv, pi = {}, 0
            regs = [p for p in params if p[1] == 'reg']
            seen_star = False
            for (x, kind, d) in params:
                if kind == 'star':
                    seen_star = True
                    rest = pos[pi:]
                    penv[x] = {('tuple', tuple(c)) for c in itertools.islice(itertools.product(*rest), 20)} if rest else {('tuple', ())}
                    pi = len(pos)
                elif kind == 'sstar':
                    penv[x] = {'dict'}
                elif not seen_star and pi < len(pos):
                    penv[x] = pos[pi]
                    pi += 1
                elif x in kws:
                    penv[x] = kws[x]
                elif d is not None:
                    penv[x] = d      # shapes of the default, computed at def time
                else:
                    return set()     # the call raises
            earlier = {f: v for f, v in funs.items() if f < e[1]}
            return self.shapes(body, penv, earlier, depth + 1)
        raise ValueError(e)

    def lit(self):
        return ('lit', self.rng.choice(['int', 'str', 'float', 'bytes']))

    def atom(self, env_names):
        r = self.rng.random()
        if env_names and r < 0.45:
            return ('name', self.rng.choice(env_names))
        if self.classes and r < 0.65:
            return ('new', self.rng.choice(self.classes))
        return self.lit()

    def expr(self, depth, env, funs, classes, body_of=None):
        """env: name -> shapes (module variables or parameters)"""
        rng = self.rng
        names = sorted(env)
        r = rng.random()
        if depth <= 0 or r < 0.22:
            r2 = rng.random()
            if names and r2 < 0.5:
                return ('name', rng.choice(names))
            if classes and r2 < 0.7:
                return ('new', rng.choice(classes))
            return self.lit()
        if r < 0.42:
            n = rng.choice([0, 1, 2, 2, 3, 3, 4])
            return ('tuple', [self.expr(depth - 1, env, funs, classes, body_of) for _ in range(n)])
        if r < 0.60:
            return ('tern', rng.randrange(NCOND), self.expr(depth - 1, env, funs, classes, body_of),
                    self.expr(depth - 1, env, funs, classes, body_of))
        if r < 0.80:
            # index something that is (sometimes) a tuple
            for _ in range(4):
                base = self.expr(depth - 1, env, funs, classes, body_of)
                if body_of is not None and base[0] == 'name':
                    # a parameter: shape unknown inside the body; callers pass tuples sometimes
                    return ('index', base, rng.choice([0, 0, 1, -1, 2]))
                sh = self.shapes(base, env, funs)
                if not sh:
                    continue
                if any(x in ('str', 'bytes') for x in sh):
                    continue        # indexing str/bytes needs the (absent) stubs
                tl = [len(x[1]) for x in sh if isinstance(x, tuple) and x[0] == 'tuple']
                if not tl:
                    if rng.random() < 0.03:
                        return ('index', base, 0)        # not subscriptable: raises / infers nothing
                    continue
                lo = min(tl)
                r3 = rng.random()
                if lo > 0 and r3 < 0.80:
                    i = rng.randrange(-lo, lo)
                elif r3 < 0.93:
                    i = rng.randrange(-max(tl) - 1, max(tl) + 1)
                else:
                    i = rng.choice([max(tl), -max(tl) - 1, max(tl) + 1])
                return ('index', base, i)
            return self.expr(depth - 1, env, funs, classes, body_of)
        if funs:
            return self.call(depth, env, funs, classes, body_of)
        return self.expr(depth - 1, env, funs, classes, body_of)

    def call(self, depth, env, funs, classes, body_of):
        rng = self.rng
        f = rng.choice(sorted(funs))
        params = funs[f][0]
        regs = [p for p in params if p[1] == 'reg']
        star = [p for p in params if p[1] == 'star']
        sstar = [p for p in params if p[1] == 'sstar']
        si = params.index(star[0]) if star else len(params)
        posable = [p for p in params[:si] if p[1] == 'reg']
        kwonly = [p for p in params[si:] if p[1] == 'reg']
        sub = lambda: self.expr(depth - 1, env, funs, classes, body_of)
        mode = rng.random()
        pos, kws = [], []
        if mode < 0.80:      # a call Python accepts
            npos = rng.randint(0, len(posable))
            if star and rng.random() < 0.6:
                npos = len(posable) + rng.randint(0, 2)
            pos = [sub() for _ in range(npos)]
            rest = posable[npos:] + kwonly
            for p in rest:
                if p[2] is None or rng.random() < 0.5:
                    kws.append((p[0], sub()))
            if sstar and rng.random() < 0.5:
                kws.append((90 + rng.randrange(3), sub()))
            rng.shuffle(kws)
        else:                # anything: too many / too few / unknown or repeated-with-positional keywords
            pos = [sub() for _ in range(rng.randint(0, len(posable) + 2))]
            cand = [p[0] for p in regs] + [90, 91]
            rng.shuffle(cand)
            kws = [(kname, sub()) for kname in cand[:rng.randint(0, 2)]]
        return ('call', f, pos, kws)

    def params(self):
        rng = self.rng
        n = rng.choice([0, 1, 1, 2, 2, 3, 3, 4])
        out, nid = [], 1
        ndef = rng.randint(0, n)
        for i in range(n):
            d = None
            if i >= n - ndef:
                d = self.expr(1, self.vars, self.funs, self.classes)
            out.append((nid, 'reg', d))
            nid += 1
        if rng.random() < 0.3:
            out.append((nid, 'star', None))
            nid += 1
            for _ in range(rng.choice([0, 0, 1, 2])):
                d = self.expr(1, self.vars, self.funs, self.classes) if rng.random() < 0.6 else None
                out.append((nid, 'reg', d))
                nid += 1
        if rng.random() < 0.2:
            out.append((nid, 'sstar', None))
        return out

    def candidate(self):
        rng = self.rng
        r = rng.random()
        if r < 0.12 and self.nc < 5:
            return ('class', self.nc + 1), None
        if r < 0.30 and self.nf < 6:
            f = self.nf + 1
            ps = self.params()
            penv = {x: set() for x, _, _ in ps}
            body = self.expr(rng.choice([1, 2, 2, 3]), penv, dict(self.funs), list(self.classes), body_of=f)
            if not penv and rng.random() < 0.5:
                body = ('tuple', [body, self.lit()])
            dshapes = [(x, k, None if d is None else (self.shapes(d, self.vars) or set())) for x, k, d in ps]
            return ('def', f, ps, body), (dshapes, body, list(self.classes))
        # assignment; rebinding an existing name is frequent (exercises "last assignment before")
        if self.vars and rng.random() < 0.35:
            x = rng.choice(sorted(self.vars))
        else:
            x = self.nv + 1
        e = self.expr(rng.choice([1, 2, 2, 3, 3]), self.vars, self.funs, self.classes)
        return ('assign', x, e), None

    def accept(self, st, extra):
        self.prog.append(st)
        if st[0] == 'class':
            self.nc = st[1]
            self.classes.append(st[1])
        elif st[0] == 'def':
            self.nf = st[1]
            self.funs[st[1]] = extra
        else:
            self.nv = max(self.nv, st[1])
            sh = self.shapes(st[2], self.vars)
            self.vars[st[1]] = sh if sh is not None else set()

    def trial(self, st):
        """execute the candidate after the program so far, for every live condition input.
        -> (new global dicts, number of inputs on which it raises, a str/bytes value was subscripted)"""
        src, _, _ = build([st])
        tree = _NoStrIndex().visit(ast.parse(src))
        ast.fix_missing_locations(tree)
        code = compile(tree, '<cand>', 'exec')
        new, bad, strix = [], 0, False
        for g in self.live:
            g2 = dict(g)
            try:
                exec(code, g2)
                new.append(g2)
            except _StrIndex:
                strix = True
                bad += 1
            except Exception:
                bad += 1
        return new, bad, strix

    def run(self):
        rng = self.rng
        self.live = []
        for combo in itertools.product([False, True], repeat=NCOND):
            g = {'c%d' % k: b for k, b in enumerate(combo)}
            g['_jv_ix'] = _jv_ix
            self.live.append(g)
        while len(self.prog) < self.nstmts and self.live:
            for attempt in range(10):
                st, extra = self.candidate()
                new, bad, strix = self.trial(st)
                if strix:
                    continue                      # subscripting str/bytes needs the (absent) stubs
                if bad == 0 or rng.random() < 0.04:
                    self.accept(st, extra)
                    self.live = new
                    break
            else:
                st = ('assign', self.nv + 1, self.lit())
                new, _, _ = self.trial(st)
                self.accept(st, None)
                self.live = new
        return self.prog


class _StrIndex(Exception):
    pass


def _jv_ix(v, i):
    if isinstance(v, (str, bytes)):
        raise _StrIndex()
    return v[i]


class _NoStrIndex(ast.NodeTransformer):
    def visit_Subscript(self, node):
        self.generic_visit(node)
        return ast.copy_location(ast.Call(func=ast.Name(id='_jv_ix', ctx=ast.Load()), args=[node.value, node.slice], keywords=[]), node)


def gen_bind_prog(rng):
    """one signature, one call; the function returns the tuple of its parameters"""
    nreg = rng.choice([0, 1, 2, 2, 3])
    lits = ['int', 'str', 'float', 'bytes']
    ps, nid = [], 1
    ndef = rng.randint(0, nreg)
    for i in range(nreg):
        ps.append((nid, 'reg', ('new', 1) if i >= nreg - ndef else None))
        nid += 1
    if rng.random() < 0.45:
        ps.append((nid, 'star', None))
        nid += 1
        for _ in range(rng.choice([0, 1, 1, 2])):
            ps.append((nid, 'reg', ('new', 2) if rng.random() < 0.5 else None))
            nid += 1
    if rng.random() < 0.35:
        ps.append((nid, 'sstar', None))
        nid += 1
    names = [p[0] for p in ps]
    argv = [('lit', t) for t in lits] + [('new', 3), ('new', 4)]
    rng.shuffle(argv)
    npos = rng.randint(0, min(4, nreg + 2))
    pos = argv[:npos]
    cand = [p[0] for p in ps if p[1] == 'reg'] + [90, 91] + ([p[0] for p in ps if p[1] != 'reg'] if rng.random() < 0.15 else [])
    rng.shuffle(cand)
    nkw = rng.randint(0, min(len(cand), 3))
    kws = [(k, argv[npos + j] if npos + j < len(argv) else ('lit', 'int')) for j, k in enumerate(cand[:nkw])]
    body = ('tuple', [('name', x) for x in names])
    prog = [('class', c) for c in (1, 2, 3, 4)]
    prog.append(('def', 1, ps, body))
    prog.append(('assign', 1, ('call', 1, pos, kws)))
    v = 2
    for j, p in enumerate(ps):
        prog.append(('assign', v, ('index', ('name', 1), j)))
        v += 1
        if p[1] == 'star':
            for jj in (0, 1, -1):
                prog.append(('assign', v, ('index', ('index', ('name', 1), j), jj)))
                v += 1
    return prog


# ------------------------------------------------------------------ worker: one core-language program
def cond_inputs(prog, rng_seed):
    used = set()

    def walk(e):
        if e[0] == 'tern':
            used.add(e[1])
            walk(e[2]), walk(e[3])
        elif e[0] == 'tuple':
            [walk(x) for x in e[1]]
        elif e[0] == 'index':
            walk(e[1])
        elif e[0] == 'call':
            [walk(x) for x in e[2]]
            [walk(x) for _, x in e[3]]
    for st in prog:
        if st[0] == 'assign':
            walk(st[2])
        elif st[0] == 'def':
            walk(st[3])
            [walk(d) for _, _, d in st[2] if d is not None]
    used = sorted(used)
    if len(used) <= 3:
        combos = list(itertools.product([False, True], repeat=len(used)))
    else:
        r = random.Random(rng_seed)
        combos = {tuple([False] * len(used)), tuple([True] * len(used))}
        while len(combos) < 8:
            combos.add(tuple(r.random() < 0.5 for _ in used))
        combos = sorted(combos)
    out = []
    for c in combos:
        inp = [False] * NCOND
        for u, b in zip(used, c):
            inp[u] = b
        out.append(inp)
    return out


def _core_task(item):
    kind, idx, prog = item
    import jedi
    try:
        src, occs, cls_line = build(prog)
    except Exception as e:
        return dict(skip='build %r' % (e,))
    table = {(o.line, o.c0, o.c1): o.oid for o in occs}
    if len(table) != len(occs):
        return dict(skip='ambiguous spans')
    line2stmt = {}
    ln = 1
    for i, st in enumerate(prog):
        line2stmt[ln] = i
        line2stmt[ln + 1] = i
        ln += 1 if st[0] == 'assign' else 2
    runs = []
    for inp in cond_inputs(prog, idx):
        globs = {'c%d' % k: b for k, b in enumerate(inp)}
        try:
            rec, fail, exc, missing, _ = execute(src, table, globs)
        except Exception as e:
            return dict(skip='execute %r' % (e,), src=src)
        if missing:
            return dict(skip='unmatched spans %r' % (missing,), src=src)
        runs.append(dict(inp=inp, rec=rec, fail=None if fail is None else line2stmt.get(fail, -1), exc=exc))
    answers = {}
    script = None
    try:
        script = jedi.Script(src)
    except Exception as e:
        return dict(skip='script', exc=common.exc_sig(e), src=src)
    for o in occs:
        if o.probe is None:
            continue
        col = 0 if isinstance(o.probe, tuple) else o.probe
        res, exc = ask(script, o.line, col)
        answers[o.oid] = dict(res=res, exc=exc, col=col)
    return dict(kind=kind, src=src, prog=prog, cls_line=cls_line, runs=runs, answers=answers,
                occs=[(o.oid, o.stmt, o.expr, o.line, o.c0, o.c1, o.kind, o.where) for o in occs])


# ------------------------------------------------------------------ mro stream
ATTR_LITS = ['int', 'str', 'float', 'bytes']


def gen_hier(rng, n):
    """classes 1..n in textual order; bases among earlier classes; attributes 1..3"""
    h = []
    for c in range(1, n + 1):
        earlier = list(range(1, c))
        r = rng.random()
        if not earlier or r < 0.2:
            bases = []
        elif r < 0.55 or len(earlier) < 2:
            bases = [rng.choice(earlier)]
        else:
            bases = rng.sample(earlier, rng.choice([2, 2, 2, 3]) if len(earlier) >= 3 else 2)
        attrs = []
        for a in (1, 2, 3):
            if rng.random() < 0.4:
                attrs.append((a, rng.choice(ATTR_LITS)))
        h.append((c, bases, attrs))
    return h


def enum_hier4():
    """all hierarchies over 4 classes where class 1 defines attribute 1 (int) and every other class
    either overrides it (str) or not; bases = any ordered selection of <= 2 earlier classes"""
    def base_choices(c):
        earlier = list(range(1, c))
        out = [[]]
        out += [[b] for b in earlier]
        out += [list(p) for p in itertools.permutations(earlier, 2)]
        return out
    for b2 in base_choices(2):
        for b3 in base_choices(3):
            for b4 in base_choices(4):
                for ov in itertools.product([False, True], repeat=3):
                    yield [(1, [], [(1, 'int')]),
                           (2, b2, [(1, 'str')] if ov[0] else []),
                           (3, b3, [(1, 'float')] if ov[1] else []),
                           (4, b4, [(1, 'bytes')] if ov[2] else [])]


def build_hier(h):
    lines, cls_line, probes = [], {}, []
    for c, bases, attrs in h:
        cls_line[c] = len(lines) + 1
        lines.append('class K%d%s:' % (c, '(%s)' % ', '.join('K%d' % b for b in bases) if bases else ''))
        if not attrs:
            lines.append('    pass')
        for a, lit in attrs:
            if a % 2:
                lines.append('    def m%d(self):' % a)
                lines.append('        return %s' % LITS[lit][0])
            else:
                lines.append('    a%d = %s' % (a, LITS[lit][0]))
    attrs_all = sorted({a for _, _, at in h for a, _ in at})
    for c, _, _ in h:
        lines.append('x%d = K%d()' % (c, c))
        for a in attrs_all:
            ln = len(lines) + 1
            if a % 2:
                lines.append('r%d_%d = x%d.m%d()' % (c, a, c, a))
            else:
                lines.append('r%d_%d = x%d.a%d' % (c, a, c, a))
            probes.append((c, a, ln))
    return '\n'.join(lines) + '\n', cls_line, probes


def g_hier(h):
    return '(' + common.g_list(h, lambda k: '{| c_id := %d; c_bases := %s; c_attrs := %s |}' % (
        k[0], common.g_list(k[1], lambda b: '%d%%N' % b, 'N'),
        common.g_list(k[2], lambda al: '(%d%%N, %s)' % (al[0], LITS[al[1]][1]), 'N * lit')), 'cls') + ' : hier)'


def _mro_task(item):
    idx, h = item
    import jedi
    src, cls_line, probes = build_hier(h)
    # run statement by statement: a class statement that raises (inconsistent MRO) ends the program
    g, py = {}, {}
    mros = {}
    fail = None
    try:
        tree = ast.parse(src)
    except SyntaxError as e:
        return dict(skip='syntax %r' % (e,))
    for node in tree.body:
        try:
            exec(compile(ast.Module(body=[node], type_ignores=[]), '<h>', 'exec'), g)
        except Exception as e:
            fail = (node.lineno, type(e).__name__)
            break
    for c, _, _ in h:
        k = g.get('K%d' % c)
        if k is not None and 'x%d' % c in g:
            mros[c] = [int(x.__name__[1:]) for x in k.__mro__ if x is not object]
    line_cls = {v: k for k, v in cls_line.items()}
    for c, a, ln in probes:
        name = 'r%d_%d' % (c, a)
        if name in g:
            v = g[name]
            # which class provided it
            owner = None
            for k in type(g['x%d' % c]).__mro__:
                if ('m%d' % a if a % 2 else 'a%d' % a) in k.__dict__:
                    owner = int(k.__name__[1:])
                    break
            py[(c, a)] = (owner, type(v).__name__)
    out = []
    try:
        script = jedi.Script(src)
    except Exception as e:
        return dict(skip='script', exc=common.exc_sig(e), src=src)
    jm = {}
    for c, a, ln in probes:
        res, exc = ask(script, ln, 0)
        # the definition jedi goes to for the attribute name (which class it found it in)
        owner = None
        try:
            text = src.split('\n')[ln - 1]
            col = text.index('.') + 1
            gd = script.goto(ln, col)
            if len(gd) == 1 and gd[0].line is not None:
                # the class statement enclosing that line
                best = max((l for l in line_cls if l <= gd[0].line), default=None)
                owner = line_cls.get(best)
        except Exception as e:
            exc = exc or common.exc_sig(e)
        out.append(dict(c=c, a=a, line=ln, res=res, exc=exc, owner=owner, py=py.get((c, a))))
    return dict(src=src, h=h, probes=out, mros=mros, fail=fail, cls_line=cls_line)


# ------------------------------------------------------------------ run
def g_inp(inp):
    return common.g_list(inp, common.g_bool, 'bool')


def core_stream(ctx, items, stats):
    import time
    t0 = time.time()
    results = common.pmap(_core_task, items, chunksize=2)
    stats['t_jedi_exec_s'] = stats.get('t_jedi_exec_s', 0) + round(time.time() - t0, 1)
    defs = [DEFS]
    ev_cases, ev_meta = [], []
    ff_cases, ff_meta = [], []
    in_cases, in_meta = [], []
    pi = 0
    for item, r in zip(items, results):
        if 'skip' in r:
            stats['skipped'] += 1
            if 'exc' in r:
                ctx.deviation(dict(stream='core', exc=r['exc']['exc'], site=r['exc']['site']), dict(source=r.get('src'), error=r['exc']), 'Script() raised')
            else:
                ctx.violation('obligation', dict(what='check machinery: ' + str(r['skip'])[:300], source=r.get('src')), nofail=True)
            continue
        kind = r['kind']
        stats['programs_' + kind] += 1
        stats['statements'] += len(r['prog'])
        pname = 'p%d' % pi
        pi += 1
        defs.append('Definition %s := %s.' % (pname, g_prog(r['prog'])))
        occs = {o[0]: o for o in r['occs']}
        cls_line = {int(k): v for k, v in r['cls_line'].items()}
        single = {}
        jtags = {}
        # (b) Script.infer vs ainfer
        for oid, a in sorted(r['answers'].items()):
            o = occs[oid]
            if a['exc']:
                ctx.deviation(dict(stream=kind, exc=a['exc']['exc'], site=a['exc']['site']),
                              dict(source=r['src'], line=o[3], column=a['col'], error=a['exc']), 'Script.infer raised')
                continue
            tags = sorted({tag_of_def(d, cls_line) for d in a['res']})
            jtags[oid] = tags
            stats['probes'] += 1
            ctx.count(kind + '-infer', (r['src'], oid), nontrivial=bool(tags))
            in_cases.append('(%s, %d%%nat, %s, %s)' % (pname, o[1], g_expr(o[2]), common.g_list(tags, common.g_N, 'N')))
            in_meta.append(dict(source=r['src'], line=o[3], column=a['col'], stmt=o[1], expr=g_expr(o[2]), infer=a['res'], program=g_prog(r['prog'])))
        # (a) execution vs eval, (c) the property
        for run_ in r['runs']:
            stats['runs'] += 1
            k = 0 if run_['fail'] is None else run_['fail'] + 1
            stats['runs_raising'] += k != 0
            ff_cases.append('(%s, %s, %d%%nat)' % (pname, g_inp(run_['inp']), k))
            ff_meta.append(dict(source=r['src'], inputs=run_['inp'], raising_statement=run_['fail'], exception=run_['exc'], program=g_prog(r['prog'])))
            ctx.count(kind + '-run', (r['src'], tuple(run_['inp'])), nontrivial=True)
            seen = set()
            for oid, rc in run_['rec']:
                o = occs[oid]
                rc = tuple(rc)
                rt = tag_of_rt(rc, cls_line)
                if (oid, rt) in seen:
                    continue
                seen.add((oid, rt))
                stats['reached'] += 1
                ctx.count(kind + '-eval', (r['src'], oid, tuple(run_['inp'])), nontrivial=True)
                ev_cases.append('(%s, %s, %d%%nat, %s, %d%%N)' % (pname, g_inp(run_['inp']), o[1], g_expr(o[2]), rt))
                ev_meta.append(dict(source=r['src'], inputs=run_['inp'], line=o[3], span=[o[4], o[5]], stmt=o[1], expr=g_expr(o[2]),
                                    runtime=list(rc), program=g_prog(r['prog'])))
                if oid not in jtags:
                    continue
                if oid not in single:
                    single[oid] = not tern_reach(r['prog'], o[1], o[2])
                stats['property_checks'] += 1
                stats['single_valued'] += single[oid]
                a = r['answers'][oid]
                names = [(d[0], d[2]) for d in a['res'] if d[1] == 'instance' and (d[2] is None) == (rc[1] is None)]
                ok_in = rc in names and rt in jtags[oid]
                ok_exact = (not single[oid]) or jtags[oid] == [rt]
                if not ok_in or not ok_exact:
                    ctx.deviation(dict(stream=kind, cls='class-missing' if not ok_in else 'not-exact', where=o[7]),
                                  dict(source=r['src'], line=o[3], column=a['col'], inputs=run_['inp'], runtime=list(rc), infer=a['res'],
                                       stmt=o[1], expr=g_expr(o[2]), program=g_prog(r['prog'])),
                                  'line %d col %d: run-time class %r, infer reports %r%s' % (
                                      o[3], a['col'], rc, a['res'], '' if not ok_in else ' (single-valued expression: must be exactly that class)'))
    alldefs = '\n'.join(defs)
    for name, fn, cases, meta, what in (
            ('eval', 'chk_eval', ev_cases, ev_meta, 'Coq eval (concrete semantics) vs CPython'),
            ('first_fail', 'chk_fail', ff_cases, ff_meta, 'Coq first_fail (which statement raises) vs CPython'),
            ('ainfer', 'chk_infer', in_cases, in_meta, 'Coq ainfer (abstract evaluator) vs Script.infer')):
        t0 = time.time()
        fails, err = common.coq_failing(IMPORTS, fn, cases, shard=600, defs=alldefs, timeout=1200)
        stats['t_coq_%s_s' % name] = stats.get('t_coq_%s_s' % name, 0) + round(time.time() - t0, 1)
        if err:
            raise RuntimeError('coq evaluation failed (%s): %s' % (name, err))
        stats['coq_' + name + '_cases'] = stats.get('coq_' + name + '_cases', 0) + len(cases)
        stats['coq_' + name + '_disagree'] = stats.get('coq_' + name + '_disagree', 0) + len(fails)
        for i in fails[:4]:
            m = meta[i]
            if name == 'ainfer':
                model = common.coq_show(IMPORTS, ['map tagN (ainfer_tags %s %d%%nat %s)' % (m['program'], m['stmt'], m['expr'])], defs=DEFS)
            elif name == 'eval':
                model = common.coq_show(IMPORTS, ['eval %s %s %d%%nat %s' % (m['program'], g_inp(m['inputs']), m['stmt'], m['expr'])], defs=DEFS)
            else:
                model = common.coq_show(IMPORTS, ['first_fail %s cinit %s 0%%nat' % (g_inp(m['inputs']), m['program'])], defs=DEFS)
            ctx.violation('obligation', dict(what='correspondence %s: model and implementation differ (the property oracle found no failing input here)' % what,
                                             input=m, model=model[-1500:]), nofail=True)
    return results
