"""C01 — the query API is total on any source text and cursor position.

Streams
  validate  helpers.validate_line_column (driven directly) and the line table Script builds,
            vs the Gallina model validate/split_lines evaluated by vm_compute
  api       every query method of Script x every documented attribute/method of the returned
            objects on generated texts (corpus snippets, prefixes = code being typed, small
            edits, token soups) x positions in range / just out of range / None:
            outcome must be Normal inside the text, ValueError (and nothing else) outside.
            The model's prediction of the outcome class is evaluated in Coq on the same inputs.
"""
import glob
import json
import os
import random
import re

import common
from common import g_str, g_Z, g_opt, g_list

IMPORTS = 'From JV Require Import Base.Str Model.C01_Validate.\n'
FP = [('jedi/api/helpers.py', 'validate_line_column')]

POS_METHODS = ['complete', 'infer', 'goto', 'help', 'get_references', 'get_signatures', 'get_context']
OTHER_METHODS = ['get_names', 'search', 'complete_search', 'get_syntax_errors']

DEFS = '''
Local Open Scope Z_scope.
Fixpoint lines_eqb (a b : list str) : bool :=
  match a, b with [], [] => true | x :: a', y :: b' => str_eqb x y && lines_eqb a' b' | _, _ => false end.
Definition out_eqb (a b : outcome) : bool :=
  match a, b with
  | ValueError, ValueError => true
  | Accept l c, Accept l' c' => (l =? l') && (c =? c')
  | _, _ => false end.
(* text, line, col, observed outcome of the wrapper, observed line table *)
Definition chk (c : str * option Z * option Z * outcome * list str) : bool :=
  let '(s, l, co, o, ls) := c in out_eqb (validate_text s l co) o && lines_eqb (split_lines s) ls.
(* text, line, col, did the API raise ValueError *)
Definition chk_api (c : str * option Z * option Z * bool) : bool :=
  let '(s, l, co, ve) := c in
  Bool.eqb (match validate_text s l co with ValueError => true | _ => false end) ve.
'''

SOUP = ['(', ')', '[', ']', '{', '}', '.', ',', ':', ';', '=', '==', '->', '@', '*', '**', 'def ', 'class ', 'import ',
        'from ', 'lambda ', 'if ', 'else', 'for ', 'in ', 'return ', 'yield ', 'await ', 'async ', 'with ', 'as ',
        'try:', 'except', 'x', 'foo', 'self', 'Bar', '1', '"s"', "'", '"', '"""', '#c', '\n', '\n    ', '\n\t', '\r\n',
        '\r', '\f', ' ', '\\\n', 'é', 'λ', '\u2028', '\x85', '\x0b', '0x', '1e', 'f"{', '}"', '...', ':=', 'not ', 'is ',
        'print', 'a.b', 'a.', '.b', 'x[', 'x(', 'global ', 'nonlocal ', 'del ', 'match ', 'case ', '_']

SNIPPETS = [
    'class A:\n    def f(self, a, b=1):\n        self.x = a\n        return self.x\n\na = A()\na.f(1).',
    'def g(x, *args, **kw):\n    y = x\n    return y\n\ng(1, 2, k=3)\n',
    'import json\njson.lo\nfrom json import loa',
    'x = [i for i in (1, 2)]\ny = {k: 1 for k in "ab"}\nlambda z: z.',
    'try:\n    pass\nexcept ValueError as e:\n    e\nfinally:\n    pass\nwith open("f") as fh:\n    fh',
    '@decorator\nasync def coro(a: int = 3) -> str:\n    await other()\n    return "s"\n',
    'class B(A):\n    @property\n    def p(self):\n        return 1\n    @staticmethod\n    def s(): pass\nB().p\nB.s(',
    'def rec(n):\n    return rec(n - 1)\nrec(3)\nrec.__name__\n',
    'if a:\n    b = 1\nelif c:\n    b = "s"\nelse:\n    b = 2.0\nb\n',
    'for i in range(3):\n    while i:\n        break\n    else:\n        continue\n',
    'x: int = 3\ny = x if x else 4\nz = not y or x and 1\nw = (yield)\n',
    's = "abc"\ns.up\nt = s[0]\nu = f"{s!r:>10}"\nb"bytes".de\n',
    'def outer():\n    v = 1\n    def inner():\n        nonlocal v\n        v = 2\n        return v\n    return inner\nouter()()\n',
    'global_var = 1\ndef use():\n    global global_var\n    global_var += 1\n    del global_var\n',
    'from . import sibling\nfrom .. import parent\nfrom .pkg.mod import name as alias\nimport a.b.c as abc\n',
    'print(1, 2, sep="")\nlen([1])\nisinstance(x, int)\n',
    'match command:\n    case [a, b]:\n        pass\n    case {"k": v}:\n        v\n    case _:\n        pass\n',
    'z = (1, 2)\ng = ((a for a in b) for b in z)\nm = [[c for c in d] for d in z]\ns = {e: {f for f in e} for e in z}\n',
    'def deco(fn):\n    def wrapper(*a, **k):\n        return fn(*a, **k)\n    return wrapper\n@deco\ndef decorated(p, q=lambda r: r):\n    class Local:\n        lv = p\n    return Local\ndecorated(1).lv\n',
    'import nspkg_zq\nfrom nspkg_zq import sub\nclass A: pass\ndef flag(): return 1\nx = A if flag() else nspkg_zq\nx\n',
    'class C:\n    """doc"""\n    attr = 1\n    def __init__(self):\n        """init doc"""\n        self.attr2 = C.attr\nc = C()\nc.attr2\nC(',
]


def corpus_snippets(rng, n):
    files = sorted(glob.glob(os.path.join(common.REPO, 'jedi', 'api', '*.py')) +
                   glob.glob(os.path.join(common.REPO, 'jedi', 'inference', '*.py')) +
                   glob.glob(os.path.join(common.REPO, 'test', 'completion', '*.py')) +
                   glob.glob(os.path.join(common.REPO, 'test', 'refactor', '*.py')))
    out = []
    for _ in range(n):
        f = rng.choice(files)
        try:
            lines = open(f, encoding='utf8').read().split('\n')
        except Exception:
            continue
        i = rng.randrange(max(1, len(lines) - 5))
        out.append('\n'.join(lines[i:i + rng.randint(3, 25)]))
    return out


def mutate(rng, s):
    """code being typed / small edits"""
    if not s:
        return s
    r = rng.random()
    toks = re.findall(r'\w+|\s+|[^\w\s]', s)
    if r < 0.35:       # prefix at a token boundary
        k = rng.randint(0, len(toks))
        return ''.join(toks[:k])
    if r < 0.5 and toks:       # delete one token
        k = rng.randrange(len(toks))
        return ''.join(toks[:k] + toks[k + 1:])
    if r < 0.62 and toks:      # duplicate one token
        k = rng.randrange(len(toks))
        return ''.join(toks[:k] + [toks[k]] + toks[k:])
    if r < 0.74 and len(toks) > 1:      # swap two adjacent tokens
        k = rng.randrange(len(toks) - 1)
        toks[k], toks[k + 1] = toks[k + 1], toks[k]
        return ''.join(toks)
    if r < 0.86:       # insert a soup token
        k = rng.randint(0, len(toks))
        return ''.join(toks[:k] + [rng.choice(SOUP)] + toks[k:])
    if r < 0.93:
        return s.replace('\n', '\r\n')
    return s.replace('\n', '\r', 1)


def gen_texts(ctx, n):
    rng = ctx.rng
    base = SNIPPETS + corpus_snippets(rng, n // 3)
    out, kinds = [], {}
    for _ in range(n):
        r = rng.random()
        if r < 0.2:
            t, k = rng.choice(base), 'valid-or-corpus'
        elif r < 0.75:
            t, k = mutate(rng, rng.choice(base)), 'edit'
            if rng.random() < 0.3:
                t = mutate(rng, t)
        else:
            t, k = ''.join(rng.choice(SOUP) for _ in range(rng.randint(0, 14))), 'soup'
        kinds[k] = kinds.get(k, 0) + 1
        out.append(t)
    ctx.stat('text_kinds', kinds)
    return out


def positions(rng, text, k):
    import parso
    lines = parso.split_lines(text, keepends=True)
    out = []
    for _ in range(k):
        r = rng.random()
        li = rng.randint(1, len(lines))
        raw = lines[li - 1]
        if r < 0.6:      # inside
            out.append((li, rng.randint(0, len(raw.rstrip('\n').rstrip('\r')) if rng.random() < 0.7 else len(raw))))
        elif r < 0.7:
            out.append((li, len(raw) + rng.choice([0, 1, 2])))
        elif r < 0.78:
            out.append((rng.choice([0, -1, len(lines) + 1, len(lines) + 2]), rng.randint(0, 3)))
        elif r < 0.84:
            out.append((li, rng.choice([-1, -2, 10 ** 6])))
        elif r < 0.9:
            out.append((None, None))
        elif r < 0.95:
            out.append((li, None))
        else:
            out.append((None, rng.randint(0, len(lines[-1]) + 1)))
    return out


# ------------------------------------------------------------------ validate stream
class _FakeScript:
    def __init__(self, code_lines):
        self._code_lines = code_lines


def g_out(o):
    return 'ValueError' if o is None else '(Accept %s %s)' % (g_Z(o[0]), g_Z(o[1]))


def stream_validate(ctx):
    import parso
    import jedi
    from jedi.api import helpers
    probe = helpers.validate_line_column(lambda self, line, column: (line, column))
    specials = ['\n', '\r\n', '\r', '\f', '\x0b', '\x1c', '\x1d', '\x1e', '\x85', '\u2028', '\u2029', 'a', 'é', ' ', '\t', '']
    cases, metas = [], []
    n = ctx.n(500, 5000)
    nrej = 0
    for i in range(n):
        text = ''.join(ctx.rng.choice(specials) for _ in range(ctx.rng.randint(0, 9)))
        try:
            lines = jedi.Script(text)._code_lines if i % 4 == 0 else parso.split_lines(text, keepends=True)
        except Exception as e:
            ctx.deviation(dict(stream='validate', exc=type(e).__name__), dict(text=text), 'Script() raised %r' % e)
            continue
        for (l, c) in positions(ctx.rng, text, 4):
            try:
                o = probe(_FakeScript(lines), l, c)
            except ValueError:
                o = None
                nrej += 1
            except Exception as e:
                ctx.deviation(dict(stream='validate', exc=type(e).__name__), dict(text=text, line=l, column=c),
                              'validate_line_column raised %r (only ValueError is allowed)' % e)
                continue
            ctx.count('validate', (text, l, c), nontrivial=len(text) > 0)
            # the property, directly: accepted <=> inside the text
            inside = None
            if l is not None and c is not None:
                inside = 1 <= l <= len(lines) and 0 <= c <= len(re.sub(r'(\r\n|\n)$', '', lines[l - 1]))
                if inside != (o is not None):
                    ctx.deviation(dict(stream='validate', cls='range'), dict(text=text, line=l, column=c, accepted=o is not None),
                                  'position (%r,%r) is %s the text but was %s' % (l, c, 'inside' if inside else 'outside',
                                                                                  'accepted' if o else 'rejected'))
            cases.append('(%s, %s, %s, %s, %s)' % (g_str(text), g_opt(l, g_Z), g_opt(c, g_Z), g_out(o), g_list(lines, g_str, 'str')))
            metas.append(dict(text=text, line=l, column=c, observed=o, lines=lines))
    ctx.stat('validate_rejected_fraction', round(nrej / max(1, len(cases)), 3))
    fails, err = common.coq_failing(IMPORTS, 'chk', cases, shard=1000, defs=DEFS)
    if err:
        raise RuntimeError('coq evaluation failed (validate): ' + err)
    for i in fails[:5]:
        model = common.coq_show(IMPORTS, ['let \'(s, l, co, o, ls) := %s in (validate_text s l co, split_lines s)' % cases[i]], defs=DEFS)
        ctx.violation('obligation', dict(what='correspondence validate/split_lines: model and implementation differ; the range oracle agreed with the implementation',
                                         input=metas[i], model=model), nofail=True)
    ctx.sample(dict(stream='validate', **{k: repr(v) for k, v in metas[0].items()}))


# ------------------------------------------------------------------ api stream
NAME_ATTRS = ['name', 'type', 'module_name', 'module_path', 'line', 'column', 'description', 'full_name']
NAME_METHODS = ['in_builtin_module', 'get_definition_start_position', 'get_definition_end_position', 'docstring',
                'is_stub', 'is_side_effect', 'goto', 'infer', 'parent', 'get_line_code', 'get_signatures', 'execute',
                'get_type_hint']


def _walk_result(obj, depth, acc, where):
    """touch every documented attribute/method of a result object"""
    import jedi.api.classes as cl
    def call(label, f):
        try:
            return f()
        except Exception as e:
            acc.append((where + '.' + label, common.exc_sig(e)))
            return None
    if isinstance(obj, cl.BaseName):
        for a in NAME_ATTRS:
            call(a, lambda: getattr(obj, a))
        for m in NAME_METHODS:
            r = call(m + '()', lambda: getattr(obj, m)())
            if depth > 0 and isinstance(r, list):
                for x in r[:2]:
                    _walk_result(x, depth - 1, acc, where + '.' + m + '()')
            elif depth > 0 and isinstance(r, cl.BaseName):
                _walk_result(r, depth - 1, acc, where + '.' + m + '()')
        call('docstring(raw)', lambda: obj.docstring(raw=True))
        if isinstance(obj, cl.Completion):
            for a in ('complete', 'name_with_symbols'):
                call(a, lambda: getattr(obj, a))
            call('get_completion_prefix_length()', obj.get_completion_prefix_length)
        if isinstance(obj, cl.Name):
            call('is_definition()', obj.is_definition)
            r = call('defined_names()', obj.defined_names)
            if depth > 0 and r:
                for x in r[:2]:
                    _walk_result(x, depth - 1, acc, where + '.defined_names()')
        if isinstance(obj, cl.BaseSignature):
            call('to_string()', obj.to_string)
            ps = call('params', lambda: obj.params) or []
            for p in ps[:3]:
                for a in ('name', 'kind', 'description'):
                    call('param.' + a, lambda: getattr(p, a))
                call('param.to_string()', p.to_string)
                call('param.infer_default()', p.infer_default)
                call('param.infer_annotation()', p.infer_annotation)
        if isinstance(obj, cl.Signature):
            call('index', lambda: obj.index)
            call('bracket_start', lambda: obj.bracket_start)
    else:   # SyntaxError objects
        for a in ('line', 'column', 'until_line', 'until_column'):
            call(a, lambda: getattr(obj, a))
        call('get_message()', obj.get_message)


def _api_task(task):
    text, poss, methods, seed = task
    import jedi
    out = []
    try:
        s = jedi.Script(text)
    except Exception as e:
        return [dict(method='Script', pos=None, outcome='other', sig=common.exc_sig(e))]
    rng = random.Random(seed)
    for (l, c) in poss:
        for m in methods:
            rec = dict(method=m, pos=(l, c))
            acc = []
            try:
                if m in POS_METHODS:
                    kw = {}
                    if m == 'complete' and rng.random() < 0.3:
                        kw['fuzzy'] = True
                    if m == 'goto' and rng.random() < 0.5:
                        kw['follow_imports'] = True
                    res = getattr(s, m)(l, c, **kw)
                elif m == 'get_names':
                    res = s.get_names(all_scopes=rng.random() < 0.5, definitions=True, references=rng.random() < 0.5)
                elif m == 'search':
                    res = list(s.search(rng.choice(['foo', 'x', 'A', 'a.f', 'class A', 'def g', ''])))
                elif m == 'complete_search':
                    res = list(s.complete_search(rng.choice(['fo', 'x', 'A', 'a.', ''])))
                else:
                    res = s.get_syntax_errors()
                rec['outcome'] = 'normal'
                items = res if isinstance(res, list) else [res]
                rec['n'] = len(items)
                pick = items if len(items) <= 5 else items[:2] + rng.sample(items[2:], 3)
                for it in pick:
                    _walk_result(it, 1, acc, m)
            except ValueError as e:
                sig = common.exc_sig(e)
                # the wrapper's ValueError carries no jedi frame below the wrapper
                rec['outcome'] = 'valueerror' if sig['frames'][-1:] == ['wrapper'] else 'other'
                rec['sig'] = sig
            except Exception as e:
                rec['outcome'] = 'other'
                rec['sig'] = common.exc_sig(e)
            if acc:
                rec['attr_errors'] = [(w, sg) for (w, sg) in acc[:6]]
            out.append(rec)
    return out


def stream_api(ctx):
    # the (empty, temporary) current directory is the project of path-less Scripts: give it an
    # implicit namespace package so that names without position/module appear among the results
    os.makedirs(os.path.join(os.getcwd(), 'nspkg_zq'), exist_ok=True)
    with open(os.path.join(os.getcwd(), 'nspkg_zq', 'sub.py'), 'w') as f:
        f.write('value = 1\n')
    texts = gen_texts(ctx, ctx.n(100, 3000))
    tasks = []
    for t in texts:
        poss = positions(ctx.rng, t, 3)
        ms = ctx.rng.sample(POS_METHODS, 3) + [ctx.rng.choice(OTHER_METHODS)]
        tasks.append((t, poss, ms, ctx.rng.randrange(10 ** 9)))
    results = common.pmap(_api_task, tasks, chunksize=4, timeout=3000)
    cases, metas = [], []
    outcomes = {}
    for (text, poss, ms, _), recs in zip(tasks, results):
        for rec in recs:
            outcomes[rec['outcome']] = outcomes.get(rec['outcome'], 0) + 1
            pos = rec['pos']
            ctx.count('api', (text, rec['method'], pos), nontrivial=rec.get('n', 0) > 0)
            if rec['outcome'] == 'other':
                sig = rec['sig']
                ctx.deviation(dict(stream='api', exc=sig['exc'], site=sig['site']),
                              dict(text=text, method=rec['method'], position=pos, error=sig),
                              'Script.%s%r raised %s at %s' % (rec['method'], pos, sig['exc'], sig['site']))
            for where, sig in rec.get('attr_errors', []):
                ctx.deviation(dict(stream='api', exc=sig['exc'], site=sig['site']),
                              dict(text=text, method=rec['method'], position=pos, attribute=where, error=sig),
                              '%s of a result of Script.%s%r raised %s at %s' % (where, rec['method'], pos, sig['exc'], sig['site']))
            if rec['method'] in POS_METHODS and rec['outcome'] in ('normal', 'valueerror'):
                cases.append('(%s, %s, %s, %s)' % (g_str(text), g_opt(pos[0], g_Z), g_opt(pos[1], g_Z),
                                                   common.g_bool(rec['outcome'] == 'valueerror')))
                metas.append(dict(text=text, method=rec['method'], position=pos, outcome=rec['outcome']))
    ctx.stat('api_outcomes', outcomes)
    fails, err = common.coq_failing(IMPORTS, 'chk_api', cases, shard=300, defs=DEFS)
    if err:
        raise RuntimeError('coq evaluation failed (api): ' + err)
    for i in fails[:8]:
        m = metas[i]
        # this disagreement IS a failing input: ValueError inside the text, or no ValueError outside
        ctx.deviation(dict(stream='api', cls='position-contract'), m,
                      'Script.%s%r: outcome %s contradicts the position contract (model: %s)' % (
                          m['method'], tuple(m['position']), m['outcome'],
                          'inside the text' if m['outcome'] == 'valueerror' else 'outside the text'))
    if metas:
        ctx.sample(dict(stream='api', **metas[0]))


def _chain_task(text):
    """Every name of the text (all scopes, definitions and references): every documented attribute, the whole
    parent() chain up to the module, and every position-taking query asked AT the name, results walked."""
    import jedi
    import jedi.api.classes as cl
    out = []
    try:
        s = jedi.Script(text)
        names = s.get_names(all_scopes=True, definitions=True, references=True)
    except Exception as e:
        return [('get_names', None, common.exc_sig(e))]
    seen_pos = set()
    for n in names[:60]:
        acc = []
        _walk_result(n, 1, acc, 'get_names')
        # the whole chain of lexical parents
        cur, hops = n, 0
        while cur is not None and hops < 12:
            try:
                cur = cur.parent()
            except Exception as e:
                acc.append(('get_names' + '.parent()' * (hops + 1), common.exc_sig(e)))
                break
            hops += 1
            if isinstance(cur, cl.BaseName):
                _walk_result(cur, 0, acc, 'get_names' + '.parent()' * hops)
        pos = (n.line, n.column)
        if None not in pos and pos not in seen_pos and len(seen_pos) < 25:
            seen_pos.add(pos)
            for m in ('goto', 'infer', 'get_references', 'help'):
                try:
                    for r in getattr(s, m)(*pos)[:3]:
                        _walk_result(r, 1, acc, m)
                        try:
                            p = r.parent()
                            if isinstance(p, cl.BaseName):
                                _walk_result(p, 1, acc, m + '.parent()')
                        except Exception as e:
                            acc.append((m + '.parent()', common.exc_sig(e)))
                except Exception as e:
                    acc.append((m, common.exc_sig(e)))
        for where, sig in acc[:4]:
            out.append((where, pos, sig))
    return out


def stream_chains(ctx):
    """Directed: the fixed snippets (every syntactic shape the generator knows, incl. nested comprehensions,
    lambdas in classes, decorators, nested functions) and a few corpus windows, exhaustively over their names."""
    texts = list(SNIPPETS) + corpus_snippets(ctx.rng, ctx.n(12, 150))
    results = common.pmap(_chain_task, texts, chunksize=2, timeout=3000)
    n_names = 0
    for text, recs in zip(texts, results):
        ctx.count('chains', text, nontrivial=True)
        for where, pos, sig in recs:
            ctx.deviation(dict(stream='api', exc=sig['exc'], site=sig['site']),
                          dict(text=text, method='get_names', position=pos, attribute=where, error=sig),
                          '%s of a name at %r raised %s at %s' % (where, pos, sig['exc'], sig['site']))
    ctx.stat('chains_texts', len(texts))


def run(ctx):
    common.setup_jedi(os.path.join(ctx.tmp, 'cache'))
    ctx.proofs()
    ctx.cov['fingerprints'] = common.fingerprint(FP)
    ctx.cov['rule'] = ('validate: seeded strings over line-break-like characters x positions in/out of range/None; '
                       'api: corpus snippets, prefixes at token boundaries, single-token edits, token soups x 3 positions x 4 query methods '
                       'x every documented attribute of up to 4 results; non-trivial = non-empty text (validate) / non-empty result (api); distinct by input')
    ctx.assumptions += ['only the position contract is a theorem; totality of the inference engine is explored by the api stream (partial)',
                        'typeshed stubs are absent from this tree: crash classes caused by that are listed known findings, matched by exception type and innermost jedi frame']
    stream_validate(ctx)
    stream_chains(ctx)
    stream_api(ctx)


def replay(ctx, path):
    rec = json.load(open(path))
    print(json.dumps(rec, indent=1, ensure_ascii=False)[:3000])
    if 'text' in rec and rec.get('method'):
        common.setup_jedi(os.path.join(ctx.tmp, 'cache'))
        pos = rec.get('position') or (None, None)
        print('now:', _api_task((rec['text'], [tuple(pos)], [rec['method']], 0)))
    return 0
