"""C13 — Interpreter reflects the live objects; safe mode runs no user descriptors.

Streams
  static    getattr_static on generated LIVE object graphs (reflected into a Gallina heap) vs model
  allowed   DirectObjectAccess.is_allowed_getattr(name, safe) x {safe, unsafe}: triple + hooks run vs model
  pyget     the model's `py_getattr` (what Python does) vs the real getattr with call counters
  dir       model py_dir vs dir(obj)
  filter    CompiledValueFilter.get / .values (both modes, instance and not) vs model filter_get / filter_values
  items     py__simple_getitem__ / py__iter__list / has_iter / py__bool__ on the access object vs model
            (the model over-approximates: only accesses the model does not predict are flagged)
  api       every Interpreter query method on every expression form reaching the objects, safe and unsafe:
            the eight hook counters must stay zero in safe mode; names after `obj.` >= dir(obj);
            infer on plain attribute / builtin-container item paths reports type(stored object).__name__
All hooks of the generated classes are harmless: they bump a counter and return a constant.
"""
import collections
import importlib.util
import json
import os
import sys
import time
import traceback
import types

import common
from common import g_str, g_bool, g_list, g_opt

IMPORTS = 'From JV Require Import Base.Str Model.C13_Getattr.\n'

FP = [('jedi/inference/compiled/getattr_static.py', 'getattr_static'),
      ('jedi/inference/compiled/getattr_static.py', '_check_class'),
      ('jedi/inference/compiled/getattr_static.py', '_check_instance'),
      ('jedi/inference/compiled/getattr_static.py', '_shadowed_dict'),
      ('jedi/inference/compiled/getattr_static.py', '_safe_is_data_descriptor'),
      ('jedi/inference/compiled/access.py', 'DirectObjectAccess.is_allowed_getattr'),
      ('jedi/inference/compiled/access.py', 'DirectObjectAccess.py__simple_getitem__'),
      ('jedi/inference/compiled/access.py', 'DirectObjectAccess.py__iter__list'),
      ('jedi/inference/compiled/access.py', 'DirectObjectAccess.has_iter'),
      ('jedi/inference/compiled/access.py', 'DirectObjectAccess.py__bool__'),
      ('jedi/inference/compiled/access.py', 'DirectObjectAccess.get_dir_infos'),
      ('jedi/inference/compiled/value.py', 'CompiledValueFilter._get'),
      ('jedi/inference/compiled/value.py', 'CompiledValueFilter.get'),
      ('jedi/inference/compiled/value.py', 'CompiledValueFilter.values'),
      ('jedi/inference/compiled/value.py', 'CompiledValue.py__simple_getitem__'),
      ('jedi/inference/compiled/value.py', 'CompiledValue.py__iter__'),
      ('jedi/inference/compiled/mixed.py', 'MixedObject.py__simple_getitem__'),
      ('jedi/api/__init__.py', 'Interpreter.__init__')]

# the eight hooks the property names
EIGHT = ('prop', 'get', 'getitem', 'iter', 'next', 'call', 'len', 'bool')

# ======================================================================================
# generated object graphs
# ======================================================================================
ATTR_POOL = ['a', 'b', 'c', 'x', 'y', 'p', 'q', 'val', 'item', 'w']
PROTO = ['getitem', 'iter', 'next', 'call', 'len', 'bool']


def _lit(rng):
    k = rng.choice(['int', 'int', 'str', 'float', 'bytes'])
    if k == 'int':
        return str(rng.randint(1000, 99999))       # not small cached ints: identity must be meaningful
    if k == 'str':
        return repr('s%d_%s' % (rng.randint(100, 999), rng.choice(['alpha', 'beta', 'gamma'])))
    if k == 'float':
        return '%d.5' % rng.randint(10, 99)
    return "b'by%d'" % rng.randint(10, 99)


def _hook_lines(kind, where, ret, has_next=False, ind='    '):
    sig = {'getitem': '__getitem__(self, i)', 'iter': '__iter__(self)', 'next': '__next__(self)',
           'call': '__call__(self, *a)', 'len': '__len__(self)', 'bool': '__bool__(self)'}[kind]
    body = {'getitem': 'return ' + ret, 'iter': 'return self' if has_next else 'return iter(())',
            'next': 'raise StopIteration', 'call': 'return ' + ret, 'len': 'return 2', 'bool': 'return True'}[kind]
    return ['%sdef %s:' % (ind, sig), "%s    _hit('%s', '%s', self); %s" % (ind, kind, where, body)]


def gen_graph(rng, exotic=False, idx=0):
    """Returns dict(src=program text, classes=[...], ...).  The program expects the globals
    _hit, _idict, _slotset, _R, _SN and defines classes, instances and NS (the namespace dict)."""
    L = ['def _f0(u=1):', '    return 5']
    descr = []
    # ---- descriptor classes
    want = rng.sample(['D0', 'D1', 'D2', 'D3', 'D4', 'P1'], rng.randint(2, 5))
    if 'D2' in want and 'D0' not in want:
        want.append('D0')
    for d in [d for d in ['D0', 'D1', 'D2', 'D3', 'D4', 'P1'] if d in want]:
        ret = rng.choice(['41', '_R', "'got'"])
        if d == 'D0':      # data descriptor
            L += ['class D0:', '    def __get__(self, o, t=None):', "        _hit('get', 'D0', self); return " + ret,
                  '    def __set__(self, o, v):', '        pass']
        elif d == 'D1':    # non-data descriptor
            L += ['class D1:', '    def __get__(self, o, t=None):', "        _hit('get', 'D1', self); return " + ret]
        elif d == 'D2':    # inherits __get__/__set__
            L += ['class D2(D0):', '    tag = 2']
        elif d == 'D3':    # __set__ only: not a get-descriptor
            L += ['class D3:', '    def __set__(self, o, v):', '        pass']
        elif d == 'D4':    # __get__ + __delete__: data descriptor
            L += ['class D4:', '    def __get__(self, o, t=None):', "        _hit('get', 'D4', self); return " + ret,
                  '    def __delete__(self, o):', '        pass']
        elif d == 'P1':    # property subclass
            L += ['class P1(property):', '    tag = 1']
        descr.append(d)

    def attr_value(where, name, level):
        kinds = ['plain', 'plain', 'method', 'prop', 'prop', 'descr', 'descr', 'static', 'classm', 'obj']
        if level == 'meta':
            kinds = ['plain', 'method', 'prop', 'prop', 'descr', 'descr']
        k = rng.choice(kinds)
        if k == 'plain':
            return ['    %s = %s' % (name, rng.choice([_lit(rng), _lit(rng), '[%s, %s]' % (_lit(rng), _lit(rng)),
                                                        "{'k': %s, 7: %s}" % (_lit(rng), _lit(rng)),
                                                        '(%s,)' % _lit(rng)]))]
        if k == 'obj':
            return ['    %s = _R' % name]
        if k == 'method':
            return ['    def %s(self, u=1):' % name, '        return %s' % _lit(rng)]
        if k == 'static':
            return ['    @staticmethod', '    def %s(u=1):' % name, '        return %s' % _lit(rng)]
        if k == 'classm':
            return ['    @classmethod', '    def %s(cls, u=1):' % name, '        return %s' % _lit(rng)]
        if k == 'prop':
            deco = '@P1' if 'P1' in descr and rng.random() < 0.25 else '@property'
            ann = ' -> int' if rng.random() < 0.3 else ''
            ret = rng.choice(['51', '_R', "'pv'"])
            return ['    ' + deco, '    def %s(self)%s:' % (name, ann),
                    "        _hit('prop', '%s.%s', self); return %s" % (where, name, ret)]
        ds = [d for d in descr if d != 'P1']
        if not ds:
            return ['    %s = %s' % (name, _lit(rng))]
        return ['    %s = %s()' % (name, rng.choice(ds))]

    def proto_lines(where, weights):
        protos = rng.sample(PROTO, rng.choice(weights))
        out = []
        for pr in protos:
            out += _hook_lines(pr, where, rng.choice(['71', '_R']), has_next='next' in protos)
        return out

    # ---- metaclasses
    metas = []
    for mi in range(rng.choice([0, 1, 1, 2])):
        mname = 'M%d' % mi
        base = metas[-1] if metas and rng.random() < 0.5 else 'type'
        L.append('class %s(%s):' % (mname, base))
        body = []
        for nm in rng.sample(ATTR_POOL, rng.randint(1, 3)):
            body += attr_value(mname, 'm' + nm if rng.random() < 0.5 else nm, 'meta')
        body += proto_lines(mname, [0, 0, 1, 2])
        if rng.random() < 0.2:
            body += ['    def __getattr__(cls, n):', "        _hit('getattr', '%s', cls)" % mname,
                     '        raise AttributeError(n)']
        if exotic and rng.random() < 0.35:
            body += ['    __dict__ = %s' % _lit(rng)]          # metaclass that shadows __dict__
        L += body or ['    pass']
        metas.append(mname)

    # ---- classes
    classes, infos = [], {}
    for ci in range(rng.randint(3, 6)):
        cname = 'T%d' % ci
        info = dict(name=cname, bases=[], meta=None, slots=None, dynamic=False, has_dict=True, shadow=False,
                    builtin=None)
        nb = rng.choice([0, 1, 1, 1, 2]) if classes else 0
        bases = rng.sample(classes, min(nb, len(classes)))
        bases.sort(key=lambda c: -classes.index(c))          # more derived first: a consistent MRO
        info['bases'] = bases
        for bc in bases:
            info['builtin'] = info['builtin'] or infos[bc]['builtin']
        if not bases and rng.random() < 0.3:
            info['builtin'] = rng.choice(['list', 'dict', 'tuple', 'str'])
        if metas and rng.random() < 0.4:
            info['meta'] = rng.choice(metas)
        use_slots = (rng.random() < 0.25 and all(infos[bc]['slots'] is None for bc in bases)
                     and info['builtin'] not in ('tuple', 'str'))
        if use_slots:
            info['slots'] = rng.sample(['s1', 's2', 'x', 'p'], rng.randint(1, 2))
            if rng.random() < 0.5:
                info['slots'].append('__dict__')
        info['has_dict'] = (info['slots'] is None or '__dict__' in info['slots']
                            or any(infos[bc]['has_dict'] for bc in bases))
        info['dynamic'] = rng.random() < 0.25 and not use_slots
        info['shadow'] = exotic and rng.random() < 0.3 and bool(bases) and info['has_dict'] and not use_slots
        body = []
        if info['slots'] is not None:
            body.append('    __slots__ = %r' % (tuple(info['slots']),))
        names = rng.sample(ATTR_POOL, rng.randint(1, 5))
        if info['slots']:
            names = [n for n in names if n not in info['slots']]
        for nm in names:
            body += attr_value(cname, nm, 'class')
        body += proto_lines(cname, [0, 0, 1, 2, 3, 6])
        r = rng.random()
        if r < 0.15:
            body += ['    def __getattr__(self, n):', "        _hit('getattr', '%s', self)" % cname,
                     "        if n.startswith('dyn_'):", '            return 81', '        raise AttributeError(n)']
        elif r < 0.25:
            body += ['    def __getattribute__(self, n):', "        _hit('getattribute', '%s', self)" % cname,
                     '        return object.__getattribute__(self, n)']
        if info['shadow']:
            body += ['    __dict__ = %s' % _lit(rng)]          # class that shadows its instances' __dict__
        blist = list(bases) + ([info['builtin']] if info['builtin'] and not bases else [])
        kw = ', metaclass=%s' % info['meta'] if info['meta'] else ''
        head = '(%s%s)' % (', '.join(blist), kw) if (blist or kw) else ''
        if info['dynamic']:
            # created by calling the metaclass: no class statement of that name in any source file
            L.append('def _mk_%s():' % cname)
            L.append('  class _tmp%s:' % head)
            L += ['  ' + ln for ln in (body or ['    pass'])]
            L.append("  ns = {k: v for k, v in type.__dict__['__dict__'].__get__(_tmp).items() "
                     "if k not in ('__dict__', '__weakref__', '__module__', '__qualname__', '__doc__')}")
            L.append("  ns['__module__'] = __name__")
            L.append('  return type(_tmp)(%r, (%s), ns)' % (cname, ''.join(x + ', ' for x in blist)))
            L.append('%s = _mk_%s()' % (cname, cname))
        else:
            L.append('class %s%s:' % (cname, head))
            L += body or ['    pass']
        classes.append(cname)
        infos[cname] = info

    # ---- instances
    insts = []
    for cname in classes:
        for k in range(rng.choice([1, 1, 2])):
            insts.append(('o%s_%d' % (cname[1:], k), cname))
    vals = [o for o, _ in insts] + classes
    later = []
    for oname, cname in insts:
        info = infos[cname]
        bt = info['builtin']
        if bt == 'tuple':
            L.append('%s = tuple.__new__(%s, (%s, %s))' % (oname, cname, _lit(rng), '_R'))
        elif bt == 'str':
            L.append("%s = str.__new__(%s, 'text%d')" % (oname, cname, rng.randint(10, 99)))
        else:
            L.append('%s = %s.__new__(%s)' % (oname, cname, cname))
        if bt == 'list':
            later.append('list.extend(%s, [%s, %s])' % (oname, rng.choice(vals), _lit(rng)))
        elif bt == 'dict':
            later.append("dict.update(%s, {'k': %s, 7: %s})" % (oname, rng.choice(vals), _lit(rng)))
        if info['has_dict']:
            for nm in rng.sample(ATTR_POOL + ['inst1', 'inst2'], rng.randint(0, 4)):
                v = rng.choice([_lit(rng), _lit(rng), rng.choice(vals), '[%s, %s]' % (rng.choice(vals), _lit(rng)),
                                "{'k': %s, 7: [%s]}" % (rng.choice(vals), rng.choice(vals)),
                                '(%s, %s)' % (_lit(rng), rng.choice(vals)), '_f0', '_R'])
                later.append("_idict(%s)[%r] = %s" % (oname, nm, v))
        for sl in sorted({s for c in classes for s in (infos[c]['slots'] or []) if s != '__dict__'}):
            if rng.random() < 0.6:
                later.append("_slotset(%s, %r, %s)" % (oname, sl, rng.choice([_lit(rng), rng.choice(vals)])))
    L += later
    # ---- roots
    roots = {o: o for o, _ in insts}
    roots.update({c: c for c in classes})
    some = [o for o, _ in insts]
    roots['lst'] = '[%s, %s]' % (rng.choice(some), _lit(rng))
    roots['tup'] = '(%s, %s)' % (rng.choice(some), rng.choice(classes))
    roots['dct'] = "{'k': %s, 'n': {'in': [%s]}, 7: %s}" % (rng.choice(some), rng.choice(some), _lit(rng))
    roots['sn'] = '_SN(a=%s, b=[%s], c=%s)' % (rng.choice(some), rng.choice(some), _lit(rng))
    L.append('NS = {%s}' % ', '.join('%r: %s' % kv for kv in sorted(roots.items())))
    return dict(src='\n'.join(L) + '\n', classes=classes, metas=metas, descr=descr, insts=insts, exotic=exotic,
                idx=idx, infos=infos)


def gen_valid_graph(rng, exotic=False, idx=0):
    """Generate until the program actually builds (layout / metaclass conflicts are rejected)."""
    for attempt in range(50):
        g = gen_graph(rng, exotic, idx)
        try:
            b = build(g, 'exec', None, 'probe')
        except Exception:
            continue
        return g
    raise RuntimeError('generator cannot produce a valid object graph')


# ---- helpers injected into the generated program ----------------------------------------
_MRO = type.__dict__['__mro__']
_CDICT = type.__dict__['__dict__']


def class_dict(c):
    return _CDICT.__get__(c)


def class_mro(c):
    return _MRO.__get__(c)


def real_idict(o):
    """The real instance dict, found through a genuine __dict__ getset descriptor (runs no user code)."""
    for c in class_mro(type(o)):
        d = class_dict(c).get('__dict__')
        if type(d) in (types.GetSetDescriptorType, types.MemberDescriptorType) and d.__name__ == '__dict__':
            try:
                r = d.__get__(o)
            except (AttributeError, TypeError):
                return None
            return r if type(r) is dict else None
    return None


def slot_values(o):
    out = {}
    for c in class_mro(type(o)):
        for k, d in class_dict(c).items():
            if type(d) is types.MemberDescriptorType and k not in out:
                try:
                    out[k] = d.__get__(o)
                except AttributeError:
                    pass
    return out


def _slotset(o, name, v):
    for c in class_mro(type(o)):
        d = class_dict(c).get(name)
        if type(d) is types.MemberDescriptorType:
            d.__set__(o, v)
            return


class _RCls:
    """what hooks return; a plain class with two attributes"""
    ra = 7001

    def rm(self):
        return 7002


class Built:
    pass


def build(graph, route, tmpdir, tag):
    """Execute the generated program.  route 'file': written to disk and imported, so that
    inspect finds sources (jedi's MixedObject route); 'exec': no source anywhere (compiled route)."""
    C = collections.Counter()

    def _hit(kind, where, owner):
        C[(kind, where, id(owner))] += 1

    R = _RCls()
    g = dict(_hit=_hit, _idict=real_idict, _slotset=_slotset, _R=R, _SN=types.SimpleNamespace)
    modname = 'c13gen_%s' % tag
    b = Built()
    if route == 'file':
        path = os.path.join(tmpdir, modname + '.py')
        with open(path, 'w') as f:
            f.write(graph['src'])
        spec = importlib.util.spec_from_file_location(modname, path)
        mod = importlib.util.module_from_spec(spec)
        mod.__dict__.update(g)
        sys.modules[modname] = mod
        spec.loader.exec_module(mod)
        ns = mod.__dict__
        b.module = mod
    else:
        ns = dict(g)
        ns['__name__'] = modname
        exec(compile(graph['src'], '<c13gen>', 'exec'), ns)
        b.module = None
    b.ns, b.C, b.R, b.modname = ns, C, R, modname
    b.NS = ns['NS']
    b.classes = [ns[c] for c in graph['classes']]
    b.metas = [ns[m] for m in graph['metas']]
    b.descr = [ns[d] for d in graph['descr']]
    b.insts = [ns[o] for o, _ in graph['insts']]
    b.generated = set(map(id, b.classes + b.metas + b.descr)) | {id(_RCls)}
    C.clear()
    return b


def unbuild(b):
    if b.module is not None:
        sys.modules.pop(b.modname, None)


# ======================================================================================
# reflection of the live graph into the Gallina heap
# ======================================================================================
def _kind_table():
    from jedi.inference.compiled import access as A
    return {id(object): 'KObject', id(type): 'KType', id(types.FunctionType): 'KFunction',
            id(property): 'KProperty', id(staticmethod): 'KStaticmethod', id(classmethod): 'KClassmethod',
            id(types.GetSetDescriptorType): 'KGetSet', id(types.MemberDescriptorType): 'KMember',
            id(A.MethodDescriptorType): 'KMethodDescr', id(A.WrapperDescriptorType): 'KWrapperDescr',
            id(A.ClassMethodDescriptorType): 'KClassMethodDescr',
            id(str): 'KStr', id(list): 'KList', id(tuple): 'KTuple', id(bytes): 'KBytes',
            id(bytearray): 'KBytearray', id(dict): 'KDict'}


LEAF_KEYS = ('__get__', '__set__', '__delete__', '__dict__', '__getattribute__', '__getattr__',
             '__iter__', '__bool__', '__len__')


class Enc:
    """Assigns heap indices to live objects and prints the heap."""

    def __init__(self, built):
        self.b = built
        self.ids = {}
        self.objs = []          # keeps objects alive, index = heap id
        self.kinds = _kind_table()
        self.rows = []
        for x in (object, type):
            self.oid(x)

    def is_full_class(self, c):
        return id(c) in self.b.generated or c is object or c is type or c is types.SimpleNamespace

    def oid(self, x):
        k = id(x)
        if k in self.ids:
            return self.ids[k]
        n = len(self.objs)
        self.ids[k] = n
        self.objs.append(x)
        self.rows.append(None)
        return n

    def known(self, x):
        return self.ids.get(id(x))

    def close(self):
        i = 0
        while i < len(self.objs):
            if self.rows[i] is None:
                self.rows[i] = self._row(self.objs[i])
            i += 1

    def _row(self, x):
        T = type(x)
        t = self.oid(T)
        odict, slots, cls, pay = None, [], None, 'PNone'
        if isinstance(x, type):
            mro = [self.oid(c) for c in class_mro(x)]
            d = class_dict(x)
            if self.is_full_class(x):
                items = list(d.items())
            else:
                items = [(k, d[k]) for k in LEAF_KEYS if k in d]
            kind = self.kinds.get(id(x), 'KUser' if id(x) in self.b.generated else 'KOther')
            cls = (kind, mro, [(k, self.oid(v)) for k, v in items])
        elif id(T) in self.b.generated or T is types.SimpleNamespace:
            rd = real_idict(x)
            if rd is not None:
                odict = [(k, self.oid(v)) for k, v in rd.items() if isinstance(k, str)]
            slots = [(k, self.oid(v)) for k, v in slot_values(x).items()]
        if isinstance(x, property):
            f = x.fget
            pay = 'PProp %s %s' % (g_bool(isinstance(f, types.FunctionType)),
                                   g_bool(isinstance(f, types.FunctionType) and 'return' in f.__annotations__))
        elif T is types.MemberDescriptorType:
            if id(x.__objclass__) in self.b.generated:
                pay = 'PMember %s' % g_str(x.__name__)
        elif T is types.GetSetDescriptorType:
            pay = 'PGetSet %s %d' % (g_str(x.__name__), self.oid(x.__objclass__))
        elif T is staticmethod or T is classmethod:
            pay = 'PWrap %d' % self.oid(x.__func__)
        return (t, odict, slots, cls, pay)

    def gallina(self):
        self.close()
        out = []
        pairs = lambda l: g_list(l, lambda kv: '(%s, %d)' % (g_str(kv[0]), kv[1]), 'str * id')
        for (t, odict, slots, cls, pay) in self.rows:
            c = 'None' if cls is None else '(Some (mkCls %s %s %s))' % (
                cls[0], g_list(cls[1], str, 'id'), pairs(cls[2]))
            out.append('mkObj %d %s %s %s (%s)' % (t, 'None' if odict is None else '(Some %s)' % pairs(odict),
                                                  pairs(slots), c, pay))
        return '[' + ';\n '.join(out) + ']'


# hooks observed from the counters, in the model's vocabulary
def observed_hooks(b, enc, delta):
    """delta: Counter of (kind, where, id(owner)).  Returns (list of Gallina hook terms in canonical
    order, dict of the eight-hook counts)."""
    descr, other = [], []
    for (kind, where, owner), n in sorted(delta.items(), key=lambda kv: (kv[0][0], kv[0][1])):
        if n <= 0:
            continue
        if kind == 'get':
            i = enc.ids.get(owner)
            descr += ['HGet %d' % (i if i is not None else 9999)] * n
        elif kind == 'prop':
            cname, attr = where.split('.')
            c = b.ns[cname]
            p = class_dict(c).get(attr)
            i = enc.ids.get(id(p))
            descr += ['HPropGet %d' % (i if i is not None else 9999)] * n
        elif kind == 'getattr':
            other += ['HGetattr'] * n
        elif kind == 'getattribute':
            other += ['HGetattribute']
        else:
            other += ['HGet 9998'] * n   # a protocol hook: never predicted by the attribute model
    oth = sorted(set(x for x in other if x == 'HGetattribute')) + [x for x in other if x != 'HGetattribute']
    return descr + oth


HOOKS_DEFS = '''
Definition hook_eqb (a b : hook) : bool :=
  match a, b with
  | HGet x, HGet y => Nat.eqb x y
  | HPropGet x, HPropGet y => Nat.eqb x y
  | HGetattr, HGetattr => true
  | HGetattribute, HGetattribute => true
  | _, _ => false
  end.
Fixpoint hooks_eqb (a b : list hook) : bool :=
  match a, b with
  | [], [] => true
  | x :: a', y :: b' => hook_eqb x y && hooks_eqb a' b'
  | _, _ => false
  end.
(* a user __getattribute__ decides everything: only its own invocation is predicted *)
Definition hooks_agree (model obs : list hook) : bool :=
  match model with
  | [HGetattribute] => existsb (hook_eqb HGetattribute) obs
  | _ => hooks_eqb model obs
  end.
Inductive ores := OVal (v : id) | OBound (f s : id) | OOther | OAttrError.
Definition res_agree (m : res) (o : ores) : bool :=
  match m, o with
  | RVal v, OVal w => Nat.eqb v w
  | RBound f s, OBound f' s' => Nat.eqb f f' && Nat.eqb s s'
  | ROpaque, _ => true
  | RHook, _ => true
  | RAttrError, OAttrError => true
  | _, _ => false
  end.
Definition ostatic_eqb (a b : option (id * bool)) : bool :=
  match a, b with
  | None, None => true
  | Some (x, p), Some (y, q) => Nat.eqb x y && Bool.eqb p q
  | _, _ => false
  end.
Definition triple_eqb (a b : bool * bool * bool) : bool :=
  let '(a1, a2, a3) := a in let '(b1, b2, b3) := b in Bool.eqb a1 b1 && Bool.eqb a2 b2 && Bool.eqb a3 b3.
(* has_attribute of the unsafe variant is hasattr(): unknown to the model when user code answers *)
Definition triple_agree (m : (bool * bool * bool) * list hook) (r : res) (o : bool * bool * bool) : bool :=
  match r with
  | RHook => let '(_, a2, a3) := fst m in let '(_, b2, b3) := o in Bool.eqb a2 b2 && Bool.eqb a3 b3
  | _ => triple_eqb (fst m) o
  end.
Fixpoint str_mem (s : str) (l : list str) : bool :=
  match l with [] => false | x :: r => str_eqb s x || str_mem s r end.
Definition set_eqb (a b : list str) : bool :=
  forallb (fun x => str_mem x b) a && forallb (fun x => str_mem x a) b.
Definition cname_eqb (a b : cname) : bool :=
  match a, b with
  | NEmpty, NEmpty => true | NAnnot, NAnnot => true
  | NReal x, NReal y => Bool.eqb x y
  | _, _ => false
  end.
Fixpoint cnames_eqb (a b : list cname) : bool :=
  match a, b with
  | [], [] => true
  | x :: a', y :: b' => cname_eqb x y && cnames_eqb a' b'
  | _, _ => false
  end.
Fixpoint named_eqb (a b : list (str * cname)) : bool :=
  match a, b with
  | [], [] => true
  | (n, x) :: a', (m, y) :: b' => str_eqb n m && cname_eqb x y && named_eqb a' b'
  | _, _ => false
  end.
'''


# ======================================================================================
# correspondence streams (direct calls on the live objects)
# ======================================================================================
CHK = '''
Inductive qcase :=
| QAttr (o : id) (n : str) (st : option (id * bool))
        (ts : bool * bool * bool) (hs : list hook)
        (with_unsafe : bool) (tu : bool * bool * bool) (hu : list hook)
        (r : ores) (hp : list hook)
| QDir (o : id) (modelled : list str) (d : list str)
| QGet (o : id) (n : str) (in_dir : bool) (obs : list (bool * bool * list cname))
| QValues (o : id) (d : list str) (allow_unsafe is_instance : bool) (obs : list (str * cname))
| QItems (o : id) (got_safe got_unsafe has_iter_attr ret_annot iterated iter_hook truth_hook all_iter : bool).

Definition no_getattr (hs : list hook) : list hook :=
  filter (fun k => negb (hook_eqb k HGetattr)) hs.

(* hasattr() of the unsafe variant is answered by user / builtin code the model does not know *)
Definition unknown_has (o : id) (n : str) : bool :=
  match getattr_static H o n, fst (py_getattr H o n) with
  | None, RHook => true
  | None, ROpaque => true
  | _, _ => false
  end.

Definition chk_static (o : id) (n : str) (st : option (id * bool)) : bool :=
  ostatic_eqb (getattr_static H o n) st.
Definition chk_allowed (o : id) (n : str) (safe : bool) (t : bool * bool * bool) (hs : list hook) : bool :=
  let m := is_allowed_getattr H o n safe in
  (if negb safe && unknown_has o n then triple_agree m RHook t else triple_eqb (fst m) t) &&
  (if negb safe && unknown_has o n then hooks_agree (no_getattr (snd m)) (no_getattr hs)
   else hooks_agree (snd m) hs).
Definition chk_pyget (o : id) (n : str) (r : ores) (hs : list hook) : bool :=
  res_agree (fst (py_getattr H o n)) r &&
  match fst (py_getattr H o n) with
  | ROpaque => hooks_agree (snd (py_getattr H o n)) (no_getattr hs)  (* builtin code may raise AttributeError *)
  | _ => hooks_agree (snd (py_getattr H o n)) hs
  end.

Definition chk (c : qcase) : bool :=
  match c with
  | QAttr o n st ts hs with_unsafe tu hu r hp =>
      chk_static o n st && chk_allowed o n true ts hs &&
      (if with_unsafe then chk_allowed o n false tu hu else true) && chk_pyget o n r hp
  | QDir o modelled d => set_eqb (filter (fun x => str_mem x modelled) (py_dir H o)) d
  | QGet o n in_dir obs =>
      forallb (fun v => let '(allow_unsafe, is_instance, names) := v in
                        if allow_unsafe && unknown_has o n then true
                        else cnames_eqb (filter_get_name H o n allow_unsafe is_instance true in_dir) names) obs
  | QValues o d allow_unsafe is_instance obs =>
      named_eqb (filter_values H o d allow_unsafe is_instance (fun _ => true)) obs
  | QItems o got_safe got_unsafe has_iter_attr ret_annot iterated iter_hook truth_hook all_iter =>
      (* accesses: the implementation may do no more than the model predicts *)
      implb got_safe (negb (Nat.eqb (length (compiled_simple_getitem H o false)) 0)) &&
      implb got_unsafe (negb (Nat.eqb (length (compiled_simple_getitem H o true)) 0)) &&
      implb iterated (negb (Nat.eqb (length (iter_list H o has_iter_attr ret_annot)) 0)) &&
      implb iter_hook (user_hook H (type_of H o) s_iter) &&
      implb truth_hook (user_truth_hook H o) &&
      implb all_iter (negb (Nat.eqb (length (getitem_all_values H o)) 0))
  end.
'''


class Names:
    """Interned attribute names: the heap and the cases refer to Gallina constants n_<k>."""

    def __init__(self):
        self.tab = {}

    def g(self, s):
        if s not in self.tab:
            self.tab[s] = 'n_%d' % len(self.tab)
        return self.tab[s]

    def defs(self):
        return '\n'.join('Definition %s : str := %s.' % (v, g_str(k)) for k, v in self.tab.items()) + '\n'


def g_triple(t):
    return '(%s, %s, %s)' % (g_bool(t[0]), g_bool(t[1]), g_bool(t[2]))


def g_hooks(hs):
    return g_list(hs, str, 'hook')


def _classify_result(enc, v):
    i = enc.known(v)
    if i is not None:
        return '(OVal %d)' % i
    if isinstance(v, types.MethodType):
        f, s = enc.known(v.__func__), enc.known(v.__self__)
        if f is not None and s is not None:
            return '(OBound %d %d)' % (f, s)
    return 'OOther'


BASE_NAMES = ['inst1', 'inst2', 's1', 's2', 'tag', 'ra', 'rm', '__get__', '__set__', '__nope__', 'dyn_zz',
              '__dict__', '__class__', '__iter__', '__getitem__', '__call__', '__name__', '__mro__', '__slots__',
              '__weakref__', '__doc__', '__init__', '__new__', '__module__', '__subclasshook__', '__reduce__',
              '__len__', '__bool__', '__next__', '__getattr__', '__getattribute__', '__delete__']


def modelled_name(enc, r, n):
    """Is attribute name n of receiver r within the part of the class dicts the heap carries?"""
    if n == '__annotations__':
        # CPython (3.10+) materialises an empty __annotations__ in a class's __dict__ on the first
        # `cls.__annotations__` read (inspect, dir-driven probes, jedi's own signature code): the class
        # dicts the heap was encoded from change under the run for this one key, in an order the model
        # does not carry.  Not queried (found as a false alarm: model input stale, not jedi wrong).
        return False
    T = r if isinstance(r, type) else type(r)
    chain = list(class_mro(T)) + (list(class_mro(type(r))) if isinstance(r, type) else [])
    for c in chain:
        if not enc.is_full_class(c) and n in class_dict(c) and n not in LEAF_KEYS:
            return False
    return True


def descr_location(b, r, key):
    """Where the descriptor whose hook fired lives, relative to receiver r: 'metaclass', 'class', 'other'."""
    kind, where, owner = key
    if kind == 'prop':
        cname, attr = where.split('.')
        d = class_dict(b.ns[cname]).get(attr)
    else:
        d = None
    T = r if isinstance(r, type) else type(r)
    in_cls = in_meta = False
    for c in class_mro(T):
        for v in class_dict(c).values():
            if (d is not None and v is d) or (d is None and id(v) == owner):
                in_cls = True
    if isinstance(r, type):
        for c in class_mro(type(r)):
            for v in class_dict(c).values():
                if (d is not None and v is d) or (d is None and id(v) == owner):
                    in_meta = True
    return 'metaclass' if in_meta and isinstance(r, type) else ('class' if in_cls else 'other')


def dict_shadowed_plain(r):
    """type(r) shadows __dict__ with something that is not a descriptor: dir() then does not see the
    instance attributes (object.__dir__ reads self.__dict__); py_dir does not model that."""
    from jedi.inference.compiled import getattr_static as GS
    if isinstance(r, type):
        return False
    d = GS._shadowed_dict(type(r))
    return d is not GS._sentinel and type(d) not in (types.MemberDescriptorType, types.GetSetDescriptorType)


def meta_shadowed(r):
    """Does some class on the MRO of r's class have a metaclass that shadows __dict__?"""
    from jedi.inference.compiled import getattr_static as GS
    T = r if isinstance(r, type) else type(r)
    try:
        return any(GS._shadowed_dict(type(c)) is not GS._sentinel for c in class_mro(T))
    except Exception:
        return False


def corr_task(task):
    """Build one graph, run every direct call, return the Gallina cases and the direct findings."""
    graph, route, tmpdir, tag, full_recv = task
    import jedi
    from jedi.inference.compiled.getattr_static import getattr_static
    from jedi.inference.compiled import access as A
    from jedi.inference.compiled import value as V
    out = dict(tag=tag, route=route, cases=[], meta=[], bad=[], n=collections.Counter())
    try:
        b = build(graph, route, tmpdir, tag)
    except Exception as e:
        out['error'] = 'build: %r' % (e,)
        return out
    try:
        enc = Enc(b)
        N = Names()
        enc.names = N
        sn = b.NS.get('sn')
        recv = b.insts + b.classes + b.metas + b.descr + [x for x in [sn, b.R] if x is not None]
        ndescr = 0
        for c in b.classes + b.metas:        # a few descriptor instances as receivers too
            for v in list(class_dict(c).values()):
                if id(type(v)) in b.generated and ndescr < 4 and all(v is not r for r in recv):
                    ndescr += 1
                    recv.append(v)
        for r in recv:
            enc.oid(r)
        for v in b.NS.values():
            enc.oid(v)
        enc.close()
        C = b.C
        cases, meta = out['cases'], out['meta']

        def add(stream, term, m, weight=1):
            cases.append(term)
            meta.append((stream,) + tuple(m) + (weight,))
            out['n'][stream] += weight

        states = {}
        for unsafe in (False, True):
            jedi.settings.allow_unsafe_interpreter_executions = unsafe
            states[unsafe] = jedi.Interpreter('x', [b.NS])._inference_state
        acc_state = states[False]

        def kind(nm):
            if isinstance(nm, V.EmptyCompiledName):
                return 'NEmpty'
            if isinstance(nm, V.CompiledValueName):
                return 'NAnnot'
            w = getattr(nm, '_wrapped_name', nm)
            return '(NReal %s)' % g_bool(bool(w.is_descriptor))

        for ri, r in enumerate(recv):
            user_names = set(ATTR_POOL) | set(BASE_NAMES[ri % 3::3]) | {'__dict__', '__class__', '__nope__'}
            if isinstance(r, type):
                user_names |= {'m' + a for a in ATTR_POOL}
            o = enc.known(r)
            C.clear()
            try:
                d_all = dir(r)
            except Exception:
                d_all = None
            names = set(user_names)
            if d_all is not None:
                inherited = set(dir(type)) if isinstance(r, type) else set(dir(object))
                names |= {n for n in d_all if n not in inherited}
                if ri in full_recv or ri % 7 == 0:
                    names |= set(d_all)
            names = sorted(n for n in names if modelled_name(enc, r, n))
            d = None if d_all is None else [n for n in d_all if modelled_name(enc, r, n)]
            acc = A.DirectObjectAccess(acc_state, r)
            if d is not None and not dict_shadowed_plain(r):
                add('dir', '(QDir %d %s %s)' % (o, g_list(sorted(set(names) | set(d)), N.g, 'str'),
                                                g_list(d, N.g, 'str')), (o, None))
            has_user_getattribute = any(
                isinstance(class_dict(c).get('__getattribute__'), types.FunctionType) for c in class_mro(type(r)))
            # one filter per (mode, is_instance)
            filters = {}
            for unsafe in (False, True):
                try:
                    val = V.create_from_access_path(states[unsafe], A.create_access_path(states[unsafe], r))
                except Exception as e:
                    out['n']['create_value_exc:' + type(e).__name__] += 1
                    continue
                for is_inst in (False, True):
                    filters[(unsafe, is_inst)] = V.CompiledValueFilter(states[unsafe], val, is_inst)
            for ni, n in enumerate(names):
                # ---- getattr_static
                C.clear()
                try:
                    a, isget = getattr_static(r, n)
                    st = (enc.known(a), isget)
                    if st[0] is None:
                        st = (9999, isget)
                except AttributeError:
                    a, st = None, None
                except Exception as e:
                    out['bad'].append(dict(stream='static', cls='raised', what='getattr_static raised %r' % (e,),
                                           recv=o, name=n))
                    continue
                if sum(C.values()):
                    out['bad'].append(dict(stream='static', cls='static-ran-hook', recv=o, name=n,
                                           what='getattr_static itself ran user hooks',
                                           hooks=sorted(k[:2] for k in C)))
                # ---- is_allowed_getattr
                verdict, obs_allowed = None, {}
                with_unsafe = ni % 2 == 0
                for safe in ((True, False) if with_unsafe else (True,)):
                    C.clear()
                    try:
                        has, isd, ann = acc.is_allowed_getattr(n, safe=safe)
                        if safe:
                            verdict = (has, isd)
                    except Exception as e:
                        out['bad'].append(dict(stream='allowed', cls='raised', recv=o, name=n,
                                               what='is_allowed_getattr raised %r' % (e,)))
                        break
                    delta = +C
                    if safe and any(k[0] in EIGHT for k in delta):
                        out['bad'].append(dict(stream='allowed', cls='safe-allowed-ran-hook', recv=o, name=n,
                                               what='is_allowed_getattr(safe=True) ran user hooks',
                                               hooks=sorted(k[:2] for k in delta)))
                    obs_allowed[safe] = (g_triple((has, isd, ann is not None)), g_hooks(observed_hooks(b, enc, delta)))
                if True not in obs_allowed or (with_unsafe and False not in obs_allowed):
                    continue
                # ---- what Python does
                C.clear()
                try:
                    v = getattr(r, n)
                    rs = _classify_result(enc, v)
                except AttributeError:
                    rs = 'OAttrError'
                except Exception:
                    rs = 'OOther'
                delta = +C
                tu, hu = obs_allowed.get(False, ('(false, false, false)', g_hooks([])))
                add('attr', '(QAttr %d %s %s %s %s %s %s %s %s %s)' % (
                    o, N.g(n), g_opt(st, lambda s: '(%d, %s)' % (s[0], g_bool(s[1]))),
                    obs_allowed[True][0], obs_allowed[True][1], g_bool(with_unsafe), tu, hu,
                    rs, g_hooks(observed_hooks(b, enc, delta))), (o, n), weight=4 if with_unsafe else 3)
                # ground truth for theorems static_no_descriptor_run / safe_filter_runs_no_descriptor, directly
                # on the implementation: the safe-mode verdict is "real name, not a descriptor" (so the name is
                # looked up with getattr when inferred) although getattr runs a Python-level __get__ / getter
                if verdict == (True, False) and not has_user_getattribute:
                    fired = [k for k in delta if k[0] in ('prop', 'get')]
                    if fired:
                        loc = descr_location(b, r, fired[0])
                        if meta_shadowed(r):
                            loc = 'meta-shadow'
                        out['bad'].append(dict(
                            stream='static', cls='safe-name-but-getattr-runs-descriptor', where=loc, recv=o, name=n,
                            what='is_allowed_getattr(safe) on (%s, %r) answers "plain name" but getattr runs %s'
                                 % (_describe(b, r), n, sorted(k[:2] for k in fired))))
                # ---- the filter's get(name), all four (mode, is_instance) variants
                if ni % 2 == 0:
                    variants = []
                    for (unsafe, is_inst), flt in sorted(filters.items()):
                        C.clear()
                        try:
                            got = [kind(x) for x in flt.get(n)]
                        except Exception as e:
                            out['n']['filter_get_exc:' + type(e).__name__] += 1
                            continue
                        delta = +C
                        if not unsafe and any(k[0] in EIGHT for k in delta):
                            out['bad'].append(dict(stream='filter', cls='safe-filter-get-ran-hook', recv=o, name=n,
                                                   what='CompiledValueFilter.get in safe mode ran user hooks',
                                                   hooks=sorted(k[:2] for k in delta)))
                        variants.append('(%s, %s, %s)' % (g_bool(unsafe), g_bool(is_inst), g_list(got, str, 'cname')))
                    if variants:
                        add('get', '(QGet %d %s %s %s)' % (o, N.g(n), g_bool(d_all is not None and n in d_all),
                                                          g_list(variants, str, 'bool * bool * list cname')),
                            (o, n), weight=len(variants))
            # ---- the filter's values()
            for (unsafe, is_inst), flt in sorted(filters.items()):
                if d is None:
                    continue
                C.clear()
                try:
                    vals = flt.values()
                except Exception as e:
                    out['n']['filter_values_exc:' + type(e).__name__] += 1
                    continue
                delta = +C
                if any(k[0] in EIGHT for k in delta):
                    out['bad'].append(dict(stream='filter', cls='filter-values-ran-hook', recv=o, unsafe=unsafe,
                                           what='CompiledValueFilter.values ran user hooks',
                                           hooks=sorted(k[:2] for k in delta)))
                missing = sorted(set(d_all) - {x.string_name for x in vals})
                if missing:
                    out['bad'].append(dict(stream='filter', cls='values-miss-dir', recv=o, unsafe=unsafe,
                                           what='names of dir(obj) missing from CompiledValueFilter.values(): %r'
                                                % (missing[:10],)))
                dset = set(d)
                obs = [(x.string_name, kind(x)) for x in vals[:len(d_all)] if x.string_name in dset]
                add('values', '(QValues %d %s %s %s %s)' % (
                    o, g_list(d, N.g, 'str'), g_bool(unsafe), g_bool(is_inst),
                    g_list(obs, lambda t: '(%s, %s)' % (N.g(t[0]), t[1]), 'str * cname')), (o, None))
            # ---- item access / iteration / truth value on the access object
            _items_case(b, enc, acc, r, o, add, out, A)
        for v in list(b.NS.values()):       # builtin containers
            if type(v) in (list, tuple, dict):
                _items_case(b, enc, A.DirectObjectAccess(acc_state, v), v, enc.known(v), add, out, A)
        out['defs'] = HOOKS_DEFS + N.defs() + '\nDefinition H : heap :=\n' + enc.gallina() + '.\n' + CHK
        out['heap_size'] = len(enc.objs)
        out['recv_desc'] = {enc.known(r): _describe(b, r) for r in recv}
    except Exception:
        out['error'] = traceback.format_exc()[-2500:]
    finally:
        unbuild(b)
    return out


def _items_case(b, enc, acc, r, o, add, out, A):
    C = b.C
    got = {}
    idx = 'k' if isinstance(r, dict) else 0
    for safe in (True, False):
        C.clear()
        try:
            got[safe] = acc.py__simple_getitem__(idx, safe=safe) is not None
        except Exception:
            got[safe] = True
        if safe and any(k[0] in EIGHT for k in C):
            out['bad'].append(dict(stream='items', cls='safe-getitem-ran-hook', recv=o,
                                   what='py__simple_getitem__(safe=True) ran user hooks on %s' % _describe(b, r),
                                   hooks=sorted(k[:2] for k in C)))
    C.clear()
    try:
        it = acc.py__iter__list()
    except Exception:
        it = 'exc'
    if any(k[0] in ('iter', 'next', 'getitem', 'len') for k in C):
        out['bad'].append(dict(stream='items', cls='iter-list-ran-hook', recv=o,
                               what='py__iter__list ran user hooks on %s' % _describe(b, r),
                               hooks=sorted(k[:2] for k in C)))
    iterated = isinstance(it, list) and len(it) > 0
    if iterated and type(r) not in (str, list, tuple, bytes, bytearray, dict):
        out['bad'].append(dict(stream='items', cls='iterated-non-builtin', recv=o,
                               what='py__iter__list iterated over %s whose exact type is not a builtin container'
                                    % _describe(b, r)))
    C.clear()
    try:
        allv = acc.py__getitem__all_values()
    except Exception:
        allv = 'exc'
    all_iter = any(k[0] in ('iter', 'next') for k in C) or (
        isinstance(allv, list) and isinstance(r, (list, tuple, dict)) and len(allv) > 0)
    C.clear()
    try:
        acc.has_iter()
    except Exception:
        pass
    iter_hook = any(k[0] == 'iter' for k in C)
    C.clear()
    try:
        acc.py__bool__()
    except Exception:
        pass
    truth_hook = any(k[0] in ('bool', 'len') for k in C)
    C.clear()
    add('items', '(QItems %d %s %s %s false %s %s %s %s)' % (
        o, g_bool(got[True]), g_bool(got[False]), g_bool(it is not None), g_bool(iterated),
        g_bool(iter_hook), g_bool(truth_hook), g_bool(all_iter)), (o, None))


def _describe(b, r):
    for k, v in b.ns.items():
        if v is r and not k.startswith('_'):
            return k
    return '%s instance' % type(r).__name__


def coq_eval_graph(res):
    """All cases of one graph against the model; returns failing indices, error."""
    return common.coq_failing(IMPORTS, 'chk', res['cases'], shard=100000, defs=res['defs'], timeout=2400)


# ======================================================================================
# API stream: every Interpreter query on every expression form, safe and unsafe
# ======================================================================================
_MISSING = object()
ITER_FORMS = ('for', 'unpack', 'comp')
BOOL_FORMS = ('or', 'and', 'not', 'ternary')
CONTAINERS = (list, tuple, dict, set, frozenset)


def lookup_chain(T, name):
    for c in class_mro(T):
        d = class_dict(c)
        if name in d:
            return d[name]
    return _MISSING


def _has_get(v):
    return lookup_chain(type(v), '__get__') is not _MISSING


def _is_data(v):
    return lookup_chain(type(v), '__set__') is not _MISSING or lookup_chain(type(v), '__delete__') is not _MISSING


def plain_attr(obj, name):
    """(True, value) when Python's getattr(obj, name) hands back a stored object without running a
    descriptor: instance-dict entries not shadowed by a data descriptor, class-dict values without __get__."""
    T = type(obj)
    if isinstance(obj, type):
        m = lookup_chain(T, name)
        if m is not _MISSING and _has_get(m):
            return False, None
        a = lookup_chain(obj, name)
        if a is not _MISSING:
            return (not _has_get(a)), a
        if m is not _MISSING:
            return True, m
        return False, None
    d = lookup_chain(T, name)
    if d is not _MISSING and _has_get(d) and _is_data(d):
        return False, None
    idict = real_idict(obj)
    if idict is not None and name in idict:
        return True, idict[name]
    if d is not _MISSING:
        return (not _has_get(d)), d
    return False, None


def attr_candidates(b, obj):
    names = []
    idict = real_idict(obj)
    if idict:
        names += [k for k in idict if isinstance(k, str)]
    T = obj if isinstance(obj, type) else type(obj)
    chain = list(class_mro(T)) + (list(class_mro(type(obj))) if isinstance(obj, type) else [])
    for c in chain:
        if id(c) in b.generated:
            names += [k for k in class_dict(c) if not k.startswith('__')]
    seen, out = set(), []
    for n in names:
        if n not in seen and n.isidentifier():
            seen.add(n)
            out.append(n)
    return out


def is_user_target(b, obj):
    T = obj if isinstance(obj, type) else type(obj)
    return id(T) in b.generated and T is not _RCls


def enumerate_paths(b, rng, limit):
    """Expressions reaching the objects: root names, then attribute / item steps (depth <= 3)."""
    paths, seen = [], set()
    frontier = [dict(expr=k, target=v, plain=True, depth=0, attrs=[]) for k, v in sorted(b.NS.items())]
    while frontier:
        nxt = []
        for p in frontier:
            if p['expr'] in seen:
                continue
            seen.add(p['expr'])
            paths.append(p)
            if not p['plain'] or p['depth'] >= 3:
                continue
            obj = p['target']
            kids = []
            if type(obj) in (list, tuple):
                for i in range(min(len(obj), 2)):
                    kids.append(dict(expr='%s[%d]' % (p['expr'], i), target=obj[i], plain=True, attrs=p['attrs']))
            elif type(obj) is dict:
                for k in list(obj)[:3]:
                    if type(k) in (str, int):
                        kids.append(dict(expr='%s[%r]' % (p['expr'], k), target=obj[k], plain=True, attrs=p['attrs']))
            elif is_user_target(b, obj) or type(obj) in (types.SimpleNamespace, _RCls):
                for n in attr_candidates(b, obj):
                    ok, v = plain_attr(obj, n)
                    kids.append(dict(expr='%s.%s' % (p['expr'], n), target=v if ok else None, plain=ok,
                                     attrs=p['attrs'] + [n], recv=obj, name=n))
            for k in kids:
                k['depth'] = p['depth'] + 1
            nxt += kids
        rng.shuffle(nxt)
        # keep every descriptor step, sample the plain ones
        nonplain = [k for k in nxt if not k['plain']]
        plain = [k for k in nxt if k['plain']]
        room = max(0, limit - len(paths))
        frontier = nonplain[:room * 2 // 3] + plain[:max(room // 3, room - len(nonplain))]
        if len(paths) >= limit:
            break
    return paths[:limit]


def forms_for(b, p):
    """(form, method, code) triples for one path."""
    E = p['expr']
    t = p['target']
    q = []
    container = p['plain'] and type(t) in CONTAINERS
    if not container:
        q.append(('dot', 'complete', E + '.'))
    for m in ('infer', 'goto', 'help', 'get_references'):
        q.append(('name', m, E))
    q.append(('sig', 'get_signatures', E + '('))
    if p['plain'] and is_user_target(b, t):
        q += [('item', 'complete', E + '[0].'), ('item', 'infer', E + '[0]'),
              ('call', 'complete', E + '().'), ('call', 'infer', E + '()'),
              ('for', 'complete', 'for x in %s:\n    x.' % E), ('for', 'infer', 'for x in %s:\n    x' % E),
              ('unpack', 'infer', 'x, y = %s\nx' % E), ('comp', 'infer', '[y for y in %s][0]' % E),
              ('or', 'infer', 'x = %s or 1\nx' % E), ('and', 'infer', 'x = %s and 1\nx' % E),
              ('not', 'infer', 'x = not %s\nx' % E), ('ternary', 'infer', "x = 1 if %s else 's'\nx" % E),
              ('len', 'infer', 'len(%s)' % E), ('assign', 'complete', 'x = %s\nx.' % E),
              ('in', 'infer', 'x = 1 in %s\nx' % E)]
    return q


def expected_infer(obj):
    if isinstance(obj, type):
        return obj.__name__, 'class'      # (a class with a custom metaclass may also be named after it, see run)
    if isinstance(obj, types.FunctionType):
        return obj.__name__, 'function'
    return type(obj).__name__, 'instance'


def _fn_instance_attr(p, route):
    """The path ends in an instance-dict attribute holding a function, on an instance of a class
    that has a source file (MixedName.infer then takes what static analysis finds under that name)."""
    if not isinstance(p['target'], types.FunctionType) or route != 'file' or p.get('recv') is None:
        return False
    r = p['recv']
    d = real_idict(r)
    return not isinstance(r, type) and d is not None and p.get('name') in d


def getdoc_explains(b, recv_obj, n, key):
    """The first hit for n along the receiver's MRO is a doc-less function / property / slot and
    getattr(base, n) on a class of that MRO runs exactly the hook `key` (what inspect._finddoc does:
    a same-named user descriptor in a base class, or a metaclass data descriptor of that name)."""
    T = recv_obj if isinstance(recv_obj, type) else type(recv_obj)
    mro = list(class_mro(T))
    for i, c in enumerate(mro):
        if n not in class_dict(c):
            continue
        v = class_dict(c)[n]
        f = v.fget if isinstance(v, property) else getattr(v, '__func__', v)
        if type(f) not in (types.FunctionType, types.MemberDescriptorType, types.GetSetDescriptorType) \
                or f.__doc__ is not None:
            return False
        hit = False
        for base in mro:       # inspect._finddoc: `for base in cls.__mro__: getattr(base, name)`
            b.C.clear()
            try:
                getattr(base, n)
            except Exception:
                pass
            hit = hit or key in b.C
            b.C.clear()
        return hit
    return False


def explain_hooks(b, graph, p, form, delta, names_ctx, d1, attr_hits):
    """Classify the hooks of the eight kinds that fired in a safe-mode query.  Returns list of (cls, key)."""
    from jedi.inference.compiled import access as A
    out = []
    target = p['target']
    kinds = {k[0] for k in delta}
    for key, cnt in delta.items():
        kind, where, owner = key
        if kind not in EIGHT:
            continue
        cls = 'unexplained-hook'
        if kind in ('prop', 'get'):
            # a descriptor that lives in a metaclass dict, reached as Class.name, for which the static
            # lookup answers is_get_descriptor=False
            for M in b.metas:
                for n, v in class_dict(M).items():
                    hit = (kind == 'prop' and where == '%s.%s' % (M.__name__, n)) or (kind == 'get' and id(v) == owner)
                    if not hit or n not in names_ctx:
                        continue
                    for c in b.classes + b.metas:
                        if M in class_mro(type(c)):
                            # the safe-mode verdict for (c, n) is "a real, non-descriptor name"
                            if A.DirectObjectAccess(None, c).is_allowed_getattr(n, safe=True)[:2] == (True, False):
                                cls = 'metaclass-descriptor-run'
        elif kind == 'iter':
            if form in ITER_FORMS and target is not None and owner == id(target) and 'next' not in kinds \
                    and 'getitem' not in kinds and cnt == 1:
                cls = 'iter-probe'
            elif form == 'item' and target is not None and owner == id(target) and cnt == 1 \
                    and isinstance(target, (list, tuple)) and type(target) not in (list, tuple):
                cls = 'getitem-all-values-iterates-subclass'
        elif kind == 'next':
            if form == 'item' and target is not None and owner == id(target) \
                    and isinstance(target, (list, tuple)) and type(target) not in (list, tuple):
                cls = 'getitem-all-values-iterates-subclass'
        elif kind in ('bool', 'len'):
            if form in BOOL_FORMS and target is not None and owner == id(target) and cnt == 1:
                cls = 'truth-probe'
        if cls == 'unexplained-hook' and kind in ('prop', 'get'):
            # inspect.getdoc() of a doc-less function / property / slot walks the MRO with getattr(base, name)
            if key in d1:
                recv_obj, n = p.get('recv'), p.get('name')
            else:
                recv_obj, n = target, attr_hits.get(key, (None, None))[0]
                if attr_hits.get(key, (None, ''))[1] not in ('docstring', 'get_signatures', 'description', 'type'):
                    n = None
            if recv_obj is not None and n is not None and getdoc_explains(b, recv_obj, n, key):
                cls = 'getdoc-walks-bases'
        out.append((cls, key, cnt))
    return out


def api_task(task):
    graph, route, tmpdir, tag, seed, npaths = task
    import random
    import jedi
    rng = random.Random(seed)
    out = dict(tag=tag, route=route, dev=[], n=collections.Counter(), exc=collections.Counter(), samples=[],
               unsafe_hits=collections.Counter(), keys=[])
    try:
        b = build(graph, route, tmpdir, tag)
    except Exception as e:
        out['error'] = 'build: %r' % (e,)
        return out
    try:
        C = b.C
        paths = enumerate_paths(b, rng, npaths)
        out['n']['paths'] = len(paths)
        out['n']['paths_nonplain'] = sum(1 for p in paths if not p['plain'])
        work = []
        for p in paths:
            for (form, meth, code) in forms_for(b, p):
                work.append((p, form, meth, code))
        glob = dict(expr='', target=None, plain=False, attrs=[])
        first = sorted(b.NS)[0]
        work += [(glob, 'global', 'complete', ''), (glob, 'global', 'complete', 'o'), (glob, 'global', 'get_names', ''),
                 (glob, 'global', 'get_context', 'x = 1'), (glob, 'global', 'search', first),
                 (glob, 'global', 'complete_search', 'o'), (glob, 'global', 'get_syntax_errors', 'x = ')]
        for (p, form, meth, code) in work:
            for safe in (True, False):
                jedi.settings.allow_unsafe_interpreter_executions = not safe
                C.clear()
                res, err = None, None
                try:
                    s = jedi.Interpreter(code, [b.NS])
                    if meth == 'get_names':
                        res = s.get_names(all_scopes=True, references=True)
                    elif meth in ('search', 'complete_search'):
                        res = list(getattr(s, meth)(code))
                    else:
                        res = getattr(s, meth)()
                except Exception as e:
                    err = common.exc_sig(e)
                    out['exc']['%s %s' % (err['exc'], err['site'])] += 1
                d1 = +C
                names = None
                attr_hits = {}
                names_ctx = list(p['attrs'])
                if err is None and meth == 'complete':
                    names = [c.name for c in res]
                    names_ctx += names
                    if form in ('dot', 'assign') and p['plain'] and is_user_target(b, p['target']):
                        for c in res:
                            if c.name.startswith('__'):
                                continue
                            for acc_name, fn in (('type', lambda: c.type), ('description', lambda: c.description),
                                                 ('docstring', c.docstring), ('get_signatures', c.get_signatures),
                                                 ('infer', c.infer)):
                                before = +C
                                try:
                                    fn()
                                except Exception as e:
                                    e2 = common.exc_sig(e)
                                    out['exc']['attrs: %s %s' % (e2['exc'], e2['site'])] += 1
                                for k, v in (+C).items():
                                    if v > before.get(k, 0) and k[0] in EIGHT:
                                        attr_hits.setdefault(k, (c.name, acc_name))
                inferred = None
                if err is None and meth == 'infer':
                    try:
                        inferred = sorted((d.name, d.type) for d in res)
                    except Exception as e:
                        e2 = common.exc_sig(e)
                        out['exc']['attrs: %s %s' % (e2['exc'], e2['site'])] += 1
                delta = +C
                C.clear()
                out['n']['queries'] += 1
                out['n']['queries_' + ('safe' if safe else 'unsafe')] += 1
                out['keys'].append((code, meth, safe))
                rec = dict(code=code, method=meth, form=form, safe=safe, route=route, tag=tag,
                           error=None if err is None else '%s %s' % (err['exc'], err['site']))
                eight = {k: v for k, v in delta.items() if k[0] in EIGHT}
                if not safe:
                    for k in eight:
                        out['unsafe_hits'][k[0]] += 1
                # ---- clause 1: safe mode runs none of the eight hooks
                if safe and eight:
                    for cls, key, cnt in explain_hooks(b, graph, p, form, eight, names_ctx, d1, attr_hits):
                        out['dev'].append(dict(sig=dict(stream='api', cls=cls, hook=key[0]),
                                               data=dict(rec, hook=list(key[:2]), count=cnt,
                                                         during='query' if key in d1 else
                                                         'Completion(%r).%s' % attr_hits.get(key, ('?', '?'))),
                                               what='safe mode: %s.%s on %r ran user hook %s of %s' % (
                                                   'Interpreter', meth, code, key[0], key[1])))
                # ---- clause 2: names after `obj.` include dir(obj)
                if names is not None and form in ('dot', 'assign') and p['plain']:
                    try:
                        truth = [n for n in dir(p['target'])]
                    except Exception:
                        truth = []
                    C.clear()
                    missing = sorted(set(truth) - set(names))
                    out['n']['dir_checks'] += 1
                    cls2 = 'dir-missing'
                    if _fn_instance_attr(p, route) and not names:
                        cls2 = 'mixed-function-attr-from-tree'
                    if missing:
                        out['dev'].append(dict(sig=dict(stream='api', cls=cls2),
                                               data=dict(rec, missing=missing[:12], n_dir=len(truth), n_offered=len(names),
                                                         target=repr(type(p['target']))),
                                               what='names %r of dir(%s) are not offered after %r' % (
                                                   missing[:6], p['expr'], code)))
                # ---- clause 3: infer on a plain path reports the class of the stored object
                if inferred is not None and form == 'name' and p['plain']:
                    exp = expected_infer(p['target'])
                    out['n']['infer_checks'] += 1
                    ok = inferred == [exp]
                    if isinstance(p['target'], type) and inferred == [(type(p['target']).__name__, 'class')]:
                        ok = True     # jedi names a class that has a custom metaclass after the metaclass
                        out['n']['infer_class_named_after_metaclass'] += 1
                    cls3 = 'infer-wrong-class'
                    if type(p['target']) is types.SimpleNamespace and len(inferred) == 1 \
                            and inferred[0][0].startswith('<types.SimpleNamespace object at'):
                        cls3 = 'namespace-name-is-repr'
                    if _fn_instance_attr(p, route):
                        cls3 = 'mixed-function-attr-from-tree'
                    if not ok:
                        out['dev'].append(dict(sig=dict(stream='api', cls=cls3),
                                               data=dict(rec, expected=list(exp), inferred=inferred),
                                               what='infer on plain path %r reports %r, stored object is %r' % (
                                                   code, inferred, exp)))
                if len(out['samples']) < 2 and meth == 'infer' and p['plain'] and '.' in code and safe:
                    out['samples'].append(dict(rec, inferred=inferred))
    except Exception:
        out['error'] = traceback.format_exc()[-2500:]
    finally:
        jedi.settings.allow_unsafe_interpreter_executions = True
        unbuild(b)
    return out


# ======================================================================================
# driver
# ======================================================================================
def _graph_for_json(g):
    return dict(src=g['src'], classes=g['classes'], metas=g['metas'], descr=g['descr'], insts=g['insts'],
                exotic=g['exotic'], idx=g['idx'], infos=g['infos'])


def stream_correspondence(ctx, tmpdir, intensify):
    n = ctx.n(12, 70)
    if intensify:
        n = max(n, 20)
    tasks, graphs = [], []
    for i in range(n):
        exotic = i % 3 == 2
        g = gen_valid_graph(ctx.rng, exotic=exotic, idx=i)
        route = 'file' if i % 2 else 'exec'
        full = {ctx.rng.randrange(0, 6), 6 + ctx.rng.randrange(0, 6)}
        graphs.append(g)
        tasks.append((g, route, tmpdir, 'c%d_%d' % (ctx.seed % 100000, i), full))
    t0 = time.time()
    results = common.pmap(corr_task, tasks, chunksize=1)
    ctx.stat('wall_corr_python', round(time.time() - t0, 1))
    t0 = time.time()
    from concurrent.futures import ThreadPoolExecutor
    with ThreadPoolExecutor(max_workers=common.NPROC) as ex:
        evals = list(ex.map(lambda r: coq_eval_graph(r) if r.get('cases') and 'defs' in r else ([], None), results))
    ctx.stat('wall_corr_coq', round(time.time() - t0, 1))
    heap_sizes, per_stream = [], collections.Counter()
    nviol = 0
    for g, task, res, (fails, err) in zip(graphs, tasks, results, evals):
        if res.get('error'):
            raise RuntimeError('correspondence worker failed on graph %s: %s' % (res['tag'], res['error']))
        if err:
            raise RuntimeError('coq evaluation failed (graph %s): %s' % (res['tag'], err))
        heap_sizes.append(res['heap_size'])
        for k, v in res['n'].items():
            per_stream[k] += v
        for term, m in zip(res['cases'], res['meta']):
            ctx.count(m[0], (res['tag'],) + tuple(m[:3]),
                      nontrivial=(' None ' not in term[:60]) if m[0] == 'attr' else True, n=m[-1])
        flagged = set()
        for bad in res['bad']:
            sig = dict(stream=bad['stream'], cls=bad['cls'])
            if 'where' in bad:
                sig['where'] = bad['where']
            flagged.add((bad.get('recv'), bad.get('name')))
            data = {k: v for k, v in bad.items() if k not in ('what', 'stream', 'cls')}
            ctx.deviation(sig, dict(graph=_graph_for_json(g), route=res['route'], tag=res['tag'],
                                    receiver=res['recv_desc'].get(bad.get('recv')), full=sorted(task[4]), **data),
                          bad['what'])
        for i in fails:
            m = res['meta'][i]
            if m[2] is not None and (m[1], m[2]) in flagged:
                continue      # the property-level failure on this input is already reported
            nviol += 1
            if nviol > 8:
                ctx.violations.append(None)
                continue
            ctx.violation('obligation', dict(
                what='correspondence %s: model and implementation differ on a live object graph' % m[0],
                stream=m[0], case=res['cases'][i][:600], query=list(m[:3]), receiver=res['recv_desc'].get(m[1]),
                graph=_graph_for_json(g), route=res['route'], tag=res['tag'], full=sorted(task[4])), nofail=True)
    ctx.stat('corr_graphs', n)
    ctx.stat('corr_heap_objects', dict(min=min(heap_sizes), max=max(heap_sizes)))
    ctx.stat('corr_cases_by_stream', dict(per_stream))
    if results:
        r0 = results[0]
        ctx.sample(dict(stream='static', graph_classes=graphs[0]['classes'], heap_objects=r0['heap_size'],
                        first_cases=[(m, c[:120]) for m, c in list(zip(r0['meta'], r0['cases']))[:3]]))


def stream_api(ctx, tmpdir):
    n = ctx.n(24, 150)
    tasks, graphs = [], []
    for i in range(n):
        g = gen_valid_graph(ctx.rng, exotic=False, idx=i)
        graphs.append(g)
        tasks.append((g, 'file' if i % 2 else 'exec', tmpdir, 'a%d_%d' % (ctx.seed % 100000, i),
                      ctx.rng.randrange(1 << 30), ctx.n(40, 60)))
    t0 = time.time()
    results = common.pmap(api_task, tasks, chunksize=1)
    ctx.stat('wall_api', round(time.time() - t0, 1))
    tot, exc, hits = collections.Counter(), collections.Counter(), collections.Counter()
    for g, res in zip(graphs, results):
        if res.get('error'):
            raise RuntimeError('api worker failed on graph %s: %s' % (res['tag'], res['error']))
        tot.update(res['n'])
        exc.update(res['exc'])
        hits.update(res['unsafe_hits'])
        for k in res['keys']:
            ctx.count('api', (res['tag'],) + tuple(k))
        for d in res['dev']:
            ctx.deviation(d['sig'], dict(graph=_graph_for_json(g), **d['data']), d['what'])
        for s in res['samples'][:1]:
            ctx.sample(dict(stream='api', **s))
    ctx.stat('api_graphs', n)
    ctx.stat('api_counts', dict(tot))
    ctx.stat('api_exceptions_by_site (belong to C01; not judged here)', dict(exc.most_common(12)))
    ctx.stat('api_unsafe_mode_hook_runs', dict(hits))
    nq = tot['queries'] or 1
    if sum(exc.values()) > 0.5 * nq:
        ctx.violation('obligation', dict(what='api stream degenerate: more than half of the queries raised',
                                         exceptions=dict(exc.most_common(5))), nofail=True)
    if not (hits['prop'] and hits['get'] and hits['getitem']):
        ctx.violation('obligation', dict(what='api stream degenerate: unsafe mode never ran a property / __get__ / '
                                              '__getitem__ hook, the counters are not wired', hits=dict(hits)),
                      nofail=True)
    if tot['dir_checks'] < 10 * n or tot['infer_checks'] < 10 * n:
        ctx.violation('obligation', dict(what='api stream degenerate: too few dir / infer checks', counts=dict(tot)),
                      nofail=True)


BASELINE_FP = {
    'jedi/api/__init__.py:Interpreter.__init__': 'fd73be0e136380b8',
    'jedi/inference/compiled/access.py:DirectObjectAccess.get_dir_infos': '62e386e96577da0f',
    'jedi/inference/compiled/access.py:DirectObjectAccess.has_iter': 'd57cacec9ae0f07f',
    'jedi/inference/compiled/access.py:DirectObjectAccess.is_allowed_getattr': 'b971e3bdd16da3da',
    'jedi/inference/compiled/access.py:DirectObjectAccess.py__bool__': 'f5c4d6fbb9b63a92',
    'jedi/inference/compiled/access.py:DirectObjectAccess.py__iter__list': '38e99323f40b7c80',
    'jedi/inference/compiled/access.py:DirectObjectAccess.py__simple_getitem__': '010efeb666614ce8',
    'jedi/inference/compiled/getattr_static.py:_check_class': '6f7bd7181f3a3718',
    'jedi/inference/compiled/getattr_static.py:_check_instance': '508c90b17efb419b',
    'jedi/inference/compiled/getattr_static.py:_safe_is_data_descriptor': 'f50abc98ae1843e3',
    'jedi/inference/compiled/getattr_static.py:_shadowed_dict': 'c8c55a4df7c5daf3',
    'jedi/inference/compiled/getattr_static.py:getattr_static': '45dd285f0775a33c',
    'jedi/inference/compiled/mixed.py:MixedObject.py__simple_getitem__': '91dcf708fdd1bca7',
    'jedi/inference/compiled/value.py:CompiledValue.py__iter__': '94fe791f218e9bc0',
    'jedi/inference/compiled/value.py:CompiledValue.py__simple_getitem__': 'f8ffaf953664619c',
    'jedi/inference/compiled/value.py:CompiledValueFilter._get': 'bef39e9cc59c498b',
    'jedi/inference/compiled/value.py:CompiledValueFilter.get': 'cdf9d18f8e34168b',
    'jedi/inference/compiled/value.py:CompiledValueFilter.values': 'a503255e6d62dfbe',
}


def run(ctx):
    common.setup_jedi(os.path.join(ctx.tmp, 'cache'))
    ctx.proofs()
    fp = common.fingerprint(FP)
    ctx.cov['fingerprints'] = fp
    changed = sorted(k for k, v in fp.items() if BASELINE_FP.get(k) not in (None, v))
    ctx.cov['intensified'] = changed
    ctx.cov['rule'] = (
        'seeded object graphs (descriptor classes, metaclasses, 3-6 classes with inheritance / slots / builtin-container '
        'bases / type()-created classes / __getattr__ / __getattribute__ / the six protocols, instances, nested '
        'containers and a SimpleNamespace), built as live objects from a file (source-backed, MixedObject route) or by '
        'exec (source-less, compiled route); every third correspondence graph is "exotic" (class or metaclass '
        'shadowing __dict__). static/allowed/pyget: receiver x name; filter: receiver x name x mode x is_instance; '
        'api: path x expression form x query method x {safe, unsafe}. distinct by (graph, receiver, name, mode) / '
        '(graph, code, method, mode); static is non-trivial when the attribute exists')
    ctx.assumptions += [
        'the heap handed to the model is a reflection of the live objects (types, MROs, class dicts, instance dicts, '
        'slots) read through type.__dict__ descriptors; class dicts of builtin leaf types are cut down to the '
        'descriptor-relevant keys and only names inside the carried part are queried',
        'execute_annotation of a property return annotation yields values (annot_values = true)',
        'ROpaque / RHook results (builtin code / user hooks) are not compared in value',
        'access sets (getitem / iterate / iter() / bool()) are compared one-sidedly: the implementation may do no '
        'more than the model predicts',
        'exceptions raised by queries (K1-K4 and others) are tallied by call site and left to C01',
    ]
    mods = os.path.join(ctx.tmp, 'mods')
    os.makedirs(mods, exist_ok=True)
    for f in (stream_correspondence, stream_api):
        if os.environ.get('C13_DEV_ONLY') and os.environ['C13_DEV_ONLY'] not in f.__name__:
            continue      # development aid only; the evidence then shows a single stream
        t = time.time()
        if f is stream_correspondence:
            f(ctx, mods, bool(changed))
        else:
            f(ctx, mods)
        ctx.stat('wall_' + f.__name__, round(time.time() - t, 1))


def replay(ctx, path):
    if not os.path.exists(path) and os.path.exists(os.path.join(common.VERIF, path)):
        path = os.path.join(common.VERIF, path)      # main.py has changed directory
    rec = json.load(open(path))
    show = {k: v for k, v in rec.items() if k != 'graph'}
    print(json.dumps(show, indent=1, ensure_ascii=False, default=repr)[:3000])
    jedi = common.setup_jedi(os.path.join(ctx.tmp, 'cache'))
    g = rec.get('graph')
    if not g:
        return 0
    mods = os.path.join(ctx.tmp, 'mods')
    os.makedirs(mods, exist_ok=True)
    route = rec.get('route', 'exec')
    if 'code' in rec and 'method' in rec:
        b = build(g, route, mods, rec.get('tag', 'replay'))
        try:
            for safe in (True, False):
                jedi.settings.allow_unsafe_interpreter_executions = not safe
                b.C.clear()
                try:
                    s = jedi.Interpreter(rec['code'], [b.NS])
                    if rec['method'] == 'get_names':
                        r = s.get_names(all_scopes=True, references=True)
                    elif rec['method'] in ('search', 'complete_search'):
                        r = list(getattr(s, rec['method'])(rec['code']))
                    else:
                        r = getattr(s, rec['method'])()
                    if rec['method'] == 'complete':
                        for c in r:
                            if not c.name.startswith('__'):
                                c.type, c.docstring(), c.get_signatures(), c.infer()
                    out = [(x.name, getattr(x, 'type', None)) for x in r][:40] if isinstance(r, list) else r
                except Exception as e:
                    out = 'raised %r' % (e,)
                print('implementation now, %s mode: %s.%s -> %s' % ('safe' if safe else 'unsafe', 'Interpreter',
                                                                    rec['method'], out))
                print('   hooks run:', sorted((k[0], k[1], n) for k, n in b.C.items()))
        finally:
            jedi.settings.allow_unsafe_interpreter_executions = True
            unbuild(b)
        return 0
    # a correspondence case: re-run the whole graph, show the cases of that receiver / name
    res = corr_task((g, route, mods, rec.get('tag', 'replay'), set(rec.get('full', [0, 6]))))
    if res.get('error'):
        print('worker error', res['error'])
        return 0
    q = rec.get('query') or [rec.get('stream'), rec.get('recv'), rec.get('name')]
    sel = [i for i, m in enumerate(res['meta']) if list(m[1:3]) == list(q[1:3]) or (len(q) < 3 and m[1] == q[1])]
    fails, err = coq_eval_graph(res)
    for i in sel[:12]:
        print('implementation now:', res['meta'][i], res['cases'][i][:300], '-> model', 'DISAGREES' if i in fails else 'agrees')
    for bad in res['bad'][:10]:
        if bad.get('recv') == q[1]:
            print('direct oracle:', bad['what'])
    if sel and len(q) > 2 and isinstance(q[2], str):
        o = q[1]
        nm = g_str(q[2])
        print(common.coq_show(IMPORTS, ['getattr_static H %d %s' % (o, nm), 'py_getattr H %d %s' % (o, nm),
                                        'is_allowed_getattr H %d %s true' % (o, nm)], defs=res['defs'])[-1200:])
    return 0
