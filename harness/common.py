"""Shared machinery for every ./check Cxx run.

Pipeline (DESIGN.md §2): build the Coq development, re-check the property
theorems and their assumptions, generate inputs from one seeded PRNG, run the
real jedi from /repo's working tree, evaluate the Gallina model on the same
inputs with vm_compute, compare, run the ground-truth oracle, classify every
deviation against known_findings.jsonl, write evidence and replay files.
"""
import fcntl
import hashlib
import json
import os
import random
import re
import shutil
import subprocess
import sys
import tempfile
import time
import traceback
from concurrent.futures import ThreadPoolExecutor

VERIF = os.path.dirname(os.path.dirname(os.path.abspath(__file__)))
REPO = os.environ.get('JEDI_REPO', '/repo')
COQ = os.path.join(VERIF, 'coq')
EVID = os.path.join(VERIF, 'evidence')
REPLAYS = os.path.join(EVID, 'replays')
PY = '/venv/bin/python'
NPROC = min(16, os.cpu_count() or 4)

GUARD_RE = re.compile(
    r'\b(Admitted|admit|Axiom|Axioms|Parameter|Parameters|Conjecture|Hypothesis|Variable)\b'
    r'|Unset\s+Guard|bypass_check|type-in-type|impredicative-set|Admit\s+Obligations')

TRUSTED_BASE = [
    'Coq 8.16.1 kernel + coqc; vm_compute (bytecode VM) for model evaluation; no native_compute',
    'no axioms declared; every property theorem is "Closed under the global context" (Print Assumptions, re-checked on each run)',
    'hand-written Gallina model of the anchored jedi functions, tied to /repo by the per-run correspondence check',
    'harness: generators, Python->Gallina literal printer, coqc output parser, canonicalisers',
    'CPython 3.12 (/venv) as ground-truth oracle',
]


# ----------------------------------------------------------------------------
# Python value -> Gallina literal

def g_str(s):
    """A Python str as a Gallina `str` (= list N of code points)."""
    if s == '':
        return '(@nil N)'
    return '[' + ';'.join(str(ord(c)) for c in s) + ']%N'


def g_bytes_str(b):
    if not b:
        return '(@nil N)'
    return '[' + ';'.join(str(x) for x in b) + ']%N'


def g_Z(i):
    return '(%d)%%Z' % i


def g_N(i):
    assert i >= 0
    return '%d%%N' % i


def g_nat(i):
    assert 0 <= i < 5000, 'no large nat literals'
    return '%d%%nat' % i


def g_bool(b):
    return 'true' if b else 'false'


def g_opt(x, f):
    return 'None' if x is None else '(Some %s)' % f(x)


def g_list(xs, f, ty=None):
    xs = list(xs)
    if not xs:
        return '(@nil (%s))' % ty if ty else 'nil'
    return '[' + '; '.join(f(x) for x in xs) + ']'


def g_pair(a, b):
    return '(%s, %s)' % (a, b)


# ----------------------------------------------------------------------------
# Coq build and evaluation

def par(n=None):
    """worker count: all cores when the machine is ours, fewer when it is oversubscribed"""
    n = n or NPROC
    try:
        load = os.getloadavg()[0]
    except OSError:
        return n
    if load > 24:
        return max(2, min(n, int(n * 12 / load)))
    return n


def _run(cmd, cwd=None, timeout=900, env=None):
    try:
        p = subprocess.run(cmd, cwd=cwd, timeout=timeout, env=env,
                           stdout=subprocess.PIPE, stderr=subprocess.STDOUT, text=True)
        return p.returncode, p.stdout
    except subprocess.TimeoutExpired as e:
        out = e.stdout or ''
        if isinstance(out, bytes):
            out = out.decode('utf8', 'replace')
        return 124, out + '\n[timeout]'


def coq_sources(gen=False):
    out = []
    for d in ('Base', 'Model', 'Proofs', 'Props') + (('GenProofs',) if gen else ()):
        dd = os.path.join(COQ, d)
        if os.path.isdir(dd):
            for f in sorted(os.listdir(dd)):
                if f.endswith('.v'):
                    out.append(os.path.join(d, f))
    return out


def coq_build(timeout=1500):
    """Full .vo build of the development (no -vos). Serialised by a lock so that
    checks started in parallel do not race on the same .vo files."""
    os.makedirs(os.path.join(VERIF, '.cache'), exist_ok=True)
    with open(os.path.join(VERIF, '.cache', 'build.lock'), 'w') as lk:
        fcntl.flock(lk, fcntl.LOCK_EX)
        srcs = coq_sources()
        proj = '-Q . JV\n' + '\n'.join(srcs) + '\n'
        pf = os.path.join(COQ, '_CoqProject')
        old = open(pf).read() if os.path.exists(pf) else None
        if old != proj or not os.path.exists(os.path.join(COQ, 'Makefile')):
            with open(pf, 'w') as f:
                f.write(proj)
            rc, out = _run(['coq_makefile', '-f', '_CoqProject', '-o', 'Makefile'], cwd=COQ, timeout=120)
            if rc != 0:
                return False, out
        rc, out = _run(['make', '-k', '-j%d' % par()], cwd=COQ, timeout=timeout)
        return rc == 0, out


def guard_scan():
    """No Admitted/admit/Axiom/Parameter/... anywhere in the development."""
    hits = []
    for rel in coq_sources(gen=True):
        txt = open(os.path.join(COQ, rel), encoding='utf8').read()
        txt = re.sub(r'\(\*.*?\*\)', lambda m: re.sub(r'[^\n]', ' ', m.group(0)), txt, flags=re.S)
        in_section = 0
        for i, line in enumerate(txt.split('\n'), 1):
            if re.match(r'\s*Section\b', line):
                in_section += 1
            if re.match(r'\s*End\b', line) and in_section:
                in_section -= 1
            m = GUARD_RE.search(line)
            if m:
                word = m.group(0)
                if word in ('Variable', 'Hypothesis') and in_section:
                    continue  # section-local: discharged at End, not an axiom
                hits.append('%s:%d: %s' % (rel, i, line.strip()))
    return hits


def check_props(pid):
    """Re-compile Props/<pid>.v and read the Print Assumptions output.
    Returns dict(obligations, discharged, theorems, axioms, ok, log)."""
    rel = os.path.join('Props', pid + '.v')
    src = open(os.path.join(COQ, rel), encoding='utf8').read()
    theorems = re.findall(r'^\s*(?:Theorem|Lemma|Corollary)\s+(\w+)', src, flags=re.M)
    n_pa = len(re.findall(r'^\s*Print Assumptions\s+(\w+)', src, flags=re.M))
    tmpd = tempfile.mkdtemp(prefix='jvprops_')
    try:
        # compile a copy so that a concurrent make is not disturbed
        cp = os.path.join(tmpd, 'PropsCheck_%s.v' % pid)
        shutil.copy(os.path.join(COQ, rel), cp)
        rc, out = _run(['coqc', '-Q', COQ, 'JV', cp], cwd=tmpd, timeout=600)
    finally:
        shutil.rmtree(tmpd, ignore_errors=True)
    closed = len(re.findall(r'Closed under the global context', out))
    axioms = re.findall(r'Axioms:\s*\n((?:.+\n?)+?)(?=\n\S|\Z)', out)
    ok = (rc == 0 and closed == n_pa and n_pa == len(theorems) and not axioms and n_pa > 0)
    return dict(obligations=len(theorems), discharged=(closed if rc == 0 else 0),
                theorems=theorems, axioms=axioms, ok=ok, log=out[-4000:], rc=rc)


# property -> translated units (harness/pytrans.py:UNITS) whose equivalence proofs belong to it
GEN_UNITS = {'C01': ['C01_validate'], 'C04': ['C04_match', 'C04_complete', 'C04_prefixlen'], 'C06': ['C06_rule'], 'C11': ['C11_index'], 'C15': ['C15_limits'], 'C19': ['C19_consts'], 'C20': ['C20_dedupe']}


def prims_selftest(n=240, seed=7):
    """The semantics the translator assigns to Python operations (coq/Base/PyPrims.v) against CPython:
    str.find / in / startswith / endswith / negative indices / slices on generated strings (not a proof:
    validation of the trusted primitives).  -> (cases, failing)"""
    import inspect
    rng = random.Random(seed)
    alpha = 'ab\n\r'
    cases = []
    for _ in range(n):
        s = ''.join(rng.choice(alpha) for _ in range(rng.randint(0, 6)))
        p = ''.join(rng.choice(alpha) for _ in range(rng.choice([0, 1, 1, 2, 3])))
        i = rng.randint(-8, 8)
        try:
            idx = s[i]
        except IndexError:
            idx = None
        obs = '(%s, %s, %s, %s, %s, %s, %s)' % (
            g_Z(s.find(p)), g_bool(p in s), g_bool(s.startswith(p)), g_bool(s.endswith(p)),
            g_opt(idx, g_str), g_str(s[i:]), g_str(s[:i]))
        cases.append('(%s, %s, %s, %s)' % (g_str(s), g_str(p), g_Z(i), obs))
    kinds = [int(getattr(inspect.Parameter, k)) for k in
             ('POSITIONAL_ONLY', 'POSITIONAL_OR_KEYWORD', 'VAR_POSITIONAL', 'KEYWORD_ONLY', 'VAR_KEYWORD')]
    defs = """
Definition ostr_eqb (a b : option str) := match a, b with Some x, Some y => str_eqb x y | None, None => true | _, _ => false end.
Definition chk (c : str * str * Z * (Z * bool * bool * bool * option str * str * str)) : bool :=
  let '(s, p, i, (f, inn, sw, ew, idx, sl_from, sl_to)) := c in
  Z.eqb (py_find s p) f && Bool.eqb (py_str_in p s) inn && Bool.eqb (starts_with s p) sw && Bool.eqb (py_endswith s p) ew
  && ostr_eqb (py_str_index s i) idx && str_eqb (py_slice_from s i) sl_from && str_eqb (py_slice_to s i) sl_to.
"""
    fails, err = coq_failing('From JV Require Import Base.Str Base.PyPrims.\nOpen Scope Z_scope.\n', 'chk', cases, shard=300, defs=defs)
    if err:
        return len(cases), ['coq: ' + err[-300:]]
    out = [cases[i] for i in fails[:3]]
    if kinds != [0, 1, 2, 3, 4]:
        out.append('inspect.Parameter kinds are %r' % (kinds,))
    return len(cases), out


def check_gen(pid):
    """Translator tie: regenerate Gen_<unit>.v from $JEDI_REPO's source, compile it, then compile the
    committed GenProofs/<unit>_Equiv.v (gen_f = model_f for all inputs) against it.
    -> dict(units=[...], theorems=[...], discharged=n, ok=bool, why=str)"""
    import pytrans
    units = GEN_UNITS.get(pid, [])
    res = dict(units=[], theorems=[], obligations=0, discharged=0, ok=True, why='')
    if not units:
        return res
    ncase, bad = prims_selftest()
    res['primitive_cases_vs_cpython'] = ncase
    if bad:
        res['ok'] = False
        res['why'] += 'PyPrims disagrees with CPython: %r; ' % (bad,)
    tmpd = tempfile.mkdtemp(prefix='jvgen_')
    try:
        for u in units:
            rec = dict(unit=u, source=pytrans.UNITS[u]['file'],
                       defs=[f['name'] for f in pytrans.UNITS[u]['funcs']] + list(pytrans.UNITS[u].get('consts', [])))
            res['units'].append(rec)
            proof_src = open(os.path.join(COQ, 'GenProofs', u + '_Equiv.v'), encoding='utf8').read()
            ths = re.findall(r'^\s*Theorem\s+(\w+)', proof_src, flags=re.M)
            n_pa = len(re.findall(r'^\s*Print Assumptions\s+(\w+)', proof_src, flags=re.M))
            res['theorems'] += ths
            res['obligations'] += len(ths)
            try:
                text = pytrans.translate_unit(u, os.environ.get('JEDI_REPO', '/repo'))
            except pytrans.Unsupported as e:
                rec['status'] = 'translator refused: %s' % e
                res['ok'] = False
                res['why'] += '%s: the translator refuses the present source (%s); ' % (u, e)
                continue
            except (OSError, SyntaxError) as e:
                rec['status'] = 'source unreadable: %r' % (e,)
                res['ok'] = False
                res['why'] += '%s: %r; ' % (u, e)
                continue
            hits = [w for w in GUARD_RE.findall(text)]
            gf = os.path.join(tmpd, 'Gen_%s.v' % u)
            with open(gf, 'w') as f:
                f.write(text)
            rec['generated_sha1'] = hashlib.sha1(text.encode('utf8')).hexdigest()
            rc, out = _run(['coqc', '-Q', COQ, 'JV', '-Q', tmpd, 'JVGen', gf], cwd=tmpd, timeout=300)
            if rc != 0 or hits:
                rec['status'] = 'generated definition does not compile'
                res['ok'] = False
                res['why'] += '%s: generated file rejected by Coq: %s; ' % (u, out[-600:])
                continue
            pf = os.path.join(tmpd, u + '_Equiv.v')
            shutil.copy(os.path.join(COQ, 'GenProofs', u + '_Equiv.v'), pf)
            rc, out = _run(['coqc', '-Q', COQ, 'JV', '-Q', tmpd, 'JVGen', pf], cwd=tmpd, timeout=600)
            closed = len(re.findall(r'Closed under the global context', out))
            if rc == 0 and closed == n_pa == len(ths) and n_pa > 0:
                rec['status'] = 'equivalent (%d theorems, closed)' % closed
                res['discharged'] += closed
            else:
                rec['status'] = 'equivalence proof no longer checks'
                res['ok'] = False
                res['why'] += '%s: GenProofs/%s_Equiv.v fails against the definition generated from the present source: %s; ' % (
                    u, u, out[-800:])
    finally:
        shutil.rmtree(tmpd, ignore_errors=True)
    return res


_EVAL_HDR = 'From Coq Require Import List NArith ZArith Bool String.\nImport ListNotations.\n'


def _coqc_text(text, tag, timeout=600):
    d = tempfile.mkdtemp(prefix='jvcase_')
    try:
        f = os.path.join(d, 'Cases_%s.v' % tag)
        with open(f, 'w') as fh:
            fh.write(text)
        rc, out = _run(['bash', '-c', 'ulimit -s unlimited 2>/dev/null; exec coqc -Q %s JV %s' % (COQ, f)],
                       cwd=d, timeout=timeout)
        return rc, out
    finally:
        shutil.rmtree(d, ignore_errors=True)


def coq_failing(imports, fn, cases, shard=400, timeout=600, defs=''):
    """Evaluate `fn case` (a bool) for every case by vm_compute; return
    (list of failing indices, error text or None).  `cases` are Gallina terms of
    the argument type of `fn`.  Sharded over parallel coqc runs."""
    if not cases:
        return [], None
    shards = [(i, cases[i:i + shard]) for i in range(0, len(cases), shard)]

    def one(sh):
        base, cs = sh
        body = [_EVAL_HDR, imports, defs,
                'Definition jv_cases := [\n' + ';\n'.join(cs) + '\n].',
                'Definition jv_fail := let fix go (i : N) l := match l with nil => nil | c :: r => '
                'if %s c then go (N.succ i) r else i :: go (N.succ i) r end in go 0%%N jv_cases.' % fn,
                'Eval vm_compute in (N.of_nat (length jv_cases), jv_fail).']
        rc, out = _coqc_text('\n'.join(body) + '\n', 's%d' % base, timeout)
        if rc != 0:
            return base, None, out[-3000:]
        m = re.search(r'=\s*\((\d+)%N,\s*(.*?)\)\s*:\s*N \* list N', out, flags=re.S)
        if not m or int(m.group(1)) != len(cs):
            return base, None, 'unparsable coqc output: ' + out[-2000:]
        idx = [base + int(x) for x in re.findall(r'(\d+)%N', m.group(2))]
        return base, idx, None

    fails, err = [], None
    with ThreadPoolExecutor(max_workers=par()) as ex:
        for base, idx, e in ex.map(one, shards):
            if e and not err:
                err = 'shard %d: %s' % (base, e)
            if idx:
                fails.extend(idx)
    return sorted(fails), err


def coq_show(imports, exprs, timeout=300, defs=''):
    """Evaluate arbitrary closed terms and return coqc's printed text (for replays)."""
    body = [_EVAL_HDR, imports, defs] + ['Eval vm_compute in (%s).' % e for e in exprs]
    rc, out = _coqc_text('\n'.join(body) + '\n', 'show', timeout)
    return out.strip()


def coq_eval_N_lists(imports, fn, cases, shard=400, timeout=600, defs=''):
    """Evaluate `fn case : list N` for each case; return list of python int lists."""
    if not cases:
        return [], None
    shards = [(i, cases[i:i + shard]) for i in range(0, len(cases), shard)]

    def one(sh):
        base, cs = sh
        body = [_EVAL_HDR, imports, defs,
                'Definition jv_cases := [\n' + ';\n'.join(cs) + '\n].',
                'Eval vm_compute in (map %s jv_cases).' % fn]
        rc, out = _coqc_text('\n'.join(body) + '\n', 'e%d' % base, timeout)
        if rc != 0:
            return base, None, out[-3000:]
        m = re.search(r'=\s*(\[.*\])\s*:\s*list \(list N\)', out, flags=re.S)
        if not m:
            return base, None, 'unparsable: ' + out[-2000:]
        txt = re.sub(r'%N', '', m.group(1)).replace(';', ',')
        try:
            val = json.loads(txt)
        except Exception as e:
            return base, None, 'unparsable json: ' + txt[:500]
        if len(val) != len(cs):
            return base, None, 'length mismatch'
        return base, val, None

    res, err = [None] * len(cases), None
    with ThreadPoolExecutor(max_workers=par()) as ex:
        for base, val, e in ex.map(one, shards):
            if e and not err:
                err = 'shard %d: %s' % (base, e)
            if val is not None:
                res[base:base + len(val)] = val
    return res, err


# ----------------------------------------------------------------------------
# Known findings

def load_known():
    p = os.path.join(VERIF, 'known_findings.jsonl')
    out = []
    if os.path.exists(p):
        for line in open(p, encoding='utf8'):
            line = line.strip()
            if line and not line.startswith('#'):
                out.append(json.loads(line))
    return out


def fingerprint(pairs):
    """Normalised-AST fingerprints of the modelled definitions in /repo.
    pairs: list of (relative file, dotted qualname)."""
    import ast
    res = {}
    for rel, qual in pairs:
        try:
            tree = ast.parse(open(os.path.join(REPO, rel), encoding='utf8').read())
            node = tree
            for part in qual.split('.'):
                node = next(n for n in ast.walk(node)
                            if isinstance(n, (ast.FunctionDef, ast.ClassDef, ast.AsyncFunctionDef))
                            and n.name == part)
            for n in ast.walk(node):  # drop docstrings
                if isinstance(n, (ast.FunctionDef, ast.ClassDef)) and n.body and \
                        isinstance(n.body[0], ast.Expr) and isinstance(getattr(n.body[0], 'value', None), ast.Constant) \
                        and isinstance(n.body[0].value.value, str):
                    n.body = n.body[1:] or [ast.Pass()]
            res[rel + ':' + qual] = hashlib.sha1(ast.dump(node).encode()).hexdigest()[:16]
        except Exception as e:
            res[rel + ':' + qual] = 'missing(%s)' % type(e).__name__
    return res


class Ctx:
    def __init__(self, pid, tier, seed, replay=None):
        self.pid, self.tier, self.seed, self.replay = pid, tier, seed, replay
        self.rng = random.Random((seed * 1000003) ^ int(hashlib.sha1(pid.encode()).hexdigest()[:8], 16))
        self.t0 = time.time()
        self.known = [k for k in load_known() if k.get('property') == pid and k.get('status') == 'open']
        self.known_hits = {}
        self.violations = []
        self.cov = dict(evaluations=0, distinct_nontrivial=0, rule='', samples=[], obligations=0,
                        discharged=0, checker_cmd='', trusted_base=list(TRUSTED_BASE), streams={})
        self.assumptions = []
        self._distinct = set()
        self.tmp = tempfile.mkdtemp(prefix='jv_%s_' % pid)
        self.quick = tier == 'quick'

    # -- sizes
    def n(self, quick, thorough):
        return quick if self.quick else thorough

    # -- accounting
    def count(self, stream, case_key=None, nontrivial=True, n=1):
        self.cov['evaluations'] += n
        st = self.cov['streams'].setdefault(stream, dict(evaluations=0, nontrivial=0))
        st['evaluations'] += n
        if nontrivial:
            st['nontrivial'] += n
            if case_key is not None:
                h = hashlib.sha1(repr((stream, case_key)).encode('utf8', 'surrogatepass')).digest()[:8]
                self._distinct.add(h)

    def sample(self, obj, limit=6):
        if len(self.cov['samples']) < limit:
            self.cov['samples'].append(obj)

    def stat(self, key, val):
        self.cov.setdefault('distribution', {})[key] = val

    # -- proofs
    def proofs(self):
        ok, out = coq_build()
        hits = guard_scan()
        info = check_props(self.pid)
        self.cov['obligations'] = info['obligations']
        self.cov['discharged'] = 0 if hits else info['discharged']
        self.cov['theorems'] = info['theorems']
        self.cov['checker_cmd'] = 'make -C coq (coq_makefile, full .vo) ; coqc -Q coq JV coq/Props/%s.v (Print Assumptions under every theorem)' % self.pid
        self.cov['print_assumptions'] = 'Closed under the global context x%d' % info['discharged'] if not info['axioms'] else info['axioms']
        if hits:
            self.violation('obligation', dict(what='guard scan found forbidden vernacular', hits=hits[:20]), nofail=True)
        if not info['ok']:
            self.violation('obligation', dict(what='Props/%s.v no longer checks or is not closed' % self.pid,
                                              log=info['log']), nofail=True)
        elif not ok:
            # some other file of the development failed; it matters only if Props compiled (it did)
            self.cov['build_note'] = 'make reported errors in files this property does not depend on'
        # second tie: definitions translated from the present source, proved equal to the model
        try:
            gen = check_gen(self.pid)
        except Exception as e:        # fail closed
            gen = dict(units=[], theorems=[], obligations=1, discharged=0, ok=False, why='translator tie crashed: %r' % (e,))
        if gen['units'] or not gen['ok']:
            self.cov['translated_units'] = gen['units']
            self.cov['translation_theorems'] = gen['theorems']
            self.cov['translation_primitive_cases_vs_cpython'] = gen.get('primitive_cases_vs_cpython')
            self.cov['obligations'] += gen['obligations']
            self.cov['discharged'] += 0 if hits else gen['discharged']
            self.cov['checker_cmd'] += ' ; harness/pytrans.py regenerates Gen_<unit>.v from the source, coqc Gen_<unit>.v, coqc GenProofs/<unit>_Equiv.v'
            if not gen['ok']:
                # not yet a verdict: the streams of this check now search for a failing input (finish())
                self.gen_broken = gen['why']
        return info

    # -- deviations
    def deviation(self, sig, data, what):
        """A concrete failing input (or model/impl disagreement). `sig` is the
        classifier signature compared with known_findings matchers."""
        hk = json.dumps(sig, sort_keys=True, default=repr)
        self.cov.setdefault('deviation_histogram', {})
        self.cov['deviation_histogram'][hk] = self.cov['deviation_histogram'].get(hk, 0) + 1
        for k in self.known:
            m = k['matcher']
            if all(sig.get(a) == b for a, b in m.items()):
                hit = self.known_hits.setdefault(k['id'], dict(k=k, n=0, first=data))
                hit['n'] += 1
                return 'known'
        self.violation('input', dict(sig=sig, what=what, **data))
        return 'violation'

    def violation(self, kind, data, nofail=False):
        key = json.dumps(data.get('sig'), sort_keys=True, default=repr) if isinstance(data, dict) and data.get('sig') else kind
        self._per_sig = getattr(self, '_per_sig', {})
        self._per_sig[key] = self._per_sig.get(key, 0) + 1
        if self._per_sig[key] > 3 or len([v for v in self.violations if v]) >= 60:
            self.violations.append(None)   # counted, no further replay files for this signature
            return
        os.makedirs(REPLAYS, exist_ok=True)
        path = os.path.join(REPLAYS, '%s_%s_%d_%d.json' % (self.pid, self.tier, self.seed, len(self.violations)))
        rec = dict(property=self.pid, kind=kind, tier=self.tier, seed=self.seed,
                   replay_cmd='./check %s --replay %s' % (self.pid, path), **data)
        with open(path, 'w') as f:
            json.dump(rec, f, indent=1, default=repr, ensure_ascii=False)
        self.violations.append((path, nofail))

    def finish(self):
        if getattr(self, 'gen_broken', None):
            found = any(v and not v[1] for v in self.violations)
            self.violation('obligation', dict(what='translator tie: the definition generated from the present source is no '
                                              'longer proved equal to the model the theorems are about',
                                              detail=self.gen_broken,
                                              failing_input_found_by_the_streams=found), nofail=not found)
        for kid, hit in sorted(self.known_hits.items()):
            print('KNOWN-FINDING: property=%s %s: %s (%d occurrences this run)' % (
                self.pid, kid, hit['k']['what'], hit['n']))
        self.cov['known_findings_seen'] = {k: v['n'] for k, v in self.known_hits.items()}
        self.cov['distinct_nontrivial'] = len(self._distinct)
        real = [v for v in self.violations if v]
        ev = dict(property_id=self.pid, tier=self.tier, seed=self.seed, level='proof', coverage=self.cov,
                  assumptions=self.assumptions, wall_s=round(time.time() - self.t0, 2), violations=len(self.violations))
        os.makedirs(EVID, exist_ok=True)
        with open(os.path.join(EVID, self.pid + '.json'), 'w') as f:
            json.dump(ev, f, indent=1, default=repr, ensure_ascii=False)
        shutil.rmtree(self.tmp, ignore_errors=True)
        for path, nofail in real:
            print('VIOLATION property=%s replay=%s%s' % (self.pid, path, ' no-failing-input-found' if nofail else ''))
        sys.stdout.flush()
        return 1 if real else 0


# ----------------------------------------------------------------------------
# running jedi in worker processes

def jedi_env(hashseed='0'):
    env = dict(os.environ)
    env['PYTHONPATH'] = REPO
    env['PYTHONHASHSEED'] = hashseed
    env['PYTHONDONTWRITEBYTECODE'] = '1'
    env.pop('JEDI_VERIF', None)
    return env


def setup_jedi(cache_dir):
    """Configure the in-process jedi (imported from /repo) for checks."""
    sys.path.insert(0, REPO) if REPO not in sys.path else None
    import jedi
    assert os.path.realpath(jedi.__file__).startswith(os.path.realpath(REPO) + os.sep), jedi.__file__
    jedi.settings.cache_directory = cache_dir
    return jedi


def _worker_init():
    # every worker gets its own parser-cache directory: parso writes its pickles non-atomically,
    # so processes sharing one directory can read each other's half-written files
    try:
        import jedi
        jedi.settings.cache_directory = os.path.join(jedi.settings.cache_directory, 'w%d' % os.getpid())
    except Exception:
        pass


def _assert_no_helper_in_parent():
    """Forked workers would share the pipes of a jedi helper process started in the parent
    (interleaved requests -> deadlock).  Create Scripts only inside workers, or call
    drop_parent_helper() first."""
    me = os.getpid()
    try:
        kids = open('/proc/%d/task/%d/children' % (me, me)).read().split()
    except OSError:
        return
    for k in kids:
        try:
            cmd = open('/proc/%s/cmdline' % k, 'rb').read().decode('utf8', 'replace')
        except OSError:
            continue
        if 'compiled/subprocess' in cmd or 'jedi' in cmd and '__main__' in cmd:
            drop_parent_helper()
            return


def drop_parent_helper():
    """Kill the helper process(es) the in-process jedi started in this process and forget the
    cached default environment, so that later users start their own."""
    try:
        from jedi.api import environment as envmod
        env = envmod._get_cached_default_environment()
        sub = getattr(env, '_subprocess', None)
        if sub is not None:
            try:
                sub._kill()
            except Exception:
                pass
        envmod._get_cached_default_environment.clear_cache()
    except Exception:
        pass
    import gc
    gc.collect()


def pmap(fn, items, procs=NPROC, chunksize=4, timeout=1800):
    """Parallel map in forked workers (fresh jedi state per worker)."""
    import multiprocessing as mp
    items = list(items)
    if not items:
        return []
    _assert_no_helper_in_parent()
    ctx = mp.get_context('fork')
    procs = par(procs)
    with ctx.Pool(min(procs, len(items)), initializer=_worker_init) as pool:
        r = pool.map_async(fn, items, chunksize=chunksize)
        return r.get(timeout)


def exc_sig(e):
    """Exception type + innermost /repo/jedi frame (file, function)."""
    tb = traceback.extract_tb(e.__traceback__)
    site = None
    frames = []
    for fr in tb:
        fn = fr.filename
        if '/jedi/' in fn and 'third_party' not in fn:
            site = (os.path.relpath(fn, REPO) if fn.startswith(REPO) else fn, fr.name)
            frames.append(fr.name)
    if tb and '/parso/' in tb[-1].filename:
        # raised inside the parser library (a dependency): name that frame, the jedi caller varies
        site = ('parso', '%s:%s' % (tb[-1].filename.split('/parso/')[-1], tb[-1].name))
    if isinstance(e, RecursionError):
        # the innermost frame of a stack overflow is arbitrary; name the cycle instead
        import collections
        cnt = collections.Counter(
            (os.path.relpath(fr.filename, REPO) if fr.filename.startswith(REPO) else fr.filename, fr.name)
            for fr in tb[-400:] if '/jedi/' in fr.filename
            and fr.name not in ('wrapper', '__getattr__', '<genexpr>', '<listcomp>', 'from_sets', '__init__'))
        if cnt:
            site = ('recursion-through', '%s:%s' % cnt.most_common(1)[0][0])
    return dict(exc=type(e).__name__, site='%s:%s' % site if site else None,
                msg=str(e)[:80], frames=frames[-6:])
