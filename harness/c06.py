"""C06 -- extract and inline refactorings keep the program valid and equivalent.

Streams
  ev        random arithmetic/boolean/ternary expressions: CPython eval vs model `ev`; the text's tokens vs
            model `print`; `wf_at` of the serialised parso tree (ties ev/print/wf and the parso serialiser)
  matrix    exhaustive small scope: every right-hand-side kind x every reference slot kind through
            Script.inline (compile, run, model inline_text/parents), and every selection kind x slot through
            extract_variable / extract_function (compile, run, extract->inline round trip, is_extraction)
  inline    generated executable programs: Script.inline on every assigned variable (definition and references)
  extract   generated programs: extract_variable / extract_function on expression nodes (cursor-only and
            explicit range), random ranges, and statement ranges inside function bodies
Oracles: compile(); execution of old and new program (same `trace`); `ast` decides the side conditions.
"""
import ast
import io
import json
import os
import re
import signal
import sys
import time
import tokenize

import warnings

import common
from common import g_Z, g_N, g_bool, g_list

IMPORTS = 'From JV Require Import Model.C06_Inline.\n'

FP = [('jedi/api/refactoring/__init__.py', 'inline'),
      ('jedi/api/refactoring/extract.py', 'extract_variable'),
      ('jedi/api/refactoring/extract.py', 'extract_function'),
      ('jedi/api/refactoring/extract.py', '_find_nodes'),
      ('jedi/api/refactoring/extract.py', '_is_expression_with_error'),
      ('jedi/api/refactoring/extract.py', '_remove_unwanted_expression_nodes'),
      ('jedi/api/refactoring/extract.py', '_find_inputs_and_outputs'),
      ('jedi/api/refactoring/extract.py', '_is_name_input'),
      ('jedi/api/refactoring/extract.py', '_find_needed_output_variables'),
      ('jedi/api/refactoring/extract.py', '_replace'),
      ('jedi/api/refactoring/extract.py', '_get_code_insertion_node'),
      ('jedi/api/refactoring/extract.py', '_suite_nodes_to_string'),
      ('jedi/api/refactoring/extract.py', '_split_prefix_at'),
      ('jedi/api/__init__.py', 'Script.inline'),
      ('jedi/api/__init__.py', 'Script.extract_variable'),
      ('jedi/api/__init__.py', 'Script.extract_function')]

NEW_VAR = 'zz_new'
NEW_FUNC = 'zz_func'


# =====================================================================================
# 1. expression / program generator (text + nothing else: every oracle re-derives its facts from `ast`)

# levels as in Model/C06_Inline.v
L_ELEM, L_TEST, L_OR, L_AND, L_NOT, L_CMP, L_EXPR, L_XOR, L_ANDX, L_SHIFT, L_ARITH, L_TERM, L_FACTOR, L_POWER, \
    L_ATOM_EXPR, L_ATOM = range(16)

BIN_LEVEL = {'|': 6, '^': 7, '&': 8, '<<': 9, '>>': 9, '+': 10, '-': 10, '*': 11, '//': 11, '%': 11, '/': 11, '@': 11}


def node_level(n):
    k = n[0]
    if k in ('var', 'num', 'paren', 'tup', 'lst', 'lcomp', 'dict', 'set', 'raw_atom'):
        return 15
    if k in ('call', 'sub', 'attr', 'slice'):
        return 14
    if k == 'pow':
        return 13
    if k == 'un':
        return 12
    if k == 'bin':
        return BIN_LEVEL[n[1]]
    if k in ('cmp', 'cmpchain'):
        return 5
    if k == 'not':
        return 4
    if k == 'and':
        return 3
    if k == 'or':
        return 2
    if k in ('tern', 'lam'):
        return 1
    if k == 'star':
        return 0
    raise AssertionError(k)


def show(n, slot=1, rng=None):
    """Text of the node in a slot of the given level: parentheses exactly when needed (+ a few redundant)."""
    s = _show(n, rng)
    if node_level(n) < slot or (rng is not None and n[0] not in ('star',) and rng.random() < 0.06):
        return '(' + s + ')'
    return s


def _sp(rng, op):
    if rng is not None and rng.random() < 0.08:
        return op
    return ' ' + op + ' '


def _show(n, rng):
    k = n[0]
    sh = lambda m, l: show(m, l, rng)
    if k == 'var':
        return n[1]
    if k == 'num':
        return str(n[1])
    if k == 'raw_atom':
        return n[1]
    if k == 'paren':
        return '(' + sh(n[1], 1) + ')'
    if k == 'tup':
        return '(' + ', '.join(sh(e, 0) for e in n[1]) + ')'
    if k == 'lst':
        return '[' + ', '.join(sh(e, 0) for e in n[1]) + ']'
    if k == 'set':
        return '{' + ', '.join(sh(e, 0) for e in n[1]) + '}'
    if k == 'dict':   # items: (key, value) or ('**', d)
        return '{' + ', '.join(('**' + sh(v, 6)) if kk == '**' else (sh(kk, 1) + ': ' + sh(v, 1)) for kk, v in n[1]) + '}'
    if k == 'lcomp':
        s = '[' + sh(n[1], 1) + ' for ' + n[2] + ' in ' + sh(n[3], 2)
        if n[4] is not None:
            s += ' if ' + sh(n[4], 2)
        return s + ']'
    if k == 'star':
        return '*' + sh(n[1], 6)
    if k == 'tern':   # ('tern', cond, a, b)
        return sh(n[2], 2) + ' if ' + sh(n[1], 2) + ' else ' + sh(n[3], 1)
    if k == 'lam':
        return 'lambda' + (' ' + ', '.join(n[1]) if n[1] else '') + ': ' + sh(n[2], 1)
    if k == 'or':
        return sh(n[1], 2) + ' or ' + sh(n[2], 3)
    if k == 'and':
        return sh(n[1], 3) + ' and ' + sh(n[2], 4)
    if k == 'not':
        return 'not ' + sh(n[1], 4)
    if k == 'cmp':
        return sh(n[2], 6) + _sp(rng, n[1]) + sh(n[3], 6)
    if k == 'cmpchain':
        return sh(n[1], 6) + ' ' + n[2] + ' ' + sh(n[3], 6) + ' ' + n[4] + ' ' + sh(n[5], 6)
    if k == 'bin':
        l = BIN_LEVEL[n[1]]
        return sh(n[2], l) + _sp(rng, n[1]) + sh(n[3], l + 1)
    if k == 'un':
        return n[1] + sh(n[2], 12)
    if k == 'pow':
        return sh(n[1], 14) + _sp(rng, '**') + sh(n[2], 12)
    if k == 'call':   # ('call', f, args[, kwargs])
        parts = [sh(a, 1) for a in n[2]]
        if len(n) > 3:
            parts += [('*' + sh(v, 1)) if kw == '*' else ('**' + sh(v, 1)) if kw == '**' else (kw + '=' + sh(v, 1))
                      for kw, v in n[3]]
        return sh(n[1], 14) + '(' + ', '.join(parts) + ')'
    if k == 'sub':
        return sh(n[1], 14) + '[' + sh(n[2], 1) + ']'
    if k == 'slice':
        return sh(n[1], 14) + '[' + sh(n[2], 1) + ':' + sh(n[3], 1) + ']'
    if k == 'attr':
        return sh(n[1], 14) + '.' + n[2]
    raise AssertionError(k)


class Scope:
    def __init__(self, parent=None):
        self.ints = list(parent.ints) if parent else []
        self.seqs = dict(parent.seqs) if parent else {}     # name -> known length (>= 1) or 0 if unknown
        self.lams = dict(parent.lams) if parent else {}     # name -> arity
        self.dicts = list(parent.dicts) if parent else []
        self.funcs = dict(parent.funcs) if parent else {}   # pure helper functions: name -> arity
        self.attrs = list(parent.attrs) if parent else []   # 'K0.a0' style int attributes (as node tuples)
        self.mut = list(parent.mut) if parent else []       # accumulators (assigned several times)
        self.strs = list(parent.strs) if parent else []


class Gen:
    """Generates executable, terminating, exception-free programs over ints, int sequences, lambdas and dicts."""

    def __init__(self, rng):
        self.rng = rng
        self.counter = {}

    def fresh(self, p):
        self.counter[p] = self.counter.get(p, -1) + 1
        return '%s%d' % (p, self.counter[p])

    # ---- int expressions
    def int_leaf(self, sc):
        r = self.rng.random()
        if sc.ints and r < 0.62:
            return ('var', self.rng.choice(sc.ints))
        if sc.attrs and r < 0.7:
            return self.rng.choice(sc.attrs)
        return ('num', self.rng.randint(0, 9))

    def int_expr(self, sc, d):
        rng = self.rng
        if d <= 0 or rng.random() < 0.18:
            return self.int_leaf(sc)
        k = rng.choices(
            ['tern', 'or', 'and', 'not', 'cmp', 'cmpchain', 'bin', 'un', 'pow', 'call', 'lamcall', 'sub', 'paren',
             'lamvar', 'dsub'],
            [9, 5, 5, 4, 8, 1, 30, 5, 4, 8, 3, 7, 2, 3, 2])[0]
        e = lambda: self.int_expr(sc, d - 1)
        if k == 'tern':
            return ('tern', e(), e(), e())
        if k == 'or':
            return ('or', e(), e())
        if k == 'and':
            return ('and', e(), e())
        if k == 'not':
            return ('not', e())
        if k == 'cmp':
            return ('cmp', rng.choice(['<', '>', '==', '>=', '<=', '!=']), e(), e())
        if k == 'cmpchain':
            return ('cmpchain', e(), rng.choice(['<', '<=']), e(), rng.choice(['<', '!=']), e())
        if k == 'bin':
            op = rng.choice(['|', '^', '&', '<<', '>>', '+', '+', '-', '-', '*', '*', '//', '%'])
            if op in ('//', '%'):
                return ('bin', op, e(), ('num', rng.randint(1, 7)))
            if op in ('<<', '>>'):
                return ('bin', op, e(), ('num', rng.randint(0, 3)))
            return ('bin', op, e(), e())
        if k == 'un':
            return ('un', rng.choice(['-', '-', '+', '~']), e())
        if k == 'pow':
            return ('pow', self.int_expr(sc, min(d - 1, 1)), ('num', rng.randint(0, 3)))
        if k == 'call' and sc.funcs:
            f = rng.choice(sorted(sc.funcs))
            return ('call', ('var', f), [e() for _ in range(sc.funcs[f])])
        if k == 'lamvar' and sc.lams:
            f = rng.choice(sorted(sc.lams))
            return ('call', ('var', f), [e() for _ in range(sc.lams[f])])
        if k == 'lamcall':
            p = self.fresh('m')
            inner = Scope(sc)
            inner.ints = inner.ints + [p]
            return ('call', ('lam', [p], self.int_expr(inner, d - 1)), [e()])
        if k == 'sub':
            s, n = self.solid_seq(sc, d - 1)
            if rng.random() < 0.5:
                return ('sub', s, ('num', rng.randint(0, n - 1)))
            return ('sub', s, ('bin', '%', e(), ('num', n)))
        if k == 'dsub' and sc.dicts:
            return ('sub', ('var', rng.choice(sc.dicts)), ('num', rng.choice([1, 2])))
        if k == 'paren':
            return ('paren', e())
        return self.int_leaf(sc)

    # ---- sequences
    def solid_seq(self, sc, d):
        """(node, known length >= 1)"""
        rng = self.rng
        known = sorted(n for n, l in sc.seqs.items() if l >= 1)
        if known and rng.random() < 0.55:
            n = rng.choice(known)
            return ('var', n), sc.seqs[n]
        ln = rng.randint(1, 3)
        if ln == 1:
            return ('lst', [self.int_expr(sc, d)]), 1
        return (rng.choice(['tup', 'lst']), [self.int_expr(sc, d) for _ in range(ln)]), ln

    def seq_expr(self, sc, d):
        """(node, known length or 0)"""
        rng = self.rng
        k = rng.choices(['solid', 'lcomp', 'starlst', 'tern', 'or', 'var'], [30, 25, 12, 12, 6, 15])[0]
        if k == 'var' and sc.seqs:
            n = rng.choice(sorted(sc.seqs))
            return ('var', n), sc.seqs[n]
        if k == 'lcomp':
            v = self.fresh('j')
            it, _ = self.seq_expr(sc, d - 1) if d > 0 and rng.random() < 0.4 else self.solid_seq(sc, 0)
            inner = Scope(sc)
            inner.ints = inner.ints + [v]
            cond = self.int_expr(inner, 1) if rng.random() < 0.5 else None
            return ('lcomp', self.int_expr(inner, max(d, 1)), v, it, cond), 0
        if k == 'starlst' and sc.seqs:
            n = rng.choice(sorted(sc.seqs))
            elems = [('star', ('var', n)), self.int_expr(sc, 1)]
            rng.shuffle(elems)
            return (rng.choice(['lst', 'tup']), elems), max(1, sc.seqs[n] and sc.seqs[n] + 1)
        if k == 'tern' and d > 0:
            a, la = self.seq_expr(sc, d - 1)
            b, lb = self.seq_expr(sc, d - 1)
            return ('tern', self.int_expr(sc, 1), a, b), (min(la, lb) if la and lb else 0)
        if k == 'or' and d > 0:
            a, la = self.solid_seq(sc, 1)
            b, lb = self.solid_seq(sc, 1)
            return ('or', a, b), min(la, lb)
        return self.solid_seq(sc, max(d, 1))

    def dict_expr(self, sc):
        rng = self.rng
        if sc.dicts and rng.random() < 0.6:
            d0 = rng.choice(sc.dicts)
            if len(sc.dicts) > 1 and rng.random() < 0.5:
                d1 = rng.choice(sc.dicts)
                src = rng.choice([('tern', self.int_expr(sc, 1), ('var', d0), ('var', d1)), ('or', ('var', d0), ('var', d1))])
                return src
            return ('dict', [('**', ('var', d0)), (('num', 2), self.int_expr(sc, 1))])
        return ('dict', [(('num', 1), self.int_expr(sc, 1)), (('num', 2), self.int_expr(sc, 1))])

    # ---- statements
    def block(self, sc, ind, depth, n, in_loop=False, fn_ret=True):
        """Statements of one suite; returns lines.  New names stay local to the suite (definite assignment)."""
        rng = self.rng
        out = []
        pad = '    ' * ind
        for _ in range(n):
            k = rng.choices(['int', 'seq', 'lam', 'aug', 'if', 'for', 'while', 'def', 'bare', 'dict', 'fstr',
                             'early', 'brk', 'expr'],
                            [34, 12, 6, 8, 9, 8, 3, 3, 4, 4, 2, 2, 3, 1])[0]
            if depth <= 0 and k in ('if', 'for', 'while', 'def'):
                k = 'int'
            if k == 'int':
                e = show(self.int_expr(sc, rng.randint(1, 3)), 1, rng)
                v = self.fresh('v')
                out.append(pad + '%s = %s' % (v, e))
                sc.ints.append(v)
            elif k == 'seq':
                node, ln = self.seq_expr(sc, 2)
                v = self.fresh('s')
                out.append(pad + '%s = %s' % (v, show(node, 1, rng)))
                sc.seqs[v] = ln
            elif k == 'bare':
                ln = rng.randint(2, 3)
                v = self.fresh('s')
                out.append(pad + '%s = %s' % (v, ', '.join(show(self.int_expr(sc, 1), 1, rng) for _ in range(ln))))
                sc.seqs[v] = ln
            elif k == 'dict':
                v = self.fresh('d')
                out.append(pad + '%s = %s' % (v, show(self.dict_expr(sc), 1, rng)))
                sc.dicts.append(v)
            elif k == 'fstr' and sc.ints:
                v = self.fresh('t')
                out.append(pad + "%s = f'{%s}-{%s}'" % (v, rng.choice(sc.ints), show(self.int_expr(sc, 1), 1)))
                sc.strs.append(v)   # a string: only ever returned
            elif k == 'lam':
                p = self.fresh('m')
                inner = Scope(sc)
                inner.ints = inner.ints + [p]
                v = self.fresh('l')
                out.append(pad + '%s = lambda %s: %s' % (v, p, show(self.int_expr(inner, 2), 1, rng)))
                sc.lams[v] = 1
            elif k == 'aug' and sc.mut:
                v = rng.choice(sc.mut)
                if rng.random() < 0.5:
                    out.append(pad + '%s %s %s' % (v, rng.choice(['+=', '-=', '*=']), show(self.int_expr(sc, 2), 1, rng)))
                else:
                    out.append(pad + '%s = %s' % (v, show(('bin', rng.choice(['+', '-', '^']), ('var', v), self.int_expr(sc, 2)), 1, rng)))
            elif k == 'if':
                out.append(pad + 'if %s:' % show(self.int_expr(sc, 2), 1, rng))
                out += self.block(Scope(sc), ind + 1, depth - 1, rng.randint(1, 3), in_loop, fn_ret)
                if rng.random() < 0.3:
                    out.append(pad + 'elif %s:' % show(self.int_expr(sc, 2), 1, rng))
                    out += self.block(Scope(sc), ind + 1, depth - 1, rng.randint(1, 2), in_loop, fn_ret)
                if rng.random() < 0.5:
                    out.append(pad + 'else:')
                    out += self.block(Scope(sc), ind + 1, depth - 1, rng.randint(1, 2), in_loop, fn_ret)
            elif k == 'for':
                i = self.fresh('i')
                it, _ = self.seq_expr(sc, 1)
                out.append(pad + 'for %s in %s:' % (i, show(it, 1, rng)))
                inner = Scope(sc)
                inner.ints = inner.ints + [i]
                out += self.block(inner, ind + 1, depth - 1, rng.randint(1, 3), True, fn_ret)
            elif k == 'while':
                w = self.fresh('w')
                out.append(pad + '%s = 0' % w)
                out.append(pad + 'while %s < %d:' % (w, rng.randint(1, 3)))
                out.append(pad + '    %s = %s + 1' % (w, w))
                inner = Scope(sc)
                inner.ints = inner.ints + [w]
                out += self.block(inner, ind + 1, depth - 1, rng.randint(1, 2), True, fn_ret)
                sc.ints.append(w)
            elif k == 'def':
                g = self.fresh('g')
                p = self.fresh('z')
                inner = Scope(sc)
                inner.ints = inner.ints + [p]
                inner.mut = []
                out.append(pad + 'def %s(%s):' % (g, p))
                if rng.random() < 0.5:
                    t = self.fresh('v')
                    out.append(pad + '    %s = %s' % (t, show(self.int_expr(inner, 2), 1, rng)))
                    inner.ints.append(t)
                out.append(pad + '    return %s' % show(self.int_expr(inner, 2), 1, rng))
                sc.funcs[g] = 1
            elif k == 'early' and fn_ret and ind >= 2:
                out.append(pad + 'return %s' % show(self.int_expr(sc, 1), 1, rng))
                break
            elif k == 'brk' and in_loop and ind >= 2:
                out.append(pad + 'if %s:' % show(self.int_expr(sc, 1), 1, rng))
                out.append(pad + '    ' + rng.choice(['break', 'continue']))
            elif k == 'expr':
                out.append(pad + show(self.int_expr(sc, 1), 1, rng))
            else:
                e = show(self.int_expr(sc, 2), 1, rng)
                v = self.fresh('v')
                out.append(pad + '%s = %s' % (v, e))
                sc.ints.append(v)
        return out

    def ret_tuple(self, sc):
        rng = self.rng
        pool = list(sc.ints) + list(sc.seqs) + list(sc.dicts) + list(sc.mut) + list(sc.strs)
        rng.shuffle(pool)
        items = pool[:max(1, min(len(pool), rng.randint(3, 7)))]
        for l in sorted(sc.lams):
            items.append('%s(%d)' % (l, rng.randint(0, 5)))
        return '(' + ', '.join(items) + ',)'

    def function(self, name, sc0, ind=0, first=None, deco=None):
        rng = self.rng
        pad = '    ' * ind
        params = [self.fresh('a') for _ in range(rng.randint(1, 3))]
        sc = Scope(sc0)
        sc.ints = sc.ints + params
        lines = []
        if deco:
            lines.append(pad + deco)
        lines.append(pad + 'def %s(%s):' % (name, ', '.join(([first] if first else []) + params)))
        if first:
            sc.attrs = sc.attrs + [('attr', ('var', first), a) for a in ('k0', 'k1')]
        for _ in range(rng.randint(0, 2)):
            m = self.fresh('c')
            lines.append(pad + '    %s = %d' % (m, rng.randint(0, 3)))
            sc.mut.append(m)
        lines += self.block(sc, ind + 1, 2, rng.randint(3, 8))
        lines.append(pad + '    return ' + self.ret_tuple(sc))
        return lines, len(params)

    def program(self):
        rng = self.rng
        self.counter = {}
        sc = Scope()
        lines = []
        ncls = rng.choice([0, 1, 1, 2])
        for ci in range(ncls):
            lines.append('class K%d:' % ci)
            for a in range(rng.randint(1, 3)):
                if a and rng.random() < 0.4:
                    lines.append('    a%d = %s' % (a, rng.choice(['a0 + %d', '%d - a0', 'a0 * %d', '%d if a0 else 1', '-%d']) % rng.randint(1, 5)))
                else:
                    lines.append('    a%d = %d' % (a, rng.randint(0, 9)))
                sc.attrs.append(('attr', ('var', 'K%d' % ci), 'a%d' % a))
        for hi in range(rng.randint(1, 2)):
            ps = ['p', 'q'][:rng.randint(1, 2)]
            inner = Scope()
            inner.ints = list(ps)
            lines.append('def h%d(%s):' % (hi, ', '.join(ps)))
            lines.append('    return %s' % show(self.int_expr(inner, 2), 1, rng))
            sc.funcs['h%d' % hi] = len(ps)
        calls = []
        for fi in range(rng.randint(1, 3)):
            fl, n = self.function('f%d' % fi, sc)
            lines += fl
            for _ in range(2):
                calls.append('f%d(%s)' % (fi, ', '.join(str(rng.randint(0, 6)) for _ in range(n))))
        if rng.random() < 0.5:
            lines.append('class M0:')
            lines.append('    k0 = %d' % rng.randint(1, 5))
            lines.append('    k1 = %d' % rng.randint(1, 5))
            for mi in range(rng.randint(1, 3)):
                kind = rng.choice(['self', 'self', 'static', 'class'])
                if kind == 'self':
                    fl, n = self.function('m%d' % mi, sc, 1, first='self')
                    calls.append('M0().m%d(%s)' % (mi, ', '.join(str(rng.randint(0, 6)) for _ in range(n))))
                elif kind == 'static':
                    fl, n = self.function('m%d' % mi, sc, 1, deco='@staticmethod')
                    calls.append('M0.m%d(%s)' % (mi, ', '.join(str(rng.randint(0, 6)) for _ in range(n))))
                else:
                    fl, n = self.function('m%d' % mi, sc, 1, first='cls', deco='@classmethod')
                    calls.append('M0.m%d(%s)' % (mi, ', '.join(str(rng.randint(0, 6)) for _ in range(n))))
                lines += fl
        # module level statements
        gsc = Scope(sc)
        for _ in range(rng.randint(1, 2)):
            m = self.fresh('c')
            lines.append('%s = %d' % (m, rng.randint(0, 3)))
            gsc.mut.append(m)
        for ci, c in enumerate(calls[:2]):
            v = self.fresh('r')
            lines.append('%s = %s' % (v, c))
            gsc.strs.append(v)      # opaque result: only ever put into the trace
        lines += self.block(gsc, 0, 1, rng.randint(2, 5), fn_ret=False)
        pool = list(gsc.ints) + [s for s in gsc.seqs] + list(gsc.dicts) + list(gsc.mut) + list(gsc.strs)
        lines.append('trace = [%s]' % ', '.join(calls + pool))
        return '\n'.join(lines) + '\n'


# =====================================================================================
# 2. running programs

class _Timeout(Exception):
    pass


def _alarm(signum, frame):
    raise _Timeout()


def canon(v, depth=0):
    """Deterministic text of a value: sets sorted, functions/generators without addresses."""
    if depth > 12:
        return '...'
    if isinstance(v, bool) or v is None or isinstance(v, (int, float, str, bytes)):
        return repr(v)
    if isinstance(v, (list, tuple)):
        o, c = ('[', ']') if isinstance(v, list) else ('(', ')')
        return o + ', '.join(canon(e, depth + 1) for e in v) + c
    if isinstance(v, (set, frozenset)):
        return '{' + ', '.join(sorted(canon(e, depth + 1) for e in v)) + '}'
    if isinstance(v, dict):
        return '{' + ', '.join(canon(k, depth + 1) + ': ' + canon(e, depth + 1) for k, e in v.items()) + '}'
    if callable(v):
        return '<function>'
    return '<%s>' % type(v).__name__


def run_trace(src, limit=4.0):
    """('ok', repr(trace)) | ('exc', type name, message)"""
    warnings.simplefilter('ignore', SyntaxWarning)
    try:
        code = compile(src, '<prog>', 'exec')
    except SyntaxError as e:
        return ('syntax', type(e).__name__, '%s (line %s)' % (e.msg, e.lineno))
    except Exception as e:     # ValueError: source contains null bytes ...
        return ('syntax', type(e).__name__, str(e)[:80])
    g = {'__name__': '__c06__'}
    old = signal.signal(signal.SIGALRM, _alarm)
    signal.setitimer(signal.ITIMER_REAL, limit)
    try:
        exec(code, g)
        return ('ok', canon(g.get('trace', '<no trace>')))
    except _Timeout:
        return ('exc', 'Timeout', '')
    except RecursionError:
        return ('exc', 'RecursionError', '')
    except BaseException as e:
        return ('exc', type(e).__name__, str(e)[:120])
    finally:
        signal.setitimer(signal.ITIMER_REAL, 0)
        signal.signal(signal.SIGALRM, old)


# =====================================================================================
# 3. `ast` analysis: the property's side conditions are decided here, independently of jedi/parso

SCOPE_NODES = (ast.FunctionDef, ast.AsyncFunctionDef, ast.Lambda, ast.ListComp, ast.SetComp, ast.DictComp,
               ast.GeneratorExp, ast.ClassDef, ast.Module)
PURE_NODES = (ast.BinOp, ast.UnaryOp, ast.BoolOp, ast.Compare, ast.IfExp, ast.Name, ast.Constant, ast.Tuple,
              ast.List, ast.Set, ast.Dict, ast.Subscript, ast.Attribute, ast.Lambda, ast.ListComp, ast.SetComp,
              ast.DictComp, ast.GeneratorExp, ast.Starred, ast.JoinedStr, ast.FormattedValue, ast.Slice,
              ast.comprehension, ast.arguments, ast.arg, ast.keyword, ast.expr_context, ast.operator, ast.unaryop,
              ast.boolop, ast.cmpop)


class Info:
    def __init__(self, src):
        self.src = src
        self.lines = src.split('\n')
        self.tree = ast.parse(src)
        self.parent = {}
        for n in ast.walk(self.tree):
            for c in ast.iter_child_nodes(n):
                self.parent[c] = n
        self._bind = {}

    # ---- scopes and bindings
    def scope_of(self, n):
        """The scope in which the expression n is evaluated."""
        c, p = n, self.parent.get(n)
        while p is not None:
            if isinstance(p, SCOPE_NODES):
                if isinstance(p, (ast.FunctionDef, ast.AsyncFunctionDef)) and (c in p.decorator_list or c is p.args or c is p.returns):
                    pass        # evaluated in the enclosing scope
                elif isinstance(p, ast.Lambda) and c is p.args:
                    pass
                elif isinstance(p, (ast.ListComp, ast.SetComp, ast.DictComp, ast.GeneratorExp)) and \
                        c is p.generators[0] and self._in_first_iter(n, p):
                    pass
                elif isinstance(p, ast.ClassDef) and (c in p.bases or c in p.keywords or c in p.decorator_list):
                    pass
                else:
                    return p
            c, p = p, self.parent.get(p)
        return self.tree

    def _in_first_iter(self, n, comp):
        it = comp.generators[0].iter
        c = n
        while c is not None and c is not comp:
            if c is it:
                return True
            c = self.parent.get(c)
        return False

    def bindings(self, scope):
        """name -> number of binding occurrences directly in this scope."""
        if scope in self._bind:
            return self._bind[scope]
        cnt = {}

        def add(name, k=1):
            cnt[name] = cnt.get(name, 0) + k

        def visit(n, top):
            if not top and isinstance(n, SCOPE_NODES):
                if isinstance(n, (ast.FunctionDef, ast.AsyncFunctionDef, ast.ClassDef)):
                    add(n.name)
                    for d in n.decorator_list:
                        visit(d, False)
                    if not isinstance(n, ast.ClassDef):
                        for d in n.args.defaults + n.args.kw_defaults:
                            if d is not None:
                                visit(d, False)
                elif isinstance(n, (ast.ListComp, ast.SetComp, ast.DictComp, ast.GeneratorExp)):
                    visit(n.generators[0].iter, False)
                return
            if isinstance(n, ast.Name) and isinstance(n.ctx, (ast.Store, ast.Del)):
                add(n.id)
            elif isinstance(n, ast.arg):
                add(n.arg)
            elif isinstance(n, (ast.Global, ast.Nonlocal)):
                for nm in n.names:
                    add(nm, 5)
            elif isinstance(n, ast.alias):
                add((n.asname or n.name).split('.')[0])
            elif isinstance(n, ast.ExceptHandler) and n.name:
                add(n.name)
            for c in ast.iter_child_nodes(n):
                visit(c, False)
        visit(scope, True)
        self._bind[scope] = cnt
        return cnt

    def resolve(self, name, scope):
        """The scope whose binding a Load of `name` in `scope` sees (None: builtin/unbound)."""
        s = scope
        first = True
        while s is not None:
            if not (isinstance(s, ast.ClassDef) and not first) and name in self.bindings(s):
                return s
            first = False
            p = self.parent.get(s)
            while p is not None and not isinstance(p, SCOPE_NODES):
                p = self.parent.get(p)
            s = p
        return None

    def free_names(self, n):
        """Names read in n that are not bound by a lambda/comprehension inside n."""
        out = set()

        def visit(m, bound):
            if isinstance(m, ast.Name):
                if isinstance(m.ctx, ast.Load) and m.id not in bound:
                    out.add(m.id)
                return
            if isinstance(m, ast.Lambda):
                a = m.args
                for d in a.defaults + a.kw_defaults:
                    if d is not None:
                        visit(d, bound)
                visit(m.body, bound | {x.arg for x in a.posonlyargs + a.args + a.kwonlyargs} |
                      ({a.vararg.arg} if a.vararg else set()) | ({a.kwarg.arg} if a.kwarg else set()))
                return
            if isinstance(m, (ast.ListComp, ast.SetComp, ast.DictComp, ast.GeneratorExp)):
                b = set(bound)
                for g in m.generators:
                    visit(g.iter, b)
                    b = b | {t.id for t in ast.walk(g.target) if isinstance(t, ast.Name)}
                    for c in g.ifs:
                        visit(c, b)
                for f in ('elt', 'key', 'value'):
                    if hasattr(m, f):
                        visit(getattr(m, f), b)
                return
            for c in ast.iter_child_nodes(m):
                visit(c, bound)
        visit(n, frozenset())
        return out

    def is_pure(self, n):
        for m in ast.walk(n):
            if isinstance(m, ast.Call):
                if not (isinstance(m.func, ast.Lambda) or isinstance(m.func, ast.Name) and re.match(r'^[hgfl]\d+$', m.func.id)):
                    return False
            elif not isinstance(m, PURE_NODES):
                return False
        return True

    def stmt_of(self, n):
        c = n
        while c is not None and not isinstance(c, ast.stmt):
            c = self.parent.get(c)
        return c

    def is_elif(self, s):
        p = self.parent.get(s)
        return isinstance(s, ast.If) and isinstance(p, ast.If) and p.orelse == [s] and \
            self.lines[s.lineno - 1][s.col_offset:].startswith('elif')

    def evaluated_once(self, n):
        """n is evaluated exactly once, unconditionally, each time its statement starts executing, in the scope
        of that statement (so `tmp = n` right before the statement computes the same value)."""
        if isinstance(getattr(n, 'ctx', None), (ast.Store, ast.Del)):
            return False
        if isinstance(n, (ast.Starred, ast.Slice, ast.FormattedValue)) or not isinstance(n, ast.expr):
            return False
        c, p = n, self.parent.get(n)
        while p is not None and not isinstance(p, ast.stmt):
            if isinstance(p, ast.IfExp) and c is not p.test:
                return False
            if isinstance(p, ast.BoolOp) and c is not p.values[0]:
                return False
            if isinstance(p, ast.Compare) and len(p.ops) > 1 and c in p.comparators[1:]:
                return False
            if isinstance(p, ast.Lambda):
                return False
            if isinstance(p, ast.comprehension):
                pp = self.parent[p]
                if not (c is p.iter and pp.generators[0] is p):
                    return False
            if isinstance(p, (ast.ListComp, ast.SetComp, ast.DictComp, ast.GeneratorExp)) and not isinstance(c, ast.comprehension):
                return False
            if isinstance(p, ast.JoinedStr) and not isinstance(c, ast.FormattedValue):
                return False
            if isinstance(p, (ast.Attribute, ast.Subscript)) and isinstance(p.ctx, (ast.Store, ast.Del)) and False:
                return False
            c, p = p, self.parent.get(p)
        if p is None:
            return False
        if isinstance(p, ast.While) or isinstance(p, ast.Assert) and c is p.msg or self.is_elif(p):
            return False
        if isinstance(p, (ast.FunctionDef, ast.AsyncFunctionDef, ast.ClassDef)):
            return False        # decorators/defaults/bases: keep out of the equivalence clause
        if isinstance(self.scope_of(p), ast.ClassDef):
            return False        # statement directly in a class body: the new name would become an attribute
        return True

    def expr_nodes(self):
        """Every expression node with a source range (Load context), in source order."""
        out = []
        for n in ast.walk(self.tree):
            if isinstance(n, ast.expr) and hasattr(n, 'end_col_offset') and \
                    not isinstance(getattr(n, 'ctx', None), (ast.Store, ast.Del)) and \
                    not isinstance(n, (ast.Slice, ast.Starred)):
                p = self.parent.get(n)
                if isinstance(p, ast.JoinedStr) or isinstance(n, ast.JoinedStr) or isinstance(p, ast.FormattedValue) and n is not p.value:
                    continue
                if n.lineno != n.end_lineno:
                    continue
                out.append(n)
        out.sort(key=lambda n: (n.lineno, n.col_offset, -n.end_col_offset))
        return out

    def seg(self, n):
        return self.lines[n.lineno - 1][n.col_offset:n.end_col_offset]

    # ---- inline side conditions
    def inline_candidates(self):
        """Assign statements with a single Name target: (assign node, target)."""
        out = []
        for n in ast.walk(self.tree):
            if isinstance(n, ast.Assign) and len(n.targets) == 1 and isinstance(n.targets[0], ast.Name):
                out.append(n)
        out.sort(key=lambda n: n.lineno)
        return out

    def references(self, assign):
        """Load occurrences of the assigned name that resolve to the assignment's scope."""
        name = assign.targets[0].id
        sc = self.scope_of(assign.value)
        out = []
        for n in ast.walk(self.tree):
            if isinstance(n, ast.Name) and n.id == name and isinstance(n.ctx, ast.Load) and \
                    self.resolve(name, self.scope_of(n)) is sc:
                out.append(n)
        return out

    def inline_equiv_ok(self, assign):
        """The variable is assigned once, its value is pure and means the same at every reference."""
        name = assign.targets[0].id
        sc = self.scope_of(assign.value)
        if isinstance(sc, ast.ClassDef):
            # a class attribute: assigned once, never stored through an attribute, value built from stable names
            if self.bindings(sc).get(name, 0) != 1 or not self.is_pure(assign.value):
                return False
            if any(isinstance(n, ast.Attribute) and n.attr == name and isinstance(n.ctx, (ast.Store, ast.Del))
                   for n in ast.walk(self.tree)):
                return False
            for f in self.free_names(assign.value):
                rs = self.resolve(f, sc)
                # a sibling class attribute is not in scope where `K.attr` is written
                if rs is None or not isinstance(rs, ast.Module) or self.bindings(rs).get(f, 0) != 1:
                    return False
            return name not in self.free_names(assign.value)
        if self.bindings(sc).get(name, 0) != 1 or not self.is_pure(assign.value):
            return False
        free = self.free_names(assign.value)
        if name in free:
            return False
        for f in free:
            rs = self.resolve(f, sc)
            if rs is None:
                return False
            if self.bindings(rs).get(f, 0) != 1:
                return False
        for r in self.references(assign):
            # no binder between the reference and the variable's scope may capture a free name of the value
            s = self.scope_of(r)
            while s is not None and s is not sc:
                if free & set(self.bindings(s)):
                    return False
                p = self.parent.get(s)
                while p is not None and not isinstance(p, SCOPE_NODES):
                    p = self.parent.get(p)
                s = p
            if s is None:
                return False
            # the reference must come after the definition in the text (single pass programs)
            if (r.lineno, r.col_offset) < (assign.end_lineno, assign.end_col_offset) and self.scope_of(r) is sc:
                return False
        return True

    def extract_equiv_ok(self, n):
        if not self.evaluated_once(n) or not self.is_pure(n):
            return False
        for m in ast.walk(n):
            if isinstance(m, ast.Name) and m.id in (NEW_VAR, NEW_FUNC):
                return False
        return True


# =====================================================================================
# 4. parso tree -> model `expr` (Gallina text), python tokens -> model tokens

class Unsup(Exception):
    pass


BIN_CTOR = {'|': 'BOr', '^': 'BXor', '&': 'BAnd', '<<': 'BShl', '>>': 'BShr', '+': 'BAdd', '-': 'BSub',
            '*': 'BMul', '@': 'BMat', '/': 'BDiv', '%': 'BMod', '//': 'BFloor'}
UN_CTOR = {'-': 'UNeg', '+': 'UPos', '~': 'UInv'}
CMP_CTOR = {'<': 'CLt', '>': 'CGt', '==': 'CEq', '>=': 'CGe', '<=': 'CLe', '!=': 'CNe'}
SYM = {'(': 'LPar', ')': 'RPar', '[': 'LBr', ']': 'RBr', ',': 'Comma', '.': 'Dot', ':': 'Colon',
       'if': 'KIf', 'else': 'KElse', 'or': 'KOr', 'and': 'KAnd', 'not': 'KNot', 'lambda': 'KLambda',
       'for': 'KFor', 'in': 'KIn', '|': 'SBar', '^': 'SCaret', '&': 'SAmp', '<<': 'SShl', '>>': 'SShr',
       '+': 'SPlus', '-': 'SMinus', '*': 'SStar', '@': 'SAt', '/': 'SSlash', '%': 'SPercent', '//': 'SDSlash',
       '~': 'STilde', '**': 'SDStar', '<': 'SLt', '>': 'SGt', '==': 'SEqEq', '>=': 'SGe', '<=': 'SLe', '!=': 'SNe'}
EXPR_TYPES = {'name', 'number', 'atom', 'atom_expr', 'power', 'factor', 'term', 'arith_expr', 'shift_expr',
              'and_expr', 'xor_expr', 'expr', 'comparison', 'not_test', 'and_test', 'or_test', 'test', 'lambdef'}
NARY = {'expr', 'xor_expr', 'and_expr', 'shift_expr', 'arith_expr', 'term'}
PTYPES = {'or_test', 'and_test', 'not_test', 'comparison', 'expr', 'xor_expr', 'and_expr', 'shift_expr',
          'arith_expr', 'term', 'factor', 'power', 'atom_expr', 'test', 'star_expr', 'arglist', 'atom',
          'testlist_comp', 'lambdef', 'expr_stmt', 'return_stmt', 'argument', 'subscript',
          'testlist_star_expr', 'dictorsetmaker'}


class Names:
    def __init__(self):
        self.ids = {}

    def __call__(self, s):
        if s not in self.ids:
            self.ids[s] = len(self.ids)
        return '%d%%N' % self.ids[s]


def _elist(items):
    s = 'ENil'
    for it in reversed(items):
        s = '(ECons %s %s)' % (it, s)
    return s


def conv(n, nm):
    """Gallina term of type expr for a parso expression node; Unsup outside the modelled grammar."""
    t = n.type
    if t == 'name':
        return '(Var %s)' % nm(n.value)
    if t == 'number':
        if not re.fullmatch(r'0|[1-9][0-9]*', n.value):
            raise Unsup('number')
        return '(Num %d%%Z)' % int(n.value)
    if t == 'atom':
        c = n.children
        if c[0].value not in '([' or c[0].type != 'operator':
            raise Unsup('atom')
        par = c[0].value == '('
        if len(c) == 2:
            return '(Tup ENil)' if par else '(Lst ENil)'
        inner = c[1]
        if inner.type == 'testlist_comp':
            ch = inner.children
            if ch[1].type in ('comp_for', 'sync_comp_for'):
                cf = ch[1]
                if par or cf.type != 'sync_comp_for' or cf.children[1].type != 'name':
                    raise Unsup('comprehension')
                elt = conv(ch[0], nm)
                it = conv(cf.children[3], nm)
                v = nm(cf.children[1].value)
                if len(cf.children) == 4:
                    return '(LComp %s %s %s)' % (elt, v, it)
                ci = cf.children[4]
                if ci.type != 'comp_if' or len(ci.children) != 2:
                    raise Unsup('comp_iter')
                return '(LCompIf %s %s %s %s)' % (elt, v, it, conv(ci.children[1], nm))
            if len(ch) % 2 == 0:
                raise Unsup('trailing comma')
            return '(%s %s)' % ('Tup' if par else 'Lst', _elist([conv_elem(e, nm) for e in ch[::2]]))
        if par:
            if inner.type not in EXPR_TYPES:
                raise Unsup('paren ' + inner.type)
            return '(Paren %s)' % conv(inner, nm)
        return '(Lst %s)' % _elist([conv_elem(inner, nm)])
    if t == 'test':
        c = n.children
        return '(Tern %s %s %s)' % (conv(c[0], nm), conv(c[2], nm), conv(c[4], nm))
    if t == 'lambdef':
        c = n.children
        ps = []
        for p in c[1:-2]:
            if p.type != 'param' or p.children[0].type != 'name' or \
                    len(p.children) > 2 or len(p.children) == 2 and p.children[1].value != ',':
                raise Unsup('lambda param')
            ps.append(nm(p.children[0].value))
        return '(Lam %s %s)' % ('[' + '; '.join(ps) + ']' if ps else '(@nil N)', conv(c[-1], nm))
    if t in ('or_test', 'and_test'):
        c = n.children
        acc = conv(c[0], nm)
        for x in c[2::2]:
            acc = '(%s %s %s)' % ('Or' if t == 'or_test' else 'And', acc, conv(x, nm))
        return acc
    if t == 'not_test':
        return '(Not %s)' % conv(n.children[1], nm)
    if t == 'comparison':
        c = n.children
        if len(c) != 3 or c[1].type != 'operator' or c[1].value not in CMP_CTOR:
            raise Unsup('comparison')
        return '(Cmp %s %s %s)' % (CMP_CTOR[c[1].value], conv(c[0], nm), conv(c[2], nm))
    if t in NARY:
        c = n.children
        acc = conv(c[0], nm)
        for op, x in zip(c[1::2], c[2::2]):
            acc = '(Bin %s %s %s)' % (BIN_CTOR[op.value], acc, conv(x, nm))
        return acc
    if t == 'factor':
        return '(Un %s %s)' % (UN_CTOR[n.children[0].value], conv(n.children[1], nm))
    if t == 'power':
        c = n.children
        if len(c) != 3 or c[1].value != '**':
            raise Unsup('power')
        return '(Pow %s %s)' % (conv(c[0], nm), conv(c[2], nm))
    if t == 'atom_expr':
        c = n.children
        if c[0].type == 'keyword':
            raise Unsup('await')
        acc = conv(c[0], nm)
        for tr in c[1:]:
            tc = tr.children
            if tc[0].value == '.':
                acc = '(Attr %s %s)' % (acc, nm(tc[1].value))
            elif tc[0].value == '(':
                if len(tc) == 2:
                    acc = '(Call %s ENil)' % acc
                elif tc[1].type == 'arglist':
                    ch = tc[1].children
                    if len(ch) % 2 == 0 or any(a.type not in EXPR_TYPES for a in ch[::2]):
                        raise Unsup('arglist')
                    acc = '(Call %s %s)' % (acc, _elist([conv(a, nm) for a in ch[::2]]))
                elif tc[1].type in EXPR_TYPES:
                    acc = '(Call %s %s)' % (acc, _elist([conv(tc[1], nm)]))
                else:
                    raise Unsup('argument')
            else:
                if tc[1].type not in EXPR_TYPES or len(tc) != 3:
                    raise Unsup('subscript')
                acc = '(Sub %s %s)' % (acc, conv(tc[1], nm))
        return acc
    raise Unsup(t)


def conv_elem(n, nm):
    if n.type == 'star_expr':
        return '(Star %s)' % conv(n.children[1], nm)
    if n.type not in EXPR_TYPES:
        raise Unsup('element ' + n.type)
    return conv(n, nm)


def conv_rhs(rhs, nm):
    """(is_tuple, Gallina expr).  A bare tuple `a, b` is given as Tup [a; b]."""
    if rhs.type == 'testlist_star_expr':
        ch = rhs.children
        if len(ch) % 2 == 0:
            raise Unsup('trailing comma')
        return True, '(Tup %s)' % _elist([conv_elem(e, nm) for e in ch[::2]])
    if rhs.type not in EXPR_TYPES:
        raise Unsup('rhs ' + rhs.type)
    return False, conv(rhs, nm)


def toks(text, nm):
    """Gallina `list token` of a piece of python text; Unsup on anything the model has no token for."""
    out = []
    try:
        for tk in tokenize.generate_tokens(io.StringIO(text).readline):
            if tk.type in (tokenize.NEWLINE, tokenize.NL, tokenize.ENDMARKER, tokenize.COMMENT,
                           tokenize.INDENT, tokenize.DEDENT):
                continue
            if tk.type == tokenize.NAME:
                out.append('TS %s' % SYM[tk.string] if tk.string in SYM else 'TName %s' % nm(tk.string))
            elif tk.type == tokenize.NUMBER:
                if not re.fullmatch(r'0|[1-9][0-9]*', tk.string):
                    raise Unsup('number token')
                out.append('TNum %d%%Z' % int(tk.string))
            elif tk.type == tokenize.OP and tk.string in SYM:
                out.append('TS %s' % SYM[tk.string])
            else:
                raise Unsup('token %r' % tk.string)
    except (tokenize.TokenError, IndentationError, SyntaxError):
        raise Unsup('tokenize')
    return '[' + '; '.join(out) + ']' if out else '(@nil token)'


def slot_of(m):
    """(ptype constructor, mid, slot level) of the parso expression node m, from its parent."""
    p = m.parent
    t = p.type
    idx = p.children.index(m)
    if t == 'trailer':
        return ('P_trailer_mid' if p.get_next_sibling() is not None else 'P_trailer_last'), False, 1
    if t == 'test':
        return 'P_test', False, (1 if idx == 4 else 2)
    if t in ('or_test', 'and_test'):
        base = 2 if t == 'or_test' else 3
        return 'P_' + t, False, (base if idx == 0 else base + 1)
    if t == 'not_test':
        return 'P_not_test', False, 4
    if t == 'comparison':
        return 'P_comparison', False, 6
    if t in NARY:
        base = {'expr': 6, 'xor_expr': 7, 'and_expr': 8, 'shift_expr': 9, 'arith_expr': 10, 'term': 11}[t]
        return 'P_' + t, False, (base if idx == 0 else base + 1)
    if t == 'factor':
        return 'P_factor', False, 12
    if t == 'power':
        return 'P_power', False, (14 if idx == 0 else 12)
    if t == 'atom_expr':
        return 'P_atom_expr', True, 15
    if t == 'star_expr':
        return 'P_star_expr', False, 6
    if t in ('comp_for', 'sync_comp_for'):
        return 'P_comp_for', False, 2
    if t == 'comp_if':
        return 'P_comp_if', False, 2
    if t == 'dictorsetmaker':
        prev = p.children[idx - 1] if idx > 0 else None
        return 'P_dictorsetmaker', False, (6 if prev is not None and prev.type == 'operator' and prev.value == '**' else 1)
    if t == 'atom':
        return 'P_atom', False, (0 if p.children[0].value == '[' else 1)
    if t in ('testlist_comp', 'testlist_star_expr'):
        return 'P_' + t, False, (1 if t == 'testlist_comp' and len(p.children) > 1 and p.children[1].type in ('comp_for', 'sync_comp_for') else 0)
    if t in PTYPES:
        return 'P_' + t, False, 1
    return 'P_other', False, 1


# =====================================================================================
# 5. worker side: run one refactoring request, apply the oracles, build the model cases

_PROJ = None
INTERNAL = {'trailer', 'arglist', 'testlist_comp', 'star_expr', 'sync_comp_for', 'comp_if'}


_CAPTURED = {}


def _project():
    global _PROJ
    if _PROJ is None:
        import jedi
        import tempfile
        from jedi.api import refactoring as _rf
        _PROJ = jedi.Project(tempfile.mkdtemp(prefix='c06proj_'))
        orig = _rf.inline

        def wrapped(inference_state, names):      # observe the references inline works on (harness-side wrapper)
            names = list(names)
            _CAPTURED['names'] = names
            return orig(inference_state, names)
        if getattr(orig, '__name__', '') != 'wrapped':
            _rf.inline = wrapped
    return _PROJ


def _call(script, kind, line, col, **kw):
    from jedi.api.exceptions import RefactoringError
    try:
        ref = getattr(script, kind)(line, col, **kw)
        files = ref.get_changed_files()
        if len(files) != 1 or ref.get_renames():
            return ('exc', dict(exc='Shape', site=None, msg='changed files %r renames %r' % (list(files), ref.get_renames()), frames=[]))
        return ('ok', list(files.values())[0].get_new_code())
    except RefactoringError as e:
        return ('refused', str(e))
    except RecursionError as e:
        return ('exc', common.exc_sig(e))
    except Exception as e:
        return ('exc', common.exc_sig(e))


def norm_tokens(text, drop_parens=False):
    out = []
    try:
        for tk in tokenize.generate_tokens(io.StringIO(text).readline):
            if tk.type in (tokenize.NEWLINE, tokenize.NL, tokenize.ENDMARKER, tokenize.COMMENT, tokenize.INDENT, tokenize.DEDENT):
                continue
            if drop_parens and tk.type == tokenize.OP and tk.string in '()':
                continue
            out.append(tk.string)
    except (tokenize.TokenError, IndentationError, SyntaxError):
        return None
    return out


def max_convertible(leaf, nm):
    """Largest ancestor expression of the name leaf (on one line) that the model grammar covers."""
    cands = [leaf]
    node = leaf
    while node.parent is not None and node.parent.type in (EXPR_TYPES | INTERNAL):
        node = node.parent
        if node.type in EXPR_TYPES:
            cands.append(node)
    for m in reversed(cands):
        if m.start_pos[0] != m.end_pos[0]:
            continue
        try:
            return m, conv(m, nm)
        except Unsup:
            continue
    return leaf, conv(leaf, nm)


def ptype_name(tree_name):
    t = tree_name.parent.type
    if t == 'trailer':
        return 'P_trailer_mid' if tree_name.parent.get_next_sibling() is not None else 'P_trailer_last'
    if t in ('comp_for', 'sync_comp_for'):
        return 'P_comp_for'
    if t in PTYPES or t == 'comp_if':
        return 'P_' + t
    return 'P_other'


def inline_why(refs, rhs, st):
    """Classifiers (from the input alone) of the known ways in which inline breaks the program."""
    out = []
    suite = st.parent.parent
    if suite.type == 'suite' and len([c for c in suite.children if c.type not in ('newline', 'indent', 'dedent')]) == 1:
        out.append('empty-block')
    loose = rhs.type in ('test', 'lambdef', 'or_test', 'and_test', 'not_test', 'comparison')
    compound = rhs.type in EXPR_TYPES and rhs.type not in ('name', 'number', 'atom', 'atom_expr')
    for tn in refs:
        p = tn.parent
        if p.type == 'dictorsetmaker' and loose:
            i = p.children.index(tn)
            if i > 0 and p.children[i - 1].type == 'operator' and p.children[i - 1].value == '**':
                out.append('dict-splat-bare')
        if p.type == 'fstring_expr':
            first = rhs.get_first_leaf().value
            if rhs.type == 'lambdef' or first == '{':
                out.append('fstring-bare')
        if p.type == 'trailer' and p.children[0].value == '.' and compound:
            out.append('attribute-reference-bare')
    return out


def inline_cases(script, src, new, line, col):
    """Model cases for one successful inline: list of (case text, meta), skipped count, problems."""
    cases, skipped, problems = [], 0, []
    names = _CAPTURED.get('names')
    if names is None:
        return [], 0, ['inline was not reached through jedi.api.refactoring.inline'], []
    tns = [n.tree_name for n in names if n.tree_name is not None]
    defs = [t for t in tns if t.is_definition()]
    refs = sorted((t for t in tns if not t.is_definition()), key=lambda t: t.start_pos)
    if len(defs) != 1:
        return [], 0, [], []
    st = defs[0].get_definition()
    rhs = st.get_rhs()
    why = inline_why(refs, rhs, st)
    if st.start_pos[0] != st.end_pos[0] or st.parent.type != 'simple_stmt' or len(st.parent.children) != 2:
        return [], len(refs), [], why
    dline = st.start_pos[0]
    old_lines = src.split('\n')
    new_lines = new.split('\n')
    xname = defs[0].value
    by_line = {}
    for t in refs:
        by_line.setdefault(t.start_pos[0], []).append(t)
    for L, ts in sorted(by_line.items()):
        if any(t.parent.type == 'trailer' and t.parent.children[0].value == '.' for t in ts):
            skipped += len(ts)      # `K.x` references: the whole attribute access is replaced (not modelled)
            continue
        nm = Names()
        x = nm(xname)
        try:
            is_tuple, r = conv_rhs(rhs, nm)
        except Unsup:
            skipped += len(ts)
            continue
        ms = []
        try:
            for t in ts:
                m, g = max_convertible(t, nm)
                if not any(m is q for q, _ in ms):
                    ms.append((m, g))
        except Unsup:
            skipped += len(ts)
            continue
        if len(ms) != 1 or L == dline:
            skipped += len(ts)
            continue
        m, e = ms[0]
        Ln = L - 1 if L > dline else L
        if not (0 < Ln <= len(new_lines)):
            problems.append('line %d has no counterpart in the new code' % L)
            continue
        ol, nl = old_lines[L - 1], new_lines[Ln - 1]
        pre, suf = ol[:m.start_pos[1]], ol[m.end_pos[1]:]
        if not (nl.startswith(pre) and nl.endswith(suf) and len(nl) >= len(pre) + len(suf)):
            problems.append('text outside the rewritten expression changed: %r -> %r' % (ol, nl))
            continue
        region = nl[len(pre):len(nl) - len(suf)]
        pt, mid, lv = slot_of(m)
        try:
            obs = toks(region, nm)
            oldt = toks(ol[m.start_pos[1]:m.end_pos[1]], nm)
        except Unsup:
            skipped += len(ts)
            continue
        pts = '[' + '; '.join(ptype_name(t) for t in ts) + ']'
        bad_slot = 'dict-splat-bare' in why and pt == 'P_dictorsetmaker' and lv == 6
        case = '(%s, %s, %s, %s, %s, %d, %s, %s, %s, %s, %s)' % (
            g_bool(is_tuple), x, r, pt, g_bool(mid), lv, e, obs, oldt, pts, g_bool(not bad_slot))
        cases.append((case, dict(line=L, old=ol, new=nl, region=region, slot=pt, level=lv, rhs=rhs.get_code(False),
                                 parent_types=[ptype_name(t) for t in ts])))
    return cases, skipped, problems, why


def find_selection(info, text, line, col, ucol=None, uline=None):
    """The ast expression node whose text (modulo parentheses) is `text` and that contains the cursor / lies in
    the selected range."""
    want = norm_tokens(text, True)
    if want is None:
        return None
    best = None
    src_line = info.lines[line - 1] if 0 < line <= len(info.lines) else ''
    for n in info.expr_nodes():
        if n.lineno != line:
            continue
        if norm_tokens(info.seg(n), True) != want:
            continue
        a, b = n.col_offset, n.end_col_offset
        while a > 0 and src_line[a - 1] in '( ':
            a -= 1
        while b < len(src_line) and src_line[b] in ') ':
            b += 1
        if a <= col <= b or (ucol is not None and col <= a and (uline != line or b <= ucol)):
            if best is None or (n.end_col_offset - n.col_offset) > (best.end_col_offset - best.col_offset):
                best = n
    return best


def _stored_names(stmts):
    out = []
    inner = {id(t) for s in stmts for n in ast.walk(s) if isinstance(n, ast.comprehension) for t in ast.walk(n.target)}
    for s in stmts:
        for n in ast.walk(s):
            if isinstance(n, ast.Name) and isinstance(n.ctx, (ast.Store, ast.Del)) and n.id not in out and id(n) not in inner:
                out.append(n.id)
            elif isinstance(n, (ast.FunctionDef, ast.ClassDef)) and n.name not in out:
                out.append(n.name)
    return out


def _loop_ctrl_outside(stmts):
    def visit(n, in_loop):
        if isinstance(n, (ast.Break, ast.Continue)) and not in_loop:
            return True
        if isinstance(n, (ast.FunctionDef, ast.Lambda, ast.ClassDef)):
            return False
        if isinstance(n, (ast.For, ast.While)):
            return any(visit(c, True) for c in n.body) or any(visit(c, in_loop) for c in n.orelse)
        return any(visit(c, in_loop) for c in ast.iter_child_nodes(n))
    return any(visit(s, False) for s in stmts)


def stmt_range_features(info, req):
    """Classifier features of a statement-range selection, computed on `ast` from the input alone."""
    stmts = req['_stmts']
    f = {}
    f['single_simple_no_newline'] = len(stmts) == 1 and not isinstance(
        stmts[0], (ast.If, ast.For, ast.While, ast.FunctionDef, ast.ClassDef, ast.With, ast.Try)) and req['variant'] == 'text-end'
    f['stored'] = _stored_names(stmts)
    f['ends_with_return'] = isinstance(stmts[-1], ast.Return)
    f['has_return'] = any(isinstance(n, ast.Return) for s in stmts for n in ast.walk(s))
    f['loop_ctrl_outside'] = _loop_ctrl_outside(stmts)
    fn = stmts[0]
    while fn is not None and not isinstance(fn, (ast.FunctionDef, ast.Module)):
        fn = info.parent.get(fn)
    inside = {id(n) for s in stmts for n in ast.walk(s)}
    f['loaded_outside'] = sorted({n.id for n in ast.walk(fn) if isinstance(n, ast.Name) and isinstance(n.ctx, ast.Load)
                                  and id(n) not in inside and n.id in f['stored']} |
                                 {n.target.id for n in ast.walk(fn) if isinstance(n, ast.AugAssign) and id(n) not in inside
                                  and isinstance(n.target, ast.Name) and n.target.id in f['stored']})
    f['top_assigned'] = sorted({t.id for s in stmts if isinstance(s, (ast.Assign, ast.AugAssign, ast.AnnAssign))
                                for tt in (s.targets if isinstance(s, ast.Assign) else [s.target])
                                for t in ast.walk(tt) if isinstance(t, ast.Name)})
    f['loaded_inside'] = sorted({n.id for s in stmts for n in ast.walk(s)
                                 if isinstance(n, ast.Name) and isinstance(n.ctx, ast.Load) and n.id in f['stored']} |
                                {n.target.id for s in stmts for n in ast.walk(s)
                                 if isinstance(n, ast.AugAssign) and isinstance(n.target, ast.Name)})
    f['lambda_params'] = sorted({a.arg for s in stmts for n in ast.walk(s) if isinstance(n, ast.Lambda) for a in n.args.args} |
                                {t.id for s in stmts for n in ast.walk(s) if isinstance(n, ast.comprehension)
                                 for t in ast.walk(n.target) if isinstance(t, ast.Name)})
    f['fstring_conv'] = sorted({chr(n.conversion) for s in stmts for n in ast.walk(s)
                                if isinstance(n, ast.FormattedValue) and n.conversion != -1})
    blk = None
    par = info.parent.get(stmts[-1])
    for fld in ('body', 'orelse', 'finalbody'):
        b = getattr(par, fld, None)
        if isinstance(b, list) and stmts[-1] in b:
            blk = b
    # plain reads in the statements that follow the range IN THE SAME SUITE: these are exactly the
    # occurrences _find_needed_output_variables looks at (non-definition names in the following siblings),
    # so a variable read there IS returned by the code as it stands; the listed finding is about reads
    # elsewhere (after the enclosing block, next loop iteration, augmented assignment target)
    following = blk[blk.index(stmts[-1]) + 1:] if blk is not None else []
    f['loaded_in_following_siblings'] = sorted({n.id for st in following for n in ast.walk(st)
                                                if isinstance(n, ast.Name) and isinstance(n.ctx, ast.Load)
                                                and n.id in f['stored']})
    f['single_return_next_line'] = len(stmts) == 1 and isinstance(stmts[0], ast.Return) and req['variant'] == 'next-line'
    f['ends_block_next_line'] = req['variant'] == 'next-line' and blk is not None and blk[-1] is stmts[-1]
    return f


def _new_func_shape(new):
    m = re.search(r'^\s*(.*?) = (?:\w+\.)?%s\(' % NEW_FUNC, new, flags=re.M)
    outs = [x.strip() for x in m.group(1).split(',')] if m else []
    dm = re.search(r'def %s\((.*?)\):' % NEW_FUNC, new)
    params = [x.strip() for x in dm.group(1).split(',')] if dm else []
    return params, outs


def classify_xfun_stmt(feats, status, new, base):
    """why-string for a failing statement-range extraction (None: not a known class)."""
    if status[0] == 'syntax':
        if feats['single_return_next_line'] and re.search(r'def %s\([^)]*\):\n\s*\n\s*return \n' % NEW_FUNC, new):
            return 'whole-return-statement-line-selected'
        if feats['ends_block_next_line'] and re.search(r'def %s\([^)]*\):\n\s*\n\s*return \n' % NEW_FUNC, new):
            return 'range-to-next-line-after-block-end'
        if feats['loop_ctrl_outside']:
            return 'break-continue-leaves-loop'
        if not feats['stored'] and not feats['ends_with_return']:
            return 'no-output-variable'
        if feats['single_simple_no_newline']:
            return 'single-statement-without-newline'
        return None
    params, outs = _new_func_shape(new)
    if status[0] in ('ok', 'exc') and set(feats['lambda_params']) & (set(params) | set(outs)):
        return 'lambda-parameter-treated-as-variable'
    if status[0] == 'exc' and set(feats['fstring_conv']) & set(params):
        return 'fstring-conversion-treated-as-name'
    if status[0] == 'exc' and status[1] in ('UnboundLocalError', 'NameError'):
        mm = re.search(r"variable '(\w+)'|name '(\w+)'", status[2])
        v = mm and (mm.group(1) or mm.group(2))
        if v in outs and len(outs) == 1 and v not in feats['top_assigned'] and v not in feats['loaded_outside'] and not feats['ends_with_return']:
            return 'unneeded-last-variable-returned-though-conditionally-assigned'
        if v in feats['stored'] and v in feats['loaded_inside'] and v not in params:
            return 'assigned-variable-read-in-range-not-passed'
        if v in feats['stored'] and v not in outs and v in feats['loaded_outside'] \
                and v not in feats['loaded_in_following_siblings']:
            return 'assigned-variable-needed-later-not-returned'
        return None
    if status[0] in ('ok', 'exc'):
        missing = [v for v in feats['stored'] if v not in outs and v in feats['loaded_outside']]
        if missing and not any(v in feats['loaded_in_following_siblings'] for v in missing):
            return 'assigned-variable-needed-later-not-returned'
        unpassed = [v for v in feats['stored'] if v in feats['loaded_inside'] and v not in params]
        if unpassed and status[0] == 'exc':
            return 'assigned-variable-read-in-range-not-passed'
    return None


EXPRESSION_PARTS = ('or_test and_test not_test comparison expr xor_expr and_expr shift_expr arith_expr term factor '
                    'power atom_expr').split()


VARIABLE_EXTRACTABLE = EXPRESSION_PARTS + ('atom testlist_star_expr testlist test lambdef lambdef_nocond '
                                           'keyword name number string fstring').split()


def _edge_is_unary(n):
    """jedi trims the first and the last selected child recursively, on both sides: a `factor` reachable that
    way loses its operator."""
    if n.type == 'factor':
        return True
    if n.type in EXPRESSION_PARTS:
        return _edge_is_unary(n.children[0]) or _edge_is_unary(n.children[-1])
    return False


def expr_sel_features(module_node, req, selected_text, new):
    """Classifier features of an expression selection, computed on the parse tree of the input."""
    f = dict(starts_on_keyword_operator=False, unary_edge=False, lambda_params=[], fstring_conv=[], ends_on_operator=False)
    if selected_text:
        try:
            try:
                tr = ast.parse(selected_text.strip(), mode='eval')
            except SyntaxError:
                tr = ast.parse('(' + selected_text.strip() + ')', mode='eval')
            f['fstring_conv'] = sorted({chr(n.conversion) for n in ast.walk(tr)
                                        if isinstance(n, ast.FormattedValue) and n.conversion != -1})
            f['lambda_params'] = sorted({a.arg for n in ast.walk(tr) if isinstance(n, ast.Lambda) for a in n.args.args} |
                                        {t.id for n in ast.walk(tr) if isinstance(n, ast.comprehension)
                                         for t in ast.walk(n.target) if isinstance(t, ast.Name)})
        except SyntaxError:
            pass
    try:    # the selection normalisation is observed, not modelled
        from jedi.api.refactoring import extract as _ex
        nodes = _ex._find_nodes(module_node, (req['line'], req['col']),
                                None if req.get('uline') is None else (req['uline'], req['ucol']))
        f['first_node_type'] = nodes[0].type
        f['is_expression'] = _ex._is_expression_with_error(nodes)[0]
    except Exception:
        f['first_node_type'] = None
    if req.get('uline') is None:
        return f
    pos, until = (req['line'], req['col']), (req['uline'], req['ucol'])
    start = module_node.get_leaf_for_position(pos, include_prefixes=True)
    if start is None:
        return f
    if start.end_pos == pos and start.get_next_leaf() is not None:
        start = start.get_next_leaf()
    end = module_node.get_leaf_for_position(until, include_prefixes=True)
    if end is None:
        return f
    if end.start_pos > until and end.get_previous_leaf() is not None:
        end = end.get_previous_leaf()
    f['starts_on_keyword_operator'] = start.type == 'keyword' and (
        start.value in ('and', 'or', 'in', 'is') or start.value == 'not' and start.parent.type == 'comp_op')
    node = start
    if start.type == 'operator' or start.type == 'keyword' and start.value not in ('None', 'True', 'False'):
        node = start.parent
    while node.parent is not None and node.end_pos < end.end_pos:
        node = node.parent
    if node.type in EXPRESSION_PARTS:
        last = [c for c in node.children if c.start_pos < until]
        f['ends_on_operator'] = bool(last) and last[-1].type == 'operator' and last[-1] is not node.children[0]
    if node.type in EXPRESSION_PARTS and node.type != 'factor':
        sel = [c for c in node.children if c.end_pos > pos and c.start_pos < until and c.type not in ('operator', 'keyword')]
        if sel:
            f['unary_edge'] = _edge_is_unary(sel[0]) or _edge_is_unary(sel[-1])
    return f


def classify_expr_sel(kind, f, status, new):
    if f.get('is_target'):
        return 'assignment-target-extracted'
    if kind == 'xfun' and f.get('first_node_type') is not None and (
            f['first_node_type'] not in VARIABLE_EXTRACTABLE or f.get('is_expression') is False):
        return 'non-expression-selection-treated-as-statements'
    if f['starts_on_keyword_operator']:
        return 'range-starts-on-keyword-operator'
    if f['ends_on_operator']:
        return 'range-ends-on-operator'
    if f['unary_edge']:
        return 'unary-operator-at-selection-edge'
    if kind == 'xfun' and status[0] != 'syntax':
        params, outs = _new_func_shape(new)
        if set(f['lambda_params']) & set(params):
            return 'lambda-parameter-treated-as-variable'
        if set(f['fstring_conv']) & set(params):
            return 'fstring-conversion-treated-as-name'
    return None


def make_requests(info, rng, budget, exhaustive=False):
    reqs = []
    mode = budget.get('mode', 'random')
    # ---- inline
    cands = info.inline_candidates() if mode != 'matrix-extract' else []
    if mode == 'matrix-inline':
        cands = [c for c in cands if c.targets[0].id == 'x']
    if not exhaustive and len(cands) > budget['inline']:
        cands = sorted(rng.sample(cands, budget['inline']), key=lambda n: n.lineno)
    for a in cands:
        eq = info.inline_equiv_ok(a)
        t = a.targets[0]
        reqs.append(dict(kind='inline', line=t.lineno, col=t.col_offset + rng.randint(0, len(t.id)), eq=eq, at='def'))
        refs = info.references(a)
        if refs and (rng.random() < 0.35):
            r = rng.choice(refs)
            reqs.append(dict(kind='inline', line=r.lineno, col=r.col_offset, eq=eq, at='ref'))
    if mode == 'matrix-inline':
        return reqs
    # ---- expression selections
    nodes = info.expr_nodes()
    idx = list(range(len(nodes)))
    if mode == 'matrix-extract':     # only the function under test
        fdef = [n for n in info.tree.body if isinstance(n, ast.FunctionDef) and n.name == 'f'][0]
        idx = [i for i in idx if fdef.body[2].lineno <= nodes[i].lineno <= fdef.end_lineno]
    if not exhaustive and len(idx) > budget['nodes']:
        big = [i for i in idx if not isinstance(nodes[i], (ast.Name, ast.Constant))]
        small = [i for i in idx if isinstance(nodes[i], (ast.Name, ast.Constant))]
        k = budget['nodes']
        pick = rng.sample(big, min(len(big), k * 3 // 4))
        pick += rng.sample(small, min(len(small), k - len(pick)))
        idx = sorted(pick)
    for i in idx:
        n = nodes[i]
        for kind in ('xvar', 'xfun'):
            modes = ['range', 'cursor'] if exhaustive else [rng.choice(['range', 'range', 'cursor'])]
            if kind == 'xfun' and not exhaustive and rng.random() < 0.5:
                continue
            for how in modes:
                if how == 'range':
                    reqs.append(dict(kind=kind, sel='node', node=i, line=n.lineno, col=n.col_offset,
                                     uline=n.end_lineno, ucol=n.end_col_offset))
                else:
                    c = n.col_offset if exhaustive or rng.random() < 0.7 else rng.randint(n.col_offset, n.end_col_offset)
                    reqs.append(dict(kind=kind, sel='cursor', node=i, line=n.lineno, col=c, uline=None, ucol=None))
    # ---- random sub-ranges of an expression: only "refuses or compiles" is demanded unless they hit a node
    tops = [n for n in nodes if not isinstance(info.parent.get(n), ast.expr) and n.end_col_offset - n.col_offset >= 3]
    for _ in range(0 if exhaustive or not tops else budget['random']):
        n = rng.choice(tops)
        c1 = rng.randint(n.col_offset, n.end_col_offset - 1)
        c2 = rng.randint(c1 + 1, n.end_col_offset)
        reqs.append(dict(kind=rng.choice(['xvar', 'xvar', 'xfun']), sel='random', line=n.lineno, col=c1, uline=n.lineno, ucol=c2))
    # ---- statement ranges inside function bodies
    blocks = []
    for fn in ast.walk(info.tree):
        if isinstance(fn, ast.FunctionDef):
            for n in ast.walk(fn):
                for fld in ('body', 'orelse'):
                    b = getattr(n, fld, None)
                    if isinstance(b, list) and b and isinstance(b[0], ast.stmt) and not isinstance(n, ast.ClassDef) \
                            and not info.is_elif(b[0]):
                        blocks.append(b)
    seen = set()
    srs = []
    for b in blocks:
        if id(b) in seen:
            continue
        seen.add(id(b))
        for i in range(len(b)):
            for j in range(i, min(len(b), i + 3)):
                srs.append((b, i, j))
    if mode == 'matrix-extract':
        srs = rng.sample(srs, min(len(srs), 2))
    elif not exhaustive and len(srs) > budget['stmts']:
        srs = rng.sample(srs, budget['stmts'])
    for b, i, j in srs:
        variant = rng.choice(['text-end', 'next-line', 'next-line'])
        uline, ucol = b[j].end_lineno, b[j].end_col_offset
        if variant == 'next-line':
            if uline + 1 > len(info.lines):
                continue
            uline, ucol = uline + 1, 0
        reqs.append(dict(kind='xfun', sel='stmts', line=b[i].lineno, col=b[i].col_offset, uline=uline, ucol=ucol,
                         variant=variant, _stmts=b[i:j + 1]))
    return reqs


def _pub(req):
    return {k: v for k, v in req.items() if not k.startswith('_')}


def _reaches_eof(info, req):
    ul = req.get('uline') or req['line']
    return all(not l.strip() for l in info.lines[ul:])


def _prog_task(task):
    """Runs every request for one program in a worker; returns plain data."""
    import jedi
    pid, src, seed, budget, exhaustive = task
    import random
    rng = random.Random(seed)
    out = dict(pid=pid, src=src, results=[], base=None)
    try:
        info = Info(src)
    except SyntaxError as e:
        out['error'] = 'generated program does not parse: %r' % e
        return out
    base = run_trace(src)
    out['base'] = base
    runs = base[0] == 'ok'      # otherwise only "refuses or compiles" can be checked
    proj = _project()
    nodes = info.expr_nodes()
    for req in make_requests(info, rng, budget, exhaustive):
        res = dict(req=_pub(req), devs=[], inline_cases=[], extract_cases=[], notes=[])
        out['results'].append(res)
        kind = req['kind']
        api = {'inline': 'inline', 'xvar': 'extract_variable', 'xfun': 'extract_function'}[kind]
        try:
            script = jedi.Script(src, project=proj)
        except Exception as e:
            res['outcome'] = 'exc'
            res['devs'].append((dict(stream='exc', kind='Script', **{k: common.exc_sig(e)[k] for k in ('exc', 'site')}),
                                dict(error=common.exc_sig(e)), 'Script() raised'))
            continue
        kw = {}
        if kind != 'inline':
            kw['new_name'] = NEW_VAR if kind == 'xvar' else NEW_FUNC
            if req['uline'] is not None:
                kw['until_line'], kw['until_column'] = req['uline'], req['ucol']
        _CAPTURED.clear()
        outcome, payload = _call(script, api, req['line'], req['col'], **kw)
        res['outcome'] = outcome
        if outcome == 'refused':
            res['message'] = payload
            continue
        if outcome == 'exc':
            sig = dict(stream='exc', kind=api, exc=payload['exc'], site=payload['site'],
                       has_until=req.get('uline') is not None, reaches_eof=_reaches_eof(info, req))
            res['devs'].append((sig, dict(error=payload), '%s raised %s: %s' % (api, payload['exc'], payload['msg'])))
            continue
        new = payload
        res['new'] = new
        # ---- which selection did jedi take, and do the property's side conditions hold for it?
        eq, why, sel_node, feats = False, None, None, None
        if kind == 'inline':
            eq = req['eq']
        elif req['sel'] == 'stmts':
            feats = stmt_range_features(info, req)
            eq = all(info.is_pure(e) for s in req['_stmts'] for e in ast.walk(s)
                     if isinstance(e, ast.expr) and isinstance(info.parent.get(e), ast.stmt)
                     and not isinstance(getattr(e, 'ctx', None), ast.Store)) and \
                not any(isinstance(n, (ast.Global, ast.Nonlocal, ast.Yield, ast.YieldFrom)) for s in req['_stmts'] for n in ast.walk(s))
        else:
            pat = (r'^[ \t]*%s = (.*)$' % NEW_VAR) if kind == 'xvar' else (r'^[ \t]*def %s\(.*\):\n[ \t]*return (.*)$' % NEW_FUNC)
            m = re.search(pat, new, flags=re.M)
            if m:
                res['selected_text'] = m.group(1)
                sel_node = find_selection(info, m.group(1), req['line'], req['col'], req.get('ucol'), req.get('uline'))
                if sel_node is not None:
                    eq = info.extract_equiv_ok(sel_node)
                    if kind == 'xfun':
                        sc = info.scope_of(info.stmt_of(sel_node))
                        eq = eq and isinstance(sc, (ast.FunctionDef, ast.Module))
        eq = eq and runs
        res['eq'] = eq
        status = run_trace(new) if eq else run_trace_compile_only(new)
        res['status'] = status[0]
        stream = kind
        if kind == 'inline':
            cases, skipped, problems, why = inline_cases(script, src, new, req['line'], req['col'])
            res['inline_cases'] = cases
            res['skipped'] = skipped
            for p in problems:
                res['notes'].append(p)
            order = ['empty-block', 'dict-splat-bare', 'fstring-bare', 'attribute-reference-bare'] if status[0] == 'syntax' \
                else ['attribute-reference-bare', 'fstring-bare']
            why = next((w for w in order if w in why), None)
        elif feats is not None:
            why = classify_xfun_stmt(feats, status if eq else (status if status[0] == 'syntax' else ('skip',)), new, base)
        elif status[0] == 'syntax' or eq and status != base:
            fe = expr_sel_features(script._module_node, req, res.get('selected_text'), new)
            want = norm_tokens(res.get('selected_text') or '', True)
            fe['is_target'] = bool(want) and any(
                isinstance(getattr(n, 'ctx', None), (ast.Store, ast.Del)) and n.lineno == req['line'] == n.end_lineno
                and norm_tokens(info.seg(n), True) == want for n in ast.walk(info.tree) if isinstance(n, ast.expr))
            why = classify_expr_sel(kind, fe, status, new)
        if status[0] == 'syntax':
            res['devs'].append((dict(stream=stream, cls='syntax-error', why=why, sel=req.get('sel')),
                                dict(error=status[1:], new_code=new),
                                '%s produced code that does not compile: %s %s' % (api, status[1], status[2])))
            continue
        if eq and status != base:
            res['devs'].append((dict(stream=stream, cls='behaviour-differs', why=why, sel=req.get('sel')),
                                dict(new_code=new, old_trace=base[1][:300], new_run=[x[:300] for x in status]),
                                '%s changed the behaviour of the program for a pure selection' % api))
            continue
        # ---- extract_variable: inline the new variable again
        if kind == 'xvar' and sel_node is not None:
            m = re.search(r'^([ \t]*)%s = ' % NEW_VAR, new, flags=re.M)
            if not m:
                res['notes'].append('no assignment to the new name in the new code')
                continue
            l2 = new.count('\n', 0, m.start()) + 1
            try:
                s2 = jedi.Script(new, project=proj)
            except Exception as e:
                continue
            o2, p2 = _call(s2, 'inline', l2, len(m.group(1)))
            res['roundtrip'] = o2
            if o2 == 'exc':
                res['devs'].append((dict(stream='exc', kind='inline', exc=p2['exc'], site=p2['site'], has_until=False,
                                         reaches_eof=False, phase='roundtrip'), dict(error=p2, extracted_code=new),
                                    'inline of the extracted variable raised %s' % p2['exc']))
            elif o2 == 'refused' and not eq:
                pass
            elif o2 == 'refused':
                # `x = e` then a single use: inline must be possible
                res['devs'].append((dict(stream='roundtrip', cls='inline-refused', message=p2[:60]),
                                    dict(extracted_code=new, message=p2), 'the variable just extracted cannot be inlined again: ' + p2))
            else:
                st2 = run_trace(p2) if eq else run_trace_compile_only(p2)
                if st2[0] == 'syntax':
                    res['devs'].append((dict(stream='roundtrip', cls='syntax-error'), dict(extracted_code=new, final_code=p2, error=st2[1:]),
                                        'extract_variable followed by inline does not compile'))
                elif eq and st2 != base:
                    res['devs'].append((dict(stream='roundtrip', cls='behaviour-differs'),
                                        dict(extracted_code=new, final_code=p2, old_trace=base[1][:300], new_run=[x[:300] for x in st2]),
                                        'extract_variable followed by inline changed the behaviour'))
                else:
                    a, b = norm_tokens(src, True), norm_tokens(p2, True)
                    res['roundtrip_text_same'] = a == b
            # ---- declarative extraction check in the model
            if sel_node is not None:
                c = extract_case(info, script, new, sel_node, res.get('selected_text'))
                if c:
                    res['extract_cases'].append(c)
    return out


def run_trace_compile_only(src):
    warnings.simplefilter('ignore', SyntaxWarning)
    try:
        compile(src, '<prog>', 'exec')
        return ('compiled',)
    except SyntaxError as e:
        return ('syntax', type(e).__name__, '%s (line %s)' % (e.msg, e.lineno))
    except Exception as e:
        return ('syntax', type(e).__name__, str(e)[:80])


def extract_case(info, script, new, n, text):
    """(x, s, c, c') for is_extraction: the largest modelled expression around the selection, before and after."""
    try:
        import parso
        # a fresh parse: the tree of a path-less Script is updated in place by the next path-less Script
        mod = parso.parse(info.src)
        leaf = mod.get_leaf_for_position((n.lineno, n.col_offset), include_prefixes=False)
        if leaf is None:
            return None
        nm = Names()
        x = nm(NEW_VAR)
        # climb from the first leaf of the selection to the largest convertible expression on the line
        node, best = leaf, None
        while node is not None and node.type in (EXPR_TYPES | INTERNAL | {'operator', 'keyword'}):
            if node.type in EXPR_TYPES and node.start_pos[0] == node.end_pos[0] and \
                    node.start_pos[1] <= n.col_offset and node.end_pos[1] >= n.end_col_offset:
                try:
                    best = (node, conv(node, nm))
                except Unsup:
                    pass
            node = node.parent
        if best is None:
            return None
        m, c = best
        import parso
        stext = parso.parse(text + '\n').children[0]
        stext = stext.children[0] if stext.type == 'simple_stmt' else stext
        s = conv(stext, nm)
        ol = info.lines[m.start_pos[0] - 1]
        new_lines = new.split('\n')
        # the assignment is inserted before the statement: the statement itself moves down by one line
        cand = [l for l in (m.start_pos[0] + 1, m.start_pos[0]) if 0 < l <= len(new_lines)]
        pre, suf = ol[:m.start_pos[1]], ol[m.end_pos[1]:]
        for l in cand:
            nl = new_lines[l - 1]
            if nl.startswith(pre) and nl.endswith(suf) and len(nl) >= len(pre) + len(suf) and NEW_VAR in nl[len(pre):len(nl) - len(suf)]:
                region = nl[len(pre):len(nl) - len(suf)]
                rt = parso.parse(region + '\n').children[0]
                rt = rt.children[0] if rt.type == 'simple_stmt' else rt
                c2 = conv(rt, nm)
                return ('(%s, %s, %s, %s)' % (x, s, c, c2), dict(old=ol, new=nl, selected=text))
        return None
    except Unsup:
        return None
    except Exception as e:
        return None


# =====================================================================================
# 6. exhaustive small scope: right-hand-side kinds x reference slots (inline), selections x slots (extract)

# (text, grammar level of the text)
RHS_KINDS = [
    ('a', 15), ('7', 15), ('(a)', 15), ('a if b else c', 1), ('lambda: a', 1), ('lambda q: q + a', 1),
    ('a or b', 2), ('a and b', 3), ('not a', 4), ('a < b', 5), ('a == b', 5), ('a | b', 6), ('a ^ b', 7), ('a & b', 8),
    ('a << 1', 9), ('a + b', 10), ('a - b', 10), ('a * b', 11), ('a // 3', 11), ('a % 3', 11), ('-a', 12), ('~a', 12),
    ('a ** 2', 13), ('h(a)', 14), ('s[0]', 14), ('K.at', 14), ('(a, b)', 15), ('a, b', -1), ('*s, a', -1),
    ('[a, b]', 15), ('[j for j in s]', 15), ('{1: a}', 15), ('{a}', 15), ('d if a else d', 1), ('s or s', 2),
    ('a if b else c if a else b', 1), ('a < b < c', 5), ('a in s', 5), ('a is b', 5), ('not a or b', 2),
]
CRITICAL_RHS = ['a if b else c', 'lambda: a', 'a or b', 'not a', 'a < b', 'a + b', '-a', 'a, b', 'd if a else d', 's or s',
                'a', 'a | b', 'a * b', 'a ** 2', 'h(a)', '(a, b)', '{a}']

# ('{}' marks the slot, grammar level of the slot)
EXPR_SLOTS = [
    ('{}', 1), ('({})', 1), ('{} if b else c', 2), ('a if {} else c', 2), ('a if b else {}', 1),
    ('{} or b', 2), ('a or {}', 3), ('{} and b', 3), ('a and {}', 4), ('not {}', 4), ('{} < b', 6), ('a < {}', 6),
    ('a < {} < c', 6), ('{} in s', 6), ('a in {}', 6), ('{} is b', 6),
    ('{} | b', 6), ('a | {}', 7), ('{} ^ b', 7), ('a ^ {}', 8), ('{} & b', 8), ('a & {}', 9), ('{} << 1', 9), ('a >> {}', 10),
    ('{} + b', 10), ('a + {}', 11), ('{} - b', 10), ('a - {}', 11), ('{} * b', 11), ('a * {}', 12), ('{} // 3', 11),
    ('{} % 3', 11), ('a @ {}', 12), ('-{}', 12), ('~{}', 12), ('+{}', 12), ('{} ** 2', 14), ('2 ** {}', 12),
    ('h({})', 1), ('h({}, a)', 1), ('h(a, {})', 1), ('h(q={})', 1), ('h(a, *{})', 1), ('h(a, **{})', 1), ('h({}).real', 1),
    ('h({})(a)', 1), ('{}(a)', 14), ('{}()', 14), ('{}[0]', 14), ('s[{}]', 1), ('s[{}:2]', 1), ('s[0:{}]', 1), ('s[{}].real', 1),
    ('s[{}, 0]', 1), ('{}.real', 14), ('K.at + {}', 11), ('({}, a)', 0), ('(a, {})', 0), ('[{}]', 0), ('[{}, a]', 0),
    ('[*{}]', 6), ('[*{}, a]', 6), ('(*{}, a)', 6), ('{{{}: a}}', 1), ('{{a: {}}}', 1), ('{{{}}}', 0), ('{{{}, a}}', 0),
    ('{{**{}}}', 6), ('{{**{}, 1: 2}}', 6), ('{{*{}}}', 6),
    ('[j for j in {}]', 2), ('[{} for j in s]', 1), ('[j for j in s if {}]', 2), ('[j for j in s if j < {}]', 6),
    ('[j for j in s for k in {}]', 2), ('(j for j in {})', 2), ('{{j: {} for j in s}}', 1),
    ('lambda: {}', 1), ('lambda q={}: q', 1), ('(lambda: {})()', 1), ("f'{{{}}}'", 1), ("f'{{{}!r:>5}}'", 1),
    ('{} if {} else {}', 2), ('{} + {}', 11), ('h({}, {})', 1), ('(yield {})', 1), ('(z := {})', 1), ('await {}', 15),
]
STMT_SLOTS = [
    ('return {}', 1), ('if {}:\n        pass', 1), ('while {}:\n        break', 1), ('for q in {}:\n        pass', 1),
    ('for q in {}, a:\n        pass', 1), ('assert {}', 1), ('assert a, {}', 1), ('y = z = {}', 1), ('y: int = {}', 1),
    ('y = a\n    y += {}', 1), ('{}', 1), ('y = {}, a', 1), ('y = *{}, a', 6), ('del s[{}]', 1), ('s[{}] = 1', 1),
    ('with {} as z, {}:\n        pass', 1), ('raise {}', 1), ('if a:\n        pass\n    elif {}:\n        pass', 1),
    ('def g(p={}):\n        return p', 1), ('y = [a]\n    y[{}] = 2', 1), ('global gg\n    gg = {}', 1),
]
SEL_KINDS = [('a', 15), ('7', 15), ('a if b else c', 1), ('lambda: a', 1), ('a or b', 2), ('a and b', 3), ('not a', 4),
             ('a < b', 5), ('a | b', 6), ('a + b', 10), ('a + b + c', 10), ('a - b - c', 10), ('a * b', 11), ('-a', 12),
             ('a ** 2', 13), ('h(a)', 14), ('h(a)(b)', 14), ('s[0]', 14), ('K.at', 14), ('(a, b)', 15), ('[a, b]', 15),
             ('[j for j in s]', 15), ('a + -b', 10), ('not a and b', 3), ('a < b < c', 5), ('a in s', 5),
             ('(lambda q: q + a)(b)', 14), ('h(h(a))', 14), ('a*b + c', 10), ('a + b*c', 10)]

MATRIX_HEAD = '''class K:
    at = 5
    bt = at + 1
def h(p=0, q=0, *r, **k):
    return p
def f(a, b, c):
    s = [a, b, c]
    d = {1: a, 2: b}
'''
MATRIX_TAIL = '''trace = [f(1, 2, 3), f(0, 5, 1), f(4, 0, 0), f(2, 2, 0), f(3, 1, 2)]
'''


def _fill(tmpl, text, level, slot_level):
    t = text if level >= slot_level else '(' + text + ')'
    return tmpl.replace('{}', t) if '{{' not in tmpl and '}}' not in tmpl else tmpl.format(*([t] * tmpl.count('{}')))


def matrix_inline_program(rhs, slot, is_stmt):
    body = '    x = %s\n' % rhs
    tmpl, lv = slot
    filled = _fill(tmpl, 'x', 15, lv)
    if is_stmt:
        body += '    ' + filled + '\n    return a\n' if not filled.startswith('return') else '    ' + filled + '\n'
    else:
        body += '    y = %s\n    return y\n' % filled
    return MATRIX_HEAD + body + MATRIX_TAIL


def matrix_extract_program(sel, slot, is_stmt):
    tmpl, lv = slot
    filled = _fill(tmpl, sel[0], sel[1], lv)
    if is_stmt:
        body = '    ' + filled + '\n    return a\n' if not filled.startswith('return') else '    ' + filled + '\n'
    else:
        body = '    y = %s\n    return y\n' % filled
    return MATRIX_HEAD + body + MATRIX_TAIL


def matrix_tasks(ctx):
    """(inline tasks, extract tasks): every slot with the critical right-hand sides (+ a seeded sample of the
    others; all of them in the thorough tier); every slot with a rotating choice of selections."""
    rng = ctx.rng
    warnings.simplefilter('ignore', SyntaxWarning)
    inl, ext = [], []
    slots = [(s, False) for s in EXPR_SLOTS] + [(s, True) for s in STMT_SLOTS]
    rhs_all = [r for r, _ in RHS_KINDS]
    for si, (slot, is_stmt) in enumerate(slots):
        if ctx.quick:
            rs = list(CRITICAL_RHS[:10]) + rng.sample([r for r in rhs_all if r not in CRITICAL_RHS[:10]], 3)
        else:
            rs = rhs_all
        for r in rs:
            src = matrix_inline_program(r, slot, is_stmt)
            try:
                compile(src, '<m>', 'exec')
            except SyntaxError:
                continue      # e.g. `await x` outside async, `yield` with return value checks: not a valid input
            inl.append(('mi:%s|%s' % (r, slot[0]), src, len(inl), dict(mode='matrix-inline'), True))
        k = 2 if ctx.quick else 10
        for j in range(k):
            sel = SEL_KINDS[(si * 7 + j * 11 + ctx.seed) % len(SEL_KINDS)]
            src = matrix_extract_program(sel, slot, is_stmt)
            try:
                compile(src, '<m>', 'exec')
            except SyntaxError:
                continue
            ext.append(('mx:%s|%s' % (sel[0], slot[0]), src, len(ext), dict(mode='matrix-extract'), True))
    return inl, ext


# =====================================================================================
# 7. ev stream: the model's semantics and printer against CPython

class NonInt(Exception):
    pass


def arith_node(rng, d):
    if d <= 0 or rng.random() < 0.2:
        return ('var', rng.choice('abc')) if rng.random() < 0.6 else ('num', rng.randint(0, 6))
    k = rng.choices(['tern', 'or', 'and', 'not', 'cmp', 'bin', 'un', 'pow', 'paren'], [10, 8, 8, 6, 10, 40, 8, 6, 4])[0]
    e = lambda: arith_node(rng, d - 1)
    if k == 'tern':
        return ('tern', e(), e(), e())
    if k in ('or', 'and'):
        return (k, e(), e())
    if k == 'not':
        return ('not', e())
    if k == 'cmp':
        return ('cmp', rng.choice(['<', '>', '==', '>=', '<=', '!=']), e(), e())
    if k == 'bin':
        op = rng.choice(['|', '^', '&', '<<', '>>', '+', '+', '-', '-', '*', '*', '//', '//', '%', '%', '/', '@'])
        if op in ('<<', '>>'):
            return ('bin', op, e(), arith_node(rng, 0) if rng.random() < 0.8 else ('un', '-', ('num', 1)))
        return ('bin', op, e(), e())
    if k == 'un':
        return ('un', rng.choice(['-', '+', '~']), e())
    if k == 'pow':
        return ('pow', arith_node(rng, min(d - 1, 1)), rng.choice([('num', rng.randint(0, 3)), ('var', rng.choice('abc')), ('un', '-', ('num', 1))]))
    return ('paren', e())


def py_ev(n, env):
    """Reference evaluation on ints with Python's own operators; NonInt when an evaluated part is not an int."""
    k = n[0]

    def chk(v):
        if isinstance(v, bool):
            return int(v)
        if not isinstance(v, int):
            raise NonInt()
        return v
    if k == 'var':
        return env[n[1]]
    if k == 'num':
        return n[1]
    if k == 'paren':
        return py_ev(n[1], env)
    if k == 'tern':
        return py_ev(n[2], env) if py_ev(n[1], env) else py_ev(n[3], env)
    if k == 'or':
        return py_ev(n[1], env) or py_ev(n[2], env)
    if k == 'and':
        return py_ev(n[1], env) and py_ev(n[2], env)
    if k == 'not':
        return int(not py_ev(n[1], env))
    import operator as o
    if k == 'cmp':
        f = {'<': o.lt, '>': o.gt, '==': o.eq, '>=': o.ge, '<=': o.le, '!=': o.ne}[n[1]]
        return int(f(py_ev(n[2], env), py_ev(n[3], env)))
    if k == 'bin':
        f = {'|': o.or_, '^': o.xor, '&': o.and_, '<<': o.lshift, '>>': o.rshift, '+': o.add, '-': o.sub, '*': o.mul,
             '//': o.floordiv, '%': o.mod, '/': o.truediv, '@': o.matmul}[n[1]]
        return chk(f(py_ev(n[2], env), py_ev(n[3], env)))
    if k == 'un':
        return chk({'-': o.neg, '+': o.pos, '~': o.invert}[n[1]](py_ev(n[2], env)))
    if k == 'pow':
        return chk(py_ev(n[1], env) ** py_ev(n[2], env))
    raise AssertionError(k)


CHK_EV = '''
Definition chk_ev (c : list (N * Z) * expr * option Z * list token) : list N :=
  let '(rho, e, v, t) := c in
  (if optZ_eqb (ev (env_of rho) e) v then [] else [1%N]) ++
  (if tokens_eqb (print e) t then [] else [2%N]) ++
  (if wf_at 1 e then [] else [3%N]).
'''
CHK_INLINE = '''
Definition chk_inline (c : bool * N * expr * ptype * bool * nat * expr * list token * list token * list ptype * bool) : list N :=
  let '(is_tuple, x, r, pt, mid, lv, e, obs, oldt, pts, fits) := c in
  (if tokens_eqb (inline_text new_rule is_tuple x r pt mid e) obs then [] else [1%N]) ++
  (if ptypes_eqb (parents x pt mid e) pts then [] else [2%N]) ++
  (if tokens_eqb (print e) oldt then [] else [3%N]) ++
  (if wf_at lv e then [] else [4%N]) ++
  (if Bool.eqb (wf_at lv (inline_tree new_rule is_tuple x r pt mid e)) fits then [] else [5%N]) ++
  (if (if is_tuple then wf r else wf_at 1 r) then [] else [6%N]).
Definition chk_extract (c : N * expr * expr * expr) : list N :=
  let '(x, s, c0, c1) := c in if is_extraction x s c0 c1 then [] else [1%N].
'''


def stream_ev(ctx):
    import parso
    rng = ctx.rng
    n = ctx.n(1000, 8000)
    cases, metas = [], []
    kinds = {}
    for _ in range(n):
        node = arith_node(rng, rng.randint(1, 4))
        text = show(node, 1, rng)
        env = {v: rng.randint(-3, 7) for v in 'abc'}
        try:
            exp = py_ev(node, env)
            out = 'int'
        except NonInt:
            exp, out = None, 'non-int'
        except (ZeroDivisionError, ValueError, TypeError, OverflowError) as e:
            exp, out = None, type(e).__name__
        kinds[out] = kinds.get(out, 0) + 1
        # CPython itself
        try:
            real = eval(compile(text, '<e>', 'eval'), {}, dict(env))
            real_k = ('val', real)
        except Exception as e:
            real_k = ('exc', type(e).__name__)
        if exp is not None and not (real_k[0] == 'val' and type(real_k[1]) in (int, bool) and int(real_k[1]) == exp):
            ctx.violation('obligation', dict(what='harness reference evaluator disagrees with CPython', text=text, env=env,
                                             reference=exp, cpython=repr(real_k)), nofail=True)
            continue
        if exp is None and real_k[0] == 'val' and type(real_k[1]) in (int, bool):
            # an evaluated part left the int fragment but the result is an int again (e.g. `not 2 ** -1`): the model says None
            pass
        nm = Names()
        try:
            tree = parso.parse(text + '\n').children[0]
            tree = tree.children[0] if tree.type == 'simple_stmt' else tree
            e = conv(tree, nm)
            tk = toks(text, nm)
        except Unsup as u:
            ctx.violation('obligation', dict(what='serialiser cannot convert a generated arithmetic expression', text=text,
                                             why=str(u)), nofail=True)
            continue
        rho = g_list([(k, v) for k, v in env.items() if k in nm.ids],
                     lambda kv: '(%s, %s)' % (nm(kv[0]), g_Z(kv[1])), 'N * Z')
        cases.append('(%s, %s, %s, %s)' % (rho, e, 'None' if exp is None else '(Some %s)' % g_Z(exp), tk))
        metas.append(dict(text=text, env=env, expected=exp, outcome=out))
        ctx.count('ev', (text, tuple(sorted(env.items()))), nontrivial=len(text) > 3)
    ctx.stat('ev_outcomes', kinds)
    res, err = common.coq_eval_N_lists(IMPORTS, 'chk_ev', cases, shard=700, defs=CHK_EV, timeout=1500)
    if err:
        raise RuntimeError('coq evaluation failed (ev): ' + err)
    names = {1: 'ev (model semantics) differs from CPython', 2: 'print differs from the token sequence of the text',
             3: 'wf_at rejects a tree parso produced'}
    bad = [(i, r) for i, r in enumerate(res) if r]
    for i, r in bad[:5]:
        shown = common.coq_show(IMPORTS, ["let '(rho, e, v, t) := %s in (ev (env_of rho) e, print e)" % cases[i]])
        ctx.violation('obligation', dict(what='correspondence ev/print/wf: ' + '; '.join(names[x] for x in r),
                                         input=metas[i], model=shown[-1500:]), nofail=True)
    if metas:
        ctx.sample(dict(stream='ev', **metas[0]))


# =====================================================================================
# 8. driver

WHAT_KNOWN = {}


def _report(ctx, r, x, sig, data, what):
    data = dict(data)
    data['source'] = r['src']
    data['request'] = x['req']
    ctx.deviation(sig, data, what)


def stream_programs(ctx):
    rng = ctx.rng
    t0 = time.time()
    mi, mx = matrix_tasks(ctx)
    nprog = ctx.n(36, 400)
    budget = dict(mode='random', inline=ctx.n(10, 16), nodes=ctx.n(22, 40), random=ctx.n(8, 14), stmts=ctx.n(8, 14))
    if ctx.cov.get('intensified'):
        nprog *= 2
    progs = []
    tries = 0
    while len(progs) < nprog and tries < nprog * 5:
        tries += 1
        src = Gen(rng).program()
        if run_trace(src)[0] == 'ok':
            progs.append(('p%d' % len(progs), src, rng.randint(0, 10 ** 9), budget, False))
    ctx.stat('generated_programs', dict(kept=len(progs), tried=tries, lines=sum(p[1].count('\n') for p in progs)))
    # big programs first, the many tiny matrix programs fill the gaps
    tasks = progs + mx + mi
    results = common.pmap(_prog_task, tasks, chunksize=1 if len(tasks) < 400 else 3)
    ctx.stat('wall_refactorings', round(time.time() - t0, 1))
    icases, imeta, xcases, xmeta = [], [], [], []
    seen_cases = set()
    outcomes = {}
    rt = dict(ok=0, text_same=0)
    skipped = 0
    for r in results:
        if r.get('error'):
            ctx.violation('obligation', dict(what=r['error'], source=r['src']), nofail=True)
            continue
        fam = 'matrix-inline' if r['pid'].startswith('mi:') else 'matrix-extract' if r['pid'].startswith('mx:') else 'programs'
        for x in r['results']:
            q = x['req']
            stream = {'inline': 'inline', 'xvar': 'extract_variable', 'xfun': 'extract_function'}[q['kind']]
            key = '%s/%s/%s/%s' % (fam, q['kind'], q.get('sel') or q.get('at'), x['outcome'] + ('+run' if x.get('eq') else ''))
            outcomes[key] = outcomes.get(key, 0) + 1
            ctx.count(stream, (r['src'], json.dumps(q, sort_keys=True)), nontrivial=x['outcome'] != 'refused')
            for sig, data, what in x['devs']:
                _report(ctx, r, x, sig, data, what)
            for note in x['notes']:
                ctx.violation('obligation', dict(what='inline correspondence: ' + note, source=r['src'], request=q,
                                                 new_code=x.get('new')), nofail=True)
            skipped += x.get('skipped', 0)
            if x.get('roundtrip') == 'ok':
                rt['ok'] += 1
                if x.get('roundtrip_text_same'):
                    rt['text_same'] += 1
                elif x.get('roundtrip_text_same') is False:
                    ctx.violation('obligation', dict(
                        what='extract_variable followed by inline is not the original text modulo parentheses '
                             '(the model says it is: C06_extract_then_inline_identity); compile and run found no difference',
                        source=r['src'], request=q, extracted_code=x.get('new')), nofail=True)
            for case, meta in x['inline_cases']:
                if case not in seen_cases:
                    seen_cases.add(case)
                    icases.append(case)
                    imeta.append(dict(meta, source=r['src'], request=q, new_code=x.get('new')))
            for case, meta in x['extract_cases']:
                if case not in seen_cases:
                    seen_cases.add(case)
                    xcases.append(case)
                    xmeta.append(dict(meta, source=r['src'], request=q, new_code=x.get('new')))
    ctx.stat('outcomes', dict(sorted(outcomes.items())))
    ctx.stat('roundtrip', rt)
    ctx.stat('inline_references_outside_model_grammar', skipped)
    ctx.stat('model_cases', dict(inline=len(icases), extract=len(xcases)))
    # ---- the model on the same inputs
    t1 = time.time()
    res, err = common.coq_eval_N_lists(IMPORTS, 'chk_inline', icases, shard=500, defs=CHK_INLINE, timeout=1500)
    if err:
        raise RuntimeError('coq evaluation failed (inline): ' + err)
    names = {1: 'inline_text (new_rule) differs from the text jedi wrote', 2: 'parents differs from tree_name.parent.type',
             3: 'print differs from the old text', 4: 'wf_at rejects the old tree in its slot',
             5: 'the model says the new tree does not fit its slot (or fits although the harness expected it not to)',
             6: 'right-hand side not well formed'}
    nbad = 0
    for i, rr in enumerate(res):
        ctx.count('model-inline', icases[i])
        if rr:
            nbad += 1
            if nbad <= 5:
                c = icases[i]
                shown = common.coq_show(IMPORTS, [
                    "let '(is_tuple, x, r, pt, mid, lv, e, obs, oldt, pts, fits) := %s in "
                    "(inline_text new_rule is_tuple x r pt mid e, parents x pt mid e)" % c])
                ctx.violation('obligation', dict(what='correspondence inline: ' + '; '.join(names[k] for k in rr) +
                                                 ' (compile and run of this result found nothing, or were reported separately)',
                                                 input=imeta[i], model=shown[-1500:]), nofail=True)
    res, err = common.coq_eval_N_lists(IMPORTS, 'chk_extract', xcases, shard=1000, defs=CHK_INLINE, timeout=1500)
    if err:
        raise RuntimeError('coq evaluation failed (extract): ' + err)
    nbad = 0
    for i, rr in enumerate(res):
        ctx.count('model-extract', xcases[i])
        if rr:
            nbad += 1
            if nbad <= 5:
                ctx.violation('obligation', dict(what='correspondence extract: the new statement with the selection put back is not '
                                                      'the old statement (is_extraction false)', input=xmeta[i]), nofail=True)
    ctx.stat('wall_model', round(time.time() - t1, 1))
    if imeta:
        m = imeta[len(imeta) // 2]
        ctx.sample(dict(stream='inline', old=m['old'], new=m['new'], slot=m['slot'], rhs=m['rhs'], parent_types=m['parent_types']))
    if xmeta:
        m = xmeta[0]
        ctx.sample(dict(stream='extract', old=m['old'], new=m['new'], selected=m['selected']))


def run(ctx):
    common.setup_jedi(os.path.join(ctx.tmp, 'cache'))
    ctx.proofs()
    fps = common.fingerprint(FP)
    ctx.cov['fingerprints'] = fps
    try:
        base = json.load(open(os.path.join(common.VERIF, 'harness', 'c06_fingerprints.json')))
    except Exception:
        base = None
    ctx.cov['intensified'] = bool(base) and any(base.get(k) != v for k, v in fps.items())
    ctx.cov['rule'] = (
        'ev: seeded arithmetic/boolean/ternary expressions x environments; matrix: every reference slot (%d expression + %d '
        'statement slots) x right-hand-side kinds (critical ones always, the rest sampled/all in thorough) through inline, '
        'every slot x rotating selections through extract_variable/extract_function (cursor-only and range, every sub-expression); '
        'programs: seeded executable programs, inline on every assigned variable, extraction on sampled expression nodes, '
        'random sub-ranges and statement ranges; non-trivial = not refused; distinct by (program, request)'
        % (len(EXPR_SLOTS), len(STMT_SLOTS)))
    ctx.assumptions += [
        'the side conditions of the equivalence clause (pure, evaluated once, names stable, not a target) are decided on `ast` by the harness',
        'which references jedi finds and how it normalises a selection are observed, not modelled',
        'extract_function: input/output analysis and indentation are covered by the compile-and-run oracle only',
        'programs are builtin-light (no None/True/False, no builtin calls); behaviour = the value of the module-level list `trace`',
    ]
    for f in (stream_ev, stream_programs):
        t = time.time()
        f(ctx)
        ctx.stat('wall_' + f.__name__, round(time.time() - t, 1))


def replay(ctx, path):
    rec = json.load(open(path))
    print(json.dumps({k: v for k, v in rec.items() if k not in ('source', 'new_code')}, indent=1, ensure_ascii=False)[:3000])
    common.setup_jedi(os.path.join(ctx.tmp, 'cache'))
    src = rec.get('source') or (rec.get('input') or {}).get('source')
    req = rec.get('request') or (rec.get('input') or {}).get('request')
    if not src or not req:
        return 0
    import jedi
    print('--- source'); print(src)
    api = {'inline': 'inline', 'xvar': 'extract_variable', 'xfun': 'extract_function'}[req['kind']]
    kw = {}
    if req['kind'] != 'inline':
        kw['new_name'] = NEW_VAR if req['kind'] == 'xvar' else NEW_FUNC
        if req.get('uline') is not None:
            kw['until_line'], kw['until_column'] = req['uline'], req['ucol']
    out, payload = _call(jedi.Script(src, project=_project()), api, req['line'], req['col'], **kw)
    print('--- %s(%s, %s, %s) now: %s' % (api, req['line'], req['col'], kw, out))
    print(payload if out != 'ok' else payload)
    if out == 'ok':
        print('--- old run:', run_trace(src)); print('--- new run:', run_trace(payload))
    return 0
