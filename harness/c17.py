"""C17 — every reported source position is faithful to the text.

Streams
  split    parso.utils.split_lines(keepends=True) and Script._code_lines vs the model's
           split_lines / split_lines_parso (exhaustive small alphabet of break-like characters
           + seeded longer strings) and an independent regex splitter
  tree     real parso trees (windows of corpus files; generated sources in LF/CRLF/CR/mixed/
           no-final-newline variants with tabs, form feeds, unicode identifiers, continuation
           lines, multi-line strings) serialised into the model's tree; `consistent`, `names_wf`
           and get_code = source evaluated in Coq (the hypothesis parso must meet)
  names    Script.get_names for all flag combinations, helpers.get_module_names (raw order),
           get_line_code(before, after), definition ranges vs the model's script_names /
           get_module_names / get_line_code / def_range on the serialised tree
  tokens   oracle: get_names(all_scopes, definitions, references) == the identifier tokens
           of CPython's tokenize, each exactly once; is_definition() == binding tokens from ast
  corpus   whole corpus files through get_names + goto / get_references / get_context with the
           text, line, range, token and binding oracles
  api      every Name/Completion/Signature returned by goto / infer / get_references / help /
           complete / get_signatures / search / get_context / parent / defined_names / params
           that points into the buffer, the second project file or a stdlib file: text at
           (line, column) == name, range encloses, get_line_code() == that line (oracle in
           Python, the same clauses by the model in Coq), definition range == model def_range
  special  the known refutations (BOM buffer, match statement, `__x` parameter), reproduced on
           the implementation together with the model's verdict

All Gallina cases are evaluated after the implementation runs, concurrently (run()).
"""
import ast
import io
import json
import keyword
import os
import re
import time
import tokenize
import unicodedata

import common
from common import g_str, g_bool, g_list, g_opt

IMPORTS = 'From JV Require Import Base.Str Model.C17_Positions.\n'

FP = [('jedi/api/classes.py', 'BaseName.line'), ('jedi/api/classes.py', 'BaseName.column'),
      ('jedi/api/classes.py', 'BaseName.get_line_code'),
      ('jedi/api/classes.py', 'BaseName.get_definition_start_position'),
      ('jedi/api/classes.py', 'BaseName.get_definition_end_position'),
      ('jedi/api/classes.py', 'Name.is_definition'),
      ('jedi/api/helpers.py', 'get_module_names'), ('jedi/api/__init__.py', 'Script._names'),
      ('jedi/api/__init__.py', 'Script.get_names'),
      ('jedi/inference/names.py', 'AbstractTreeName.start_pos'),
      ('jedi/parser_utils.py', 'get_parent_scope')]

BOM = '\ufeff'

# ---------------------------------------------------------------------------------------
# independent text oracle (not parso, not the model): lines end after \n, \r\n, lone \r

_LINE_RE = re.compile(r'[^\r\n]*(?:\r\n|\r|\n)|[^\r\n]+\Z')


def oracle_lines(s):
    out = _LINE_RE.findall(s)
    if s == '' or s[-1] in '\r\n':
        out.append('')
    return out


def oracle_pos_of_offset(s, off):
    """(line, col) of character offset `off` (a \r\n pair is never split by callers)."""
    line, start = 1, 0
    for m in re.finditer(r'\r\n|\r|\n', s):
        if m.end() <= off:
            line += 1
            start = m.end()
        else:
            break
    return line, off - start


# ---------------------------------------------------------------------------------------
# program generator: valid Python with many binding forms and layouts

IDENTS = ['a', 'b', 'c', 'foo', 'bar', 'baz', 'x1', 'y2', 'val', 'item', 'été', 'ñu', 'Δ', '変数',
          '_p', '__q', 'match', 'case', 'type', '_', 'data', 'n', 'k', 'v', 'ﬁle']
CLASSES = ['Alpha', 'Beta', 'Gämma', 'Delta']
FUNCS = ['f', 'g', 'hé', 'run', 'make']
MODS = ['os', 'sys', 'json', 'os.path', 'collections.abc', 'xml.dom.minidom']


class Gen:
    def __init__(self, rng):
        self.r = rng
        self.unit = rng.choice(['    ', '    ', '\t', '  ', '\t'])
        self.lines = []
        self.in_func = 0
        self.func_locals = []

    def ident(self):
        return self.r.choice(IDENTS)

    def expr(self, d=0):
        r = self.r
        k = r.randint(0, 13 if d < 2 else 3)
        if k <= 1:
            return self.ident()
        if k == 2:
            return str(r.randint(0, 99))
        if k == 3:
            return r.choice(["'s'", '"t\\n"', "b'x'", "1.5", "f'{%s}'" % self.ident(), "f'{%s!r:>{%s}} z'" % (self.ident(), self.ident())])
        if k == 4:
            return '%s %s %s' % (self.expr(d + 1), r.choice(['+', '-', '*', '<', '==', 'and', 'or', 'in', 'is not']), self.expr(d + 1))
        if k == 5:
            return '%s.%s' % (self.ident(), self.ident())
        if k == 6:
            args = [self.expr(d + 1) for _ in range(r.randint(0, 2))]
            if r.random() < 0.5:
                args.append('%s=%s' % (self.ident(), self.expr(d + 1)))
            return '%s(%s)' % (r.choice(FUNCS + CLASSES + [self.ident()]), ', '.join(args))
        if k == 7:
            return '[%s for %s in %s%s]' % (self.expr(d + 1), self.target(1), self.expr(d + 1),
                                            ' if ' + self.expr(d + 1) if r.random() < 0.4 else '')
        if k == 8:
            return '{%s: %s for %s, %s in %s}' % (self.ident(), self.ident(), self.ident(), self.ident(), self.expr(d + 1))
        if k == 9:
            ps = r.sample(IDENTS, r.randint(0, 2))
            return '(lambda %s: %s)' % (', '.join(ps), self.expr(d + 1))
        if k == 10:
            return '(%s if %s else %s)' % (self.expr(d + 1), self.expr(d + 1), self.expr(d + 1))
        if k == 11:
            return '(%s := %s)' % (self.ident(), self.expr(d + 1))
        if k == 12:
            return '%s[%s:%s]' % (self.ident(), self.expr(d + 1), self.ident())
        return '(%s,\n%s %s)' % (self.expr(d + 1), ' ' * r.randint(0, 6), self.expr(d + 1))

    def target(self, d=0):
        r = self.r
        k = r.randint(0, 7 if d == 0 else 2)
        if k <= 2:
            return self.ident()
        if k == 3:
            return '%s, %s' % (self.ident(), self.ident())
        if k == 4:
            return '(%s, [%s, *%s])' % (self.ident(), self.ident(), self.ident())
        if k == 5:
            return '%s.%s' % (self.ident(), self.ident())
        if k == 6:
            return '%s[%s]' % (self.ident(), self.ident())
        return '%s.%s.%s' % (self.ident(), self.ident(), self.ident())

    def params(self):
        r = self.r
        ids = r.sample(IDENTS, r.randint(0, 5))
        out = []
        for i, p in enumerate(ids):
            s = p
            if r.random() < 0.25:
                s += ': ' + r.choice(['int', 'str', self.ident()])
            if r.random() < 0.3:
                s += (' = ' if ':' in s else '=') + self.expr(2)
            out.append(s)
        # defaults must be trailing: drop defaults that precede a non-default
        seen_default = False
        fixed = []
        for s in out:
            if '=' in s:
                seen_default = True
            elif seen_default:
                s += '=0'
            fixed.append(s)
        out = fixed
        if out and r.random() < 0.2:
            out.insert(r.randint(1, len(out)), '/')
        if r.random() < 0.3:
            out.append(r.choice(['*args', '*', '*' + self.ident()]) if True else '')
            if out[-1] == '*':
                out.append(self.ident() + '=1')
            elif r.random() < 0.5:
                out.append(self.ident() + '=2')
        if r.random() < 0.25:
            out.append('**' + r.choice(['kw', 'kwargs', self.ident()]))
        # no duplicate parameter names
        names, res = set(), []
        for s in out:
            nm = re.match(r'\**\s*(\w*)', s).group(1)
            if nm and nm in names:
                continue
            names.add(nm)
            res.append(s)
        if res and res[-1] == '*':
            res.pop()
        if res and res[0] == '/':
            res.pop(0)
        res = [s for i, s in enumerate(res) if not (s == '*' and (i + 1 >= len(res) or res[i + 1].startswith('**')))]
        return ', '.join(res)

    def emit(self, ind, text):
        pre = self.unit * ind
        r = self.r
        if r.random() < 0.06:
            self.lines.append(pre + '# comment ' + self.ident())
        if ind == 0 and r.random() < 0.05:
            self.lines.append('\f')
        if ind == 0 and r.random() < 0.04:
            pre = '\f' + pre
        if r.random() < 0.08:
            text = text.replace(' = ', ' = \\\n' + ' ' * r.randint(0, 5), 1)
        if r.random() < 0.05:
            text = text.replace(' = ', ' =\f', 1)
        parts = text.split('\n')
        self.lines.append(pre + parts[0] + (('  # ' + self.ident()) if r.random() < 0.05 and not text.endswith('\\') and len(parts) == 1 else ''))
        self.lines.extend(parts[1:])

    def simple(self, ind):
        r = self.r
        k = r.randint(0, 17)
        if k <= 2:
            self.emit(ind, '%s = %s' % (self.target(), self.expr()))
        elif k == 3:
            self.emit(ind, '%s = %s = %s' % (self.target(), self.ident(), self.expr()))
        elif k == 4:
            self.emit(ind, '%s %s %s' % (r.choice([self.ident(), '%s.%s' % (self.ident(), self.ident())]), r.choice(['+=', '-=', '|=', '//=']), self.expr()))
        elif k == 5:
            self.emit(ind, '%s: %s%s' % (self.ident(), r.choice(['int', 'str', self.ident()]), ' = ' + self.expr() if r.random() < 0.6 else ''))
        elif k == 6:
            m = r.choice(MODS)
            self.emit(ind, 'import %s%s' % (m, ' as ' + self.ident() if r.random() < 0.4 else ''))
        elif k == 7:
            m = r.choice(['os', 'os.path', 'collections', '.', '..pkg', '.sib'])
            names = ['%s%s' % (n, ' as ' + self.ident() if r.random() < 0.4 else '') for n in r.sample(['path', 'sep', 'join', 'abc', 'deque'], r.randint(1, 3))]
            if r.random() < 0.3:
                self.emit(ind, 'from %s import (%s,\n%s%s)' % (m, names[0], self.unit * (ind + 1), ', '.join(names[1:] or ['getcwd'])))
            else:
                self.emit(ind, 'from %s import %s' % (m, ', '.join(names)))
        elif k == 8:
            self.emit(ind, 'import %s, %s as %s' % (r.choice(MODS), r.choice(MODS), self.ident()))
        elif k == 9:
            self.emit(ind, 'del %s' % r.choice([self.ident(), '%s, %s' % (self.ident(), self.ident()), '%s.%s' % (self.ident(), self.ident()), '%s[0]' % self.ident()]))
        elif k == 10:
            self.emit(ind, self.expr())
        elif k == 11:
            self.emit(ind, '%s = """doc %s\n  second line\n%s"""' % (self.ident(), self.ident(), self.ident()))
        elif k == 12:
            self.emit(ind, '%s = 1; %s = %s; %s' % (self.ident(), self.ident(), self.ident(), self.expr(2)))
        elif k == 13 and self.in_func:
            self.emit(ind, r.choice(['return %s', 'yield %s', '%s = yield %%s' % self.ident(), 'raise %s']) % self.expr())
        elif k == 14:
            self.emit(ind, 'assert %s, %s' % (self.expr(), self.expr(2)))
        elif k == 15:
            self.emit(ind, 'print(%s, sep=%s)' % (self.expr(), self.ident()))
        elif k == 16:
            self.emit(ind, '%s = %s' % (self.ident(), 'r"""raw\n\\n"""' if r.random() < 0.5 else "'a' \\\n" + self.unit * (ind + 1) + "'b'"))
        else:
            self.emit(ind, 'pass')

    def block(self, ind, depth):
        n = self.r.randint(1, 3)
        for _ in range(n):
            self.stmt(ind, depth)

    def stmt(self, ind, depth):
        r = self.r
        k = r.randint(0, 21) if depth < 3 else 0
        if k <= 8:
            self.simple(ind)
        elif k <= 10:
            for _ in range(r.randint(0, 2)):
                self.emit(ind, '@%s' % r.choice([self.ident(), '%s.%s' % (self.ident(), self.ident()), '%s(%s)' % (self.ident(), self.expr(2))]))
            is_async = r.random() < 0.2
            ret = ' -> ' + r.choice(['int', self.ident()]) if r.random() < 0.3 else ''
            self.emit(ind, '%sdef %s(%s)%s:' % ('async ' if is_async else '', r.choice(FUNCS + [self.ident()]), self.params(), ret))
            self.in_func += 1
            if r.random() < 0.3:
                self.emit(ind + 1, '"""docstring of %s."""' % self.ident())
            if r.random() < 0.25 and self.in_func > 1:
                self.emit(ind + 1, 'nonlocal zz_outer')
            elif r.random() < 0.25:
                self.emit(ind + 1, 'global %s' % ', '.join(r.sample(['g_one', 'g_two', 'g_three'], r.randint(1, 2))))
            if is_async and r.random() < 0.6:
                self.emit(ind + 1, r.choice(['await %s' % self.expr(2), 'async for %s in %s: pass' % (self.target(1), self.ident()),
                                            'async with %s as %s: pass' % (self.ident(), self.ident())]))
            if self.in_func == 1 and r.random() < 0.5:
                self.emit(ind + 1, 'zz_outer = 0')
            self.block(ind + 1, depth + 1)
            self.in_func -= 1
        elif k <= 12:
            bases = r.sample(CLASSES + ['object'], r.randint(0, 2))
            if r.random() < 0.2:
                bases.append('metaclass=%s' % self.ident())
            saved, self.in_func = self.in_func, 0
            self.emit(ind, 'class %s%s:' % (r.choice(CLASSES), '(%s)' % ', '.join(bases) if bases or r.random() < 0.2 else ''))
            self.block(ind + 1, depth + 1)
            self.in_func = saved
        elif k == 13:
            self.emit(ind, 'for %s in %s:' % (self.target(), self.expr()))
            self.block(ind + 1, depth + 1)
            if r.random() < 0.3:
                self.emit(ind, 'else:')
                self.block(ind + 1, depth + 1)
        elif k == 14:
            self.emit(ind, 'while %s:' % self.expr())
            self.block(ind + 1, depth + 1)
        elif k == 15:
            self.emit(ind, 'if %s:' % self.expr())
            self.block(ind + 1, depth + 1)
            if r.random() < 0.5:
                self.emit(ind, 'elif %s:' % self.expr())
                self.block(ind + 1, depth + 1)
            if r.random() < 0.5:
                self.emit(ind, 'else:')
                self.block(ind + 1, depth + 1)
        elif k <= 17:
            items = ['%s%s' % (self.expr(2), ' as ' + self.target(r.choice([0, 1])) if r.random() < 0.7 else '') for _ in range(r.randint(1, 2))]
            self.emit(ind, 'with %s:' % ', '.join(items))
            self.block(ind + 1, depth + 1)
        elif k <= 19:
            self.emit(ind, 'try:')
            self.block(ind + 1, depth + 1)
            for _ in range(r.randint(0, 2)):
                exc = r.choice(['ValueError', '(KeyError, %s)' % self.ident(), '%s.%s' % (self.ident(), self.ident())])
                self.emit(ind, 'except %s%s:' % (exc, ' as ' + self.ident() if r.random() < 0.6 else ''))
                self.block(ind + 1, depth + 1)
            self.emit(ind, r.choice(['finally:', 'except:']))
            self.block(ind + 1, depth + 1)
        elif k == 20:
            self.emit(ind, 'if %s: %s = %s' % (self.expr(2), self.ident(), self.expr(2)))
        else:
            self.emit(ind, 'for %s in %s: %s' % (self.ident(), self.ident(), r.choice(['pass', 'continue', '%s = %s' % (self.ident(), self.ident())])))

    def program(self, nstmts):
        for _ in range(nstmts):
            self.stmt(0, 0)
        return '\n'.join(self.lines) + '\n'


def gen_valid_program(rng, nstmts):
    """(source with LF line ends, number of discarded attempts)"""
    tries = 0
    while True:
        src = Gen(rng).program(nstmts)
        try:
            ast.parse(src)
            return src, tries
        except (SyntaxError, ValueError):
            tries += 1
            if tries > 200:
                raise RuntimeError('generator produces no valid program')


def variants(rng, src):
    """Line-ending variants of an LF source; positions (line, col) of all tokens are the
    same in every variant (each \\n is replaced by exactly one line break)."""
    out = [('lf', src), ('crlf', src.replace('\n', '\r\n')), ('cr', src.replace('\n', '\r'))]
    mixed, prev_cr = [], False
    for i, ch in enumerate(src):
        if ch != '\n':
            mixed.append(ch)
            prev_cr = False
            continue
        choices = ['\n', '\r\n', '\r']
        if prev_cr:                      # "\r" + "\n" would fuse into one break
            choices = ['\r\n', '\r']
        e = rng.choice(choices)
        mixed.append(e)
        prev_cr = e == '\r'
    m = ''.join(mixed)
    out.append(('mixed', m))
    out.append(('nofinal', m.rstrip('\r\n') if rng.random() < 0.5 else src.rstrip('\n')))
    return out


# ---------------------------------------------------------------------------------------
# oracles from CPython: identifier tokens (tokenize) and binding tokens (ast)

def _char_col(line_text, byte_col):
    return len(line_text.encode('utf8')[:byte_col].decode('utf8', 'replace'))


def _nfkc(s):
    return unicodedata.normalize('NFKC', s)     # CPython normalises identifiers in the ast


def identifier_tokens(src_lf):
    """[(line, col, text)] of NAME tokens that are not keywords.  (Soft keywords are
    identifiers everywhere except at the head of match/case/type statements, which the
    callers exclude.)"""
    out = []
    for t in tokenize.generate_tokens(io.StringIO(src_lf).readline):
        if t.type == tokenize.NAME and not keyword.iskeyword(t.string):
            out.append((t.start[0], t.start[1], t.string))
    return out


def binding_tokens(src_lf, toks):
    """Set of (line, col) of identifier tokens that bind (Python reference 4.2.1 plus
    attribute targets): Store/Del Name contexts, attribute targets (the attribute token),
    def/class names, parameters, import aliases (bound name), except-as names, walrus.
    global/nonlocal declarations bind nothing."""
    tree = ast.parse(src_lf)
    lines = src_lf.split('\n')
    tokpos = sorted((l, c) for (l, c, s) in toks)
    by_line = {}
    for (l, c, s) in toks:
        by_line.setdefault(l, []).append((c, s))
    out = set()

    def cc(lineno, byte_col):
        return _char_col(lines[lineno - 1], byte_col)

    def last_name_token_before(end, text):
        best = None
        for (l, c, s) in toks:
            if (l, c) < end and _nfkc(s) == text:
                best = (l, c)
        if best is None:
            raise AssertionError('token %r not found before %r' % (text, end))
        return best

    for node in ast.walk(tree):
        if isinstance(node, ast.Name) and isinstance(node.ctx, (ast.Store, ast.Del)):
            out.add((node.lineno, cc(node.lineno, node.col_offset)))
        elif isinstance(node, ast.Attribute) and isinstance(node.ctx, (ast.Store, ast.Del)):
            end = (node.end_lineno, cc(node.end_lineno, node.end_col_offset))
            out.add(last_name_token_before(end, node.attr))
        elif isinstance(node, (ast.FunctionDef, ast.AsyncFunctionDef, ast.ClassDef)):
            out.add(_def_name_token(toks, src_lf, node, cc))
        elif isinstance(node, ast.arg):
            out.add((node.lineno, cc(node.lineno, node.col_offset)))
        elif isinstance(node, ast.alias):
            if node.name == '*':
                continue
            if node.asname:
                end = (node.end_lineno, cc(node.end_lineno, node.end_col_offset))
                out.add(last_name_token_before(end, node.asname))
            else:
                out.add((node.lineno, cc(node.lineno, node.col_offset)))   # `import a.b` binds a
        elif isinstance(node, ast.MatchAs) and node.name:
            end = (node.end_lineno, cc(node.end_lineno, node.end_col_offset))
            out.add(last_name_token_before((end[0], end[1]), node.name))
        elif isinstance(node, ast.MatchStar) and node.name:
            end = (node.end_lineno, cc(node.end_lineno, node.end_col_offset))
            out.add(last_name_token_before(end, node.name))
        elif isinstance(node, ast.MatchMapping) and node.rest:
            end = (node.end_lineno, cc(node.end_lineno, node.end_col_offset))
            out.add(last_name_token_before(end, node.rest))
        elif isinstance(node, ast.ExceptHandler) and node.name:
            # `except E as name:` — the token right before the ':' that opens the body
            body0 = node.body[0]
            end = (body0.lineno, cc(body0.lineno, body0.col_offset))
            out.add(last_name_token_before(end, node.name))
    return out


def _def_name_token(toks, src_lf, node, cc):
    """the identifier token following the `def` / `class` keyword of this node"""
    start = (node.lineno, cc(node.lineno, node.col_offset))
    for (l, c, s) in toks:
        if (l, c) > start and _nfkc(s) == node.name:
            return (l, c)
    raise AssertionError('def name token not found')


# ---------------------------------------------------------------------------------------
# serialising parso trees for the model

def module_scope_flag(leaf, module):
    """Re-implementation (by position) of `get_parent_scope(name) in (module, None)`."""
    node = leaf
    scope = node.parent
    while scope is not None:
        t = scope.type
        is_scope = t in ('file_input', 'classdef', 'funcdef', 'lambdef', 'sync_comp_for') or \
            (t == 'comp_for' and scope.children[1].type != 'sync_comp_for')
        if is_scope:
            if t in ('classdef', 'funcdef', 'lambdef'):
                colon = next(c for c in scope.children if c.type == 'operator' and c.value == ':')
                if colon.start_pos >= leaf.start_pos:
                    par = leaf.parent
                    if par.type == 'param' and par.name is leaf:
                        return False
                    if par.type == 'tfpdef' and par.children[0] is leaf:
                        return False
                    scope = scope.parent
                    continue
            return t == 'file_input'
        scope = scope.parent
    return True


def leaf_kind(lf, module):
    if lf.type == 'name':
        return '(KName %s %s)' % (g_bool(lf.is_definition()), g_bool(module_scope_flag(lf, module)))
    if lf.type == 'newline':
        return 'KNewline'
    return 'KOther'


def ser_tree(node, module):
    if hasattr(node, 'children'):
        return 'Node [' + '; '.join(ser_tree(c, module) for c in node.children) + ']'
    return 'Leaf (L %s %s %s %d %d)' % (leaf_kind(node, module), g_str(node.prefix), g_str(node.value),
                                        node.start_pos[0], node.start_pos[1])


def ser_leaf(lf, module):
    return 'L %s %s %s %d %d' % (leaf_kind(lf, module), g_str(lf.prefix), g_str(lf.value),
                                 lf.start_pos[0], lf.start_pos[1])


def iter_leaves(node):
    lf = node.get_first_leaf()
    last = node.get_last_leaf()
    while lf is not None:
        yield lf
        if lf is last:
            return
        lf = lf.get_next_leaf()


def node_path(node):
    path = []
    while node.parent is not None:
        path.append(node.parent.children.index(node))
        node = node.parent
    return list(reversed(path))


def has_error_nodes(module):
    stack = [module]
    while stack:
        n = stack.pop()
        if n.type in ('error_node', 'error_leaf'):
            return True
        stack.extend(getattr(n, 'children', ()))
    return False


# ---------------------------------------------------------------------------------------
# programs for the api stream: builtin-light, richly cross-referenced, second project file

AUX_NAME = 'helper_mod'


def gen_aux_module(rng):
    unit = rng.choice(['    ', '\t'])
    cls = rng.choice(['Helper', 'Hélper', 'Tool'])
    fn = rng.choice(['helper_func', 'aide', 'compute'])
    meth = rng.choice(['go', 'run_it', 'étape'])
    src = ('# helper module\n'
           'CONST = 3\n'
           '\f\n' * rng.randint(0, 1) +
           'class %s:\n%sattr = 1\n%sdef %s(self, amount, *rest, flag=0):\n%sself.kept = amount\n%sreturn self\n'
           % (cls, unit, unit, meth, unit * 2, unit * 2) +
           'def %s(first, second=2):\n%sresult = %s()\n%sreturn result\n' % (fn, unit, cls, unit) +
           'value = \\\n  %s(1)\n' % fn)
    return src, dict(cls=cls, fn=fn, meth=meth)


def gen_api_program(rng, aux):
    unit = rng.choice(['    ', '\t', '  '])
    ids = rng.sample(['alpha', 'beta', 'gamma', 'delta', 'été', 'ñu', 'item', 'val', 'data', 'ﬁle', 'Δ', 'k9'], 8)
    C, F, M = rng.choice(['Alpha', 'Bêta', 'Node']), rng.choice(['make', 'build', 'créer']), rng.choice(['method', 'step', 'avance'])
    p, q, obj, res, lam, loc, at, it = ids
    L = []
    L.append('from %s import %s, %s as hf' % (AUX_NAME, aux['cls'], aux['fn']) if rng.random() < 0.7 else
             'from %s import (%s,\n%s%s as hf)' % (AUX_NAME, aux['cls'], unit, aux['fn']))
    L.append('import %s' % AUX_NAME)
    if rng.random() < 0.4:
        L.append('\f')
    L.append('def deco(fn):\n%sreturn fn' % unit)
    L.append('class %s:' % C)
    L.append('%s%s = 1' % (unit, at))
    if rng.random() < 0.5:
        L.append('%s@deco' % unit)
    L.append('%sdef %s(self, %s, %s=2, *more, **opts):' % (unit, M, p, q))
    L.append('%s"""Doc of %s."""' % (unit * 2, M))
    L.append('%sself.inst = %s' % (unit * 2, p))
    L.append('%sreturn self.inst' % (unit * 2))
    L.append('%sdef other(self):\n%sreturn self.%s(self.%s)' % (unit, unit * 2, M, at))
    L.append('@deco')
    L.append('def %s(%s, *args, **kw):' % (F, p))
    L.append('%s%s = %s()' % (unit, obj, C))
    L.append('%s%s.%s(%s, %s=3)' % (unit, obj, M, p, q))
    L.append('%sfor %s in args:\n%s%s = %s' % (unit, it, unit * 2, loc, it))
    L.append('%sreturn %s' % (unit, obj))
    cont = rng.choice([' \\\n   ', ' ', '\\\n'])
    L.append('%s =%s%s(1, 2)' % (res, cont, F))
    L.append('%s.%s(hf(1),\n      %s().%s(2, flag=1))' % (res, M, aux['cls'], aux['meth']))
    L.append('%s = lambda %s, %s=1: %s' % (lam, p, q, p))
    L.append('%s(%s.%s, %s=%s)' % (lam, res, at, q, res))
    L.append('%s = [%s for %s in (%s, %s)]' % (loc, it, it, res, lam))
    L.append('with %s as %s, %s.%s(4) as (%s, %s):\n%spass' % (res, it, AUX_NAME, aux['fn'], p, q, unit))
    L.append('try:\n%s%s = %s.CONST\nexcept (KeyError, ValueError) as %s:\n%sdel %s' % (unit, at, AUX_NAME, loc, unit, loc))
    L.append('%s = """text\n%s\n""" ; %s = %s' % (it, p, q, res))
    L.append("print(f'{%s!r} and {%s.%s}')" % (res, res, at))
    L.append('%s.%s(' % (res, M))          # open call at the end: signatures + completion
    return '\n'.join(L) + '\n'


# ---------------------------------------------------------------------------------------
# the worker: run the real jedi on one source and collect everything observable

COMBOS = [(True, True, True), (True, True, False), (True, False, True),
          (False, True, True), (False, True, False), (False, False, True)]

def is_env_crash(sig):
    """K1-K4 of DESIGN section E (absent typeshed): C01's listed findings, skipped here."""
    site, exc, frames = sig.get('site') or '', sig.get('exc'), sig.get('frames') or []
    if exc == 'RecursionError':
        return 'get_filters' in site or 'get_filters' in frames
    if exc in ('AttributeError', 'UncaughtAttributeError'):     # the latter is jedi's re-raise wrapper
        return "'CompiledModule' object has no attribute 'non_stub_value_set'" in (sig.get('msg') or '')
    if exc == 'ValueError':
        return site.endswith('iterable.py:_get_cls') or site.endswith('function.py:py__class__')
    if exc == 'AssertionError':
        return site.endswith('klass.py:get_filters')
    return False


def accessor_sig(e):
    """Signature of an exception raised by a position accessor of a returned object."""
    sig = dict(stream='accessor', exc=e['sig']['exc'], site=e['sig']['site'])
    if e['sig']['exc'] == 'AttributeError' and "'NamespaceContext' object has no attribute 'code_lines'" in (e['sig'].get('msg') or ''):
        sig['cls'] = 'namespace-has-no-code-lines'
    return sig


def safe_describe(obj, via, path, aux_path, out):
    """_describe, with the environment crash classes skipped and anything else recorded."""
    try:
        return _describe(obj, via, path, aux_path)
    except Exception as e:
        sig = common.exc_sig(e)
        if is_env_crash(sig):
            out['skipped'] = out.get('skipped', 0) + 1
            k = '%s@%s' % (sig['exc'], sig['site'])
            out.setdefault('skipped_sites', {})
            out['skipped_sites'][k] = out['skipped_sites'].get(k, 0) + 1
        else:
            out.setdefault('errors', []).append(dict(via=via, sig=sig, obj=repr(obj)[:80]))
        return None


def _pos_or_none(p):
    return None if p is None else (p[0], p[1])


def _describe(obj, via, path, aux_path):
    """Everything C17 talks about, read off one Name/Completion/Signature/ParamName."""
    mp = obj.module_path
    mp = None if mp is None else str(mp)
    where = 'buffer' if (mp == path if path else (mp is None)) else ('aux' if aux_path and mp == aux_path else ('none' if mp is None else 'file'))
    d = dict(via=via, where=where, module_path=mp if where == 'file' else None,
             line=obj.line, column=obj.column, name=obj.name, type=obj.type,
             line_code=obj.get_line_code(), def_start=_pos_or_none(obj.get_definition_start_position()),
             def_end=_pos_or_none(obj.get_definition_end_position()),
             is_def=obj.is_definition() if hasattr(obj, 'is_definition') else None,
             has_tree_name=getattr(obj._name, 'tree_name', None) is not None)
    return d


def analyse(task):
    """Runs in a forked worker.  task: dict(code, path, aux_path, probes, api, sid)."""
    import jedi
    from jedi.api import helpers
    code, path, aux_path = task['code'], task.get('path'), task.get('aux_path')
    out = dict(sid=task['sid'], errors=[], skipped=0)
    try:
        project = jedi.Project(os.path.dirname(path)) if path else None
        s = jedi.Script(code, path=path, project=project) if path else jedi.Script(code)
        module = s._module_node
        out['code_lines'] = list(s._code_lines)
        out['get_code_ok'] = module.get_code() == code
        out['has_errors'] = has_error_nodes(module)
        out['names'] = {}
        out['raw'] = {}
        for (a, d, r) in COMBOS:
            ns = s.get_names(all_scopes=a, definitions=d, references=r)
            out['names'][(a, d, r)] = [(n.line, n.column, n.name, n.is_definition()) for n in ns]
            out['raw'][(a, d, r)] = [(lf.start_pos[0], lf.start_pos[1]) for lf in
                                     helpers.get_module_names(module, all_scopes=a, definitions=d, references=r)]
        # details + definition paths for every token
        details = []
        for n in s.get_names(all_scopes=True, definitions=True, references=True):
            d = safe_describe(n, 'get_names', path, aux_path, out)
            if d is None:
                continue
            leaf = module.get_leaf_for_position((n.line, n.column)) if n.line is not None else None
            if leaf is not None and leaf.type == 'name' and leaf.start_pos == (n.line, n.column):
                defn = leaf.get_definition()
                d['def_path'] = None if defn is None else node_path(defn)
                d['leaf_value'] = leaf.value
            else:
                d['def_path'] = 'no-leaf'
            details.append(d)
        out['details'] = details
        lc = []
        for (ln, before, after) in task.get('line_code_probes', []):
            cands = [n for n in s.get_names(all_scopes=True, definitions=True, references=True) if n.line == ln]
            if cands:
                lc.append((ln, before, after, cands[0].get_line_code(before=before, after=after)))
        out['line_code_probes'] = lc
        if task.get('tree'):
            out['tree'] = ser_tree(module, module)
        api = []
        if task.get('api'):
            def guard(via, fn):
                try:
                    return list(fn())
                except Exception as e:
                    sig = common.exc_sig(e)
                    out['skipped'] += 1
                    out.setdefault('skipped_sites', {}).setdefault('%s@%s' % (sig['exc'], sig['site']), 0)
                    out['skipped_sites']['%s@%s' % (sig['exc'], sig['site'])] += 1
                    return []

            def record(objs, via, depth=0):
                for o in objs:
                    d = safe_describe(o, via, path, aux_path, out)
                    if d is None:
                        continue
                    # definition path on the buffer tree (model input)
                    if d['where'] == 'buffer' and d['line'] is not None and d['has_tree_name']:
                        leaf = module.get_leaf_for_position((d['line'], d['column']))
                        if leaf is not None and leaf.type == 'name' and leaf.start_pos == (d['line'], d['column']):
                            defn = leaf.get_definition()
                            d['def_path'] = None if defn is None else node_path(defn)
                            d['leaf_value'] = leaf.value
                        else:
                            d['def_path'] = 'no-leaf'
                    api.append(d)
                    if depth == 0 and via in ('goto', 'infer', 'search'):
                        record(guard(via + '.parent', lambda: [x for x in [o.parent()] if x is not None]), via + '.parent', 1)
                        if o.type in ('class', 'function', 'module') and d['where'] in ('buffer', 'aux'):
                            record(guard(via + '.defined_names', o.defined_names)[:6], via + '.defined_names', 1)

            for (ln, col, kind) in task['probes']:
                if kind == 'name':
                    record(guard('goto', lambda: s.goto(ln, col)), 'goto')
                    record(guard('goto', lambda: s.goto(ln, col, follow_imports=True)), 'goto.follow')
                    record(guard('infer', lambda: s.infer(ln, col)), 'infer')
                    record(guard('refs', lambda: s.get_references(ln, col, include_builtins=False)), 'get_references')
                    record(guard('refs', lambda: s.get_references(ln, col, scope='file')), 'get_references.file')
                    record(guard('help', lambda: s.help(ln, col)), 'help')
                    ctx_ = guard('context', lambda: [s.get_context(ln, col)])
                    record(ctx_, 'get_context')
                elif kind == 'complete':
                    comps = guard('complete', lambda: s.complete(ln, col))
                    record([c for c in comps if c.line is not None][:25], 'complete')
                elif kind == 'call':
                    sigs = guard('signatures', lambda: s.get_signatures(ln, col))
                    record(sigs, 'get_signatures')
                    for sg in sigs:
                        try:
                            api.append(dict(via='bracket_start', where='buffer', line=sg.bracket_start[0],
                                            column=sg.bracket_start[1], name='(', type='bracket', line_code=None,
                                            def_start=None, def_end=None, is_def=None, has_tree_name=False, module_path=None))
                            record(sg.params, 'signature.params', 1)
                        except Exception as e:
                            out['errors'].append(dict(via='signature', sig=common.exc_sig(e), obj=repr(sg)[:80]))
            for word in task.get('search', []):
                record(guard('search', lambda: s.search(word))[:10], 'search')
                record(guard('search', lambda: s.search(word, all_scopes=True))[:10], 'search.all')
        out['api'] = api
    except Exception as e:
        out['fatal'] = common.exc_sig(e)
    return out


# ---------------------------------------------------------------------------------------
# Python-side oracle for one described object

_FILE_LINES = {}
env_skipped = [0]


def file_lines(path):
    if path not in _FILE_LINES:
        from parso.utils import python_bytes_to_unicode
        with open(path, 'rb') as f:
            _FILE_LINES[path] = oracle_lines(python_bytes_to_unicode(f.read(), errors='replace'))
    return _FILE_LINES[path]


def check_described(d, lines):
    """Returns a list of (clause, detail) that fail for this object against `lines`."""
    bad = []
    ln, col, name = d['line'], d['column'], d['name']
    if ln is None or col is None:
        return bad
    if not (1 <= ln <= len(lines)):
        return [('line-out-of-range', ln)]
    text_line = lines[ln - 1]
    if d['type'] == 'bracket':
        if text_line[col:col + 1] != '(':
            bad.append(('bracket-start-not-paren', text_line[col:col + 1]))
        return bad
    if not d['has_tree_name']:
        # a module / namespace object: it denotes the file, conventional position (1, 0)
        if (ln, col) != (1, 0) and d['type'] in ('module', 'namespace'):
            bad.append(('module-position', (ln, col)))
        return bad
    token = name[:-1] if d['via'] == 'complete' and name.endswith('=') else name
    at = text_line[col:col + len(token)]
    if at != token:
        rest = text_line[col:]
        if d['type'] == 'param' and rest.startswith('__' + token) and not re.match(r'\w', rest[len(token) + 2:len(token) + 3] or ' '):
            bad.append(('dunder-param-renamed', at))
        elif ln == 1 and lines[0].startswith(BOM) and text_line[col + 1:col + 1 + len(token)] == token:
            bad.append(('bom-first-line', at))
        else:
            bad.append(('text-at-position', at))
    elif re.match(r'\w', text_line[col + len(token):col + len(token) + 1] or ' ') or \
            (col > 0 and re.match(r'\w', text_line[col - 1]) and not (ln == 1 and col == 1 and text_line[0] == BOM)):
        bad.append(('not-a-whole-token', text_line[max(0, col - 1):col + len(token) + 1]))
    if d['line_code'] is not None and d['line_code'] != text_line:
        bad.append(('line-code', d['line_code']))
    ds, de = d['def_start'], d['def_end']
    if ds is None or de is None:
        bad.append(('no-definition-range', (ds, de)))
    elif not (tuple(ds) <= (ln, col) and (ln, col + len(token)) <= tuple(de)):
        bad.append(('range-does-not-enclose', (ds, de)))
    return bad


# ---------------------------------------------------------------------------------------
# Gallina glue for the case files

DEFS = r'''
Fixpoint poslist_eqb (a b : list (N * N)) : bool :=
  match a, b with
  | [], [] => true
  | x :: a', y :: b' => pos_eqb x y && poslist_eqb a' b'
  | _, _ => false
  end.
Definition opt_range_eqb (a b : option (pos * pos)) : bool :=
  match a, b with
  | Some (a1, a2), Some (b1, b2) => pos_eqb a1 b1 && pos_eqb a2 b2
  | None, None => true
  | _, _ => false
  end.
Definition starts (ls : list leaf) : list (N * N) := map lstart ls.
(* one analysed source: every clause as a separate boolean *)
Definition src_checks
  (c : tree * list str * list (N * N * str * bool)
       * list (bool * bool * bool * list (N * N) * list (N * N))
       * list (N * nat) * list (N * N * N * str)
       * list (N * N * option (list nat) * bool * option (pos * pos))
       * list (N * N * str)) : list bool :=
  let '(t, code_lines, ttt, combos, line_codes, lc_probes, ranges, objs) := c in
  let lines := split_lines (get_code t) in
  [ consistent t && names_wf t;
    str_eqb (get_code t) (concat code_lines);
    lines_eqb lines code_lines && lines_eqb (split_lines_parso (get_code t)) code_lines;
    obs_eqb (map obs_name (script_names t true true true)) ttt;
    forallb (fun x => let '(a, d, r, sorted_obs, raw_obs) := x in
                      poslist_eqb (starts (script_names t a d r)) sorted_obs
                      && poslist_eqb (starts (get_module_names t a d r)) raw_obs) combos;
    forallb (fun x => let '(l, k) := x in str_eqb (get_line_code lines l 0 0) (nth k code_lines [])) line_codes;
    forallb (fun x => let '(l, b, a, s) := x in str_eqb (get_line_code lines l b a) s) lc_probes;
    forallb (fun x => let '(l, c, path, fc, obs) := x in
                      match find_leaf (leaves t) (l, c) with
                      | Some lf => opt_range_eqb (def_range t path lf fc) obs
                                   && match obs with
                                      | Some rng => encloses rng (l, c) (length (lvalue lf))
                                      | None => false
                                      end
                      | None => false
                      end) ranges;
    forallb (fun x => let '(l, c, nm) := x in str_eqb (slice_at lines (l, c) (length nm)) nm) objs ].
Definition src_ok c := forallb (fun b => b) (src_checks c).
Definition win_ok (c : N * N * list leaf * str) : bool :=
  let '(l, c0, ls, code) := c in
  consistent_from (l, c0) ls && str_eqb (code_of ls) code
  && forallb (fun x => negb (is_name x) || (no_break (lvalue x) && negb (Nat.eqb (length (lvalue x)) 0))) ls.
Definition split_ok (c : str * list str) : bool :=
  let '(s, obs) := c in
  lines_eqb (split_lines s) obs && lines_eqb (split_lines_parso s) obs && str_eqb (concat obs) s.
'''

CLAUSES = ['consistent + names_wf (the hypothesis on parso)', 'get_code = joined code_lines', 'split_lines(get_code) = code_lines',
           'get_names(all_scopes, definitions, references) = name leaves in order (line, column, text, is_definition)',
           'get_names / get_module_names for every flag combination', 'get_line_code() = line',
           'get_line_code(before, after)', 'definition range = def_range on the tree and encloses the name',
           'text at (line, column) of api results = name']


def g_pos(p):
    return '(%d%%N, %d%%N)' % (p[0], p[1])


def g_lines(ls):
    return g_list(ls, g_str, 'str')


def g_poslist(ps):
    return g_list(ps, g_pos, 'N * N')


def build_src_case(code, r, token_text):
    """Gallina term for one analysed source.  `token_text[(line, col)]` overrides the
    reported name by the token text for objects already classified as a known renaming."""
    def nm(line, col, name):
        return token_text.get((line, col), name)

    code_lines = r['code_lines']
    ttt = r['names'][(True, True, True)]
    g_ttt = g_list(ttt, lambda t: '(%d%%N, %d%%N, %s, %s)' % (t[0], t[1], g_str(nm(t[0], t[1], t[2])), g_bool(t[3])),
                   'N * N * str * bool')
    combos = g_list(COMBOS, lambda k: '(%s, %s, %s, %s, %s)' % (
        g_bool(k[0]), g_bool(k[1]), g_bool(k[2]),
        g_poslist([(t[0], t[1]) for t in r['names'][k]]), g_poslist(r['raw'][k])),
        'bool * bool * bool * list (N * N) * list (N * N)')
    by_line = {}
    for d in r['details'] + [x for x in r.get('api', []) if x['where'] == 'buffer']:
        if d['line'] is None or d['line_code'] is None or not d['has_tree_name']:
            continue
        s = d['line_code']
        k = d['line'] - 1
        if not (0 <= k < len(code_lines) and code_lines[k] == s):
            # not that line (the oracle has reported it): point at an equal line if there is
            # one, else at an index that cannot agree
            k = code_lines.index(s) if s in code_lines else len(code_lines) + 1 + (s == '')
        by_line.setdefault((d['line'], k), None)
    line_codes = g_list(sorted(by_line), lambda t: '(%d%%N, %d%%nat)' % t, 'N * nat')
    lcp = g_list(r.get('line_code_probes', []), lambda t: '(%d%%N, %d%%N, %d%%N, %s)' % (t[0], t[1], t[2], g_str(t[3])), 'N * N * N * str')
    rng_items, seen = [], set()
    for d in r['details'] + [x for x in r.get('api', []) if x['where'] == 'buffer' and x.get('def_path', 'no-leaf') != 'no-leaf']:
        if d.get('def_path', 'no-leaf') == 'no-leaf' or d['line'] is None:
            continue
        fc = d['type'] in ('function', 'class')
        key = (d['line'], d['column'], tuple(d['def_path']) if d['def_path'] is not None else None, fc, d['def_start'], d['def_end'])
        if key in seen:
            continue
        seen.add(key)
        obs = None if d['def_start'] is None or d['def_end'] is None else (d['def_start'], d['def_end'])
        rng_items.append('(%d%%N, %d%%N, %s, %s, %s)' % (
            d['line'], d['column'],
            '(@None (list nat))' if d['def_path'] is None else '(Some %s)' % g_list(d['def_path'], common.g_nat, 'nat'), g_bool(fc),
            '(@None (pos * pos))' if obs is None else '(Some (%s, %s))' % (g_pos(obs[0]), g_pos(obs[1]))))
    ranges = '[' + '; '.join(rng_items) + ']' if rng_items else '(@nil (N * N * option (list nat) * bool * option (pos * pos)))'
    objs, seen = [], set()
    for d in r.get('api', []):
        if d['where'] != 'buffer' or d['line'] is None or not (d['has_tree_name'] or d['type'] == 'bracket'):
            continue
        name = d['name'][:-1] if d['via'] == 'complete' and d['name'].endswith('=') else d['name']
        key = (d['line'], d['column'], nm(d['line'], d['column'], name))
        if key not in seen:
            seen.add(key)
            objs.append(key)
    g_objs = g_list(objs, lambda t: '(%d%%N, %d%%N, %s)' % (t[0], t[1], g_str(t[2])), 'N * N * str')
    return '(%s,\n %s,\n %s,\n %s,\n %s,\n %s,\n %s,\n %s)' % (
        r['tree'], g_lines(code_lines), g_ttt, combos, line_codes, lcp, ranges, g_objs)


class Pending:
    """A batch of Gallina cases to be evaluated after all implementation runs."""
    def __init__(self, label, fn, cases, shard, on_fail):
        self.label, self.fn, self.cases, self.shard, self.on_fail = label, fn, cases, shard, on_fail


def shard_for(cases, nshards):
    return max(1, -(-len(cases) // nshards))


# ---------------------------------------------------------------------------------------
# streams (each returns a list of Pending)

def stream_split(ctx):
    from parso.utils import split_lines
    import jedi
    import itertools
    alpha = ['a', '\n', '\r', '\f', '\x85', ' ', '\t']
    maxlen = ctx.n(4, 5)
    strings = [''.join(t) for n in range(maxlen + 1) for t in itertools.product(alpha, repeat=n)]
    pool = ['a', 'b', 'é', '\n', '\n', '\r', '\r\n', '\f', '\x0b', '\x1c', '\x1d', '\x1e', '\x85', ' ', ' ',
            '\t', ' ', '\\', '#', 'x = 1', '"""', BOM]
    for _ in range(ctx.n(700, 5000)):
        strings.append(''.join(ctx.rng.choice(pool) for _ in range(ctx.rng.randint(3, 30))))
    cases, kept = [], []
    for i, s in enumerate(strings):
        try:
            real = split_lines(s, keepends=True)
        except Exception as e:
            ctx.deviation(dict(stream='split', exc=type(e).__name__), dict(string=s), 'parso split_lines raised %r' % e)
            continue
        nontrivial = any(c in s for c in '\n\r\f\x0b\x1c\x1d\x1e\x85  ')
        ctx.count('split', s, nontrivial=nontrivial)
        spec = oracle_lines(s)
        if real != spec:
            ctx.deviation(dict(stream='split', cls='lines-not-python-lines'), dict(string=s, impl=real, spec=spec),
                          'split_lines(%r) = %r but the lines of the text are %r' % (s, real, spec))
        if i % 11 == 0:                     # what jedi itself hands to get_line_code
            try:
                cl = list(jedi.Script(s)._code_lines)
            except Exception:
                cl = real                   # totality of Script() is C01's subject
            if cl != spec:
                ctx.deviation(dict(stream='split', cls='code-lines-not-python-lines'), dict(string=s, impl=cl, spec=spec),
                              'Script(%r)._code_lines = %r but the lines of the text are %r' % (s, cl, spec))
        cases.append('(%s, %s)' % (g_str(s), g_lines(real)))
        kept.append(s)
    ctx.sample(dict(stream='split', string='a\r\n\x0cb\rc\x85d\n', impl=split_lines('a\r\n\x0cb\rc\x85d\n', keepends=True)))

    def on_fail(fails):
        for i in fails[:5]:
            ctx.violation('obligation', dict(what='correspondence split_lines: model and parso.utils.split_lines differ (the text oracle agreed with parso)',
                                             stream='split', string=kept[i]), nofail=True)
    return [Pending('split', 'split_ok', cases, shard_for(cases, ctx.n(2, 12)), on_fail)]


def corpus_files():
    out = []
    for base in ('jedi', 'test/completion', 'test/static_analysis', 'test/refactor'):
        root = os.path.join(common.REPO, base)
        for dp, dn, fn in os.walk(root):
            if 'third_party' in dp:
                dn[:] = []
                continue
            dn.sort()
            for f in sorted(fn):
                if f.endswith('.py'):
                    out.append(os.path.join(dp, f))
    return out


def read_source(path):
    from parso.utils import python_bytes_to_unicode
    with open(path, 'rb') as f:
        return python_bytes_to_unicode(f.read(), errors='replace')


def _window_task(task):
    """Serialise windows of a corpus file's leaf sequence (runs in a worker)."""
    path, starts, maxchars = task
    import parso
    code = read_source(path)
    module = parso.parse(code)
    ok = module.get_code() == code
    leaves = list(iter_leaves(module))
    offs, o = [], 0
    for lf in leaves:
        offs.append(o)
        o += len(lf.prefix) + len(lf.value)
    wins = []
    n = len(leaves)
    for frac in starts:
        i = min(n - 1, int(frac * n))
        # start at the beginning of a line
        while i < n - 1 and not (offs[i] == 0 or code[offs[i] - 1] in '\r\n'):
            i += 1
        if offs[i] > 0 and code[offs[i] - 1] == '\r' and code[offs[i]:offs[i] + 1] == '\n':
            continue
        j, size = i, 0
        while j < n and size < maxchars:
            size += len(leaves[j].prefix) + len(leaves[j].value)
            j += 1
        p0 = oracle_pos_of_offset(code, offs[i])
        text = code[offs[i]:offs[i] + size]
        wins.append(dict(path=os.path.relpath(path, common.REPO), first_leaf=i, n_leaves=j - i, p0=p0, chars=size,
                         case='(%d%%N, %d%%N, [%s], %s)' % (p0[0], p0[1], ';\n'.join(ser_leaf(lf, module) for lf in leaves[i:j]), g_str(text))))
    return dict(path=path, get_code_ok=ok, windows=wins, n_leaves=n)


def stream_corpus_windows(ctx):
    files = corpus_files()
    ctx.stat('corpus_files', len(files))
    if ctx.quick:
        chosen = ctx.rng.sample(files, min(len(files), 14))
        tasks = [(p, [ctx.rng.random()], 1200) for p in chosen]
    else:
        tasks = []
        for p in files:
            k = max(1, os.path.getsize(p) // 3000)
            tasks.append((p, [i / k for i in range(k)], 3000))
    res = common.pmap(_window_task, tasks, chunksize=2)
    cases, metas = [], []
    for r in res:
        if not r['get_code_ok']:
            ctx.deviation(dict(stream='tree', cls='get_code-differs'), dict(path=r['path']), 'module.get_code() != source for %s' % r['path'])
        for w in r['windows']:
            ctx.count('tree', ('win', w['path'], w['first_leaf']), nontrivial=w['n_leaves'] > 3)
            cases.append(w.pop('case'))
            metas.append(w)
    ctx.stat('corpus_windows', dict(n=len(cases), chars=sum(m['chars'] for m in metas), leaves=sum(m['n_leaves'] for m in metas)))
    if metas:
        ctx.sample(dict(stream='tree', **metas[0]))

    def on_fail(fails):
        for i in fails[:5]:
            ctx.violation('obligation', dict(what='hypothesis `consistent` fails on a real parso tree: a recorded leaf position is not the position of its text (window of a corpus file)',
                                             stream='tree', window=metas[i]), nofail=True)
    return [Pending('corpus windows', 'win_ok', cases, shard_for(cases, ctx.n(3, 32)), on_fail)]


def _corpus_names_task(task):
    """Whole corpus file: every token through get_names + light api probes; all oracles
    evaluated in the worker, only the findings are returned."""
    path, seed = task
    import random
    import jedi
    rng = random.Random(seed)
    out = dict(path=os.path.relpath(path, common.REPO), bad=[], n_names=0, n_api=0, tokens=None)
    try:
        code = read_source(path)
        s = jedi.Script(code, path=path)
        module = s._module_node
        lines = oracle_lines(code)
        if list(s._code_lines) != lines:
            out['bad'].append(('code-lines-not-python-lines', None, None))
        names = s.get_names(all_scopes=True, definitions=True, references=True)
        out['n_names'] = len(names)
        descr = [safe_describe(n, 'get_names', path, None, out) for n in names]
        n_listed = len(descr)
        toks_chosen = rng.sample(names, min(5, len(names)))
        for n in toks_chosen:
            for via, fn in (('goto', lambda: s.goto(n.line, n.column)),
                            ('get_references.file', lambda: s.get_references(n.line, n.column, scope='file')),
                            ('get_context', lambda: [s.get_context(n.line, n.column)])):
                try:
                    objs = list(fn())
                except Exception:
                    continue            # C01's subject
                for o in objs[:40]:
                    descr.append(safe_describe(o, via, path, None, out))
                    out['n_api'] += 1
        for d in descr:
            if d is None:
                continue
            if d['where'] == 'buffer':
                ls = lines
            elif d['where'] == 'file':
                try:
                    ls = file_lines(d['module_path'])
                except OSError:
                    continue
            else:
                continue
            for clause, detail in check_described(d, ls):
                out['bad'].append((clause, detail, {k: d[k] for k in ('via', 'where', 'line', 'column', 'name', 'type', 'def_start', 'def_end', 'module_path')}))
        out['has_errors'] = has_error_nodes(module)
        if '\r' not in code and not code.startswith(BOM):
            try:
                tree = ast.parse(code)
                toks = identifier_tokens(code)
                binds = binding_tokens(code, toks)
                has_match = any(isinstance(n, ast.Match) for n in ast.walk(tree))
                if any(d is None for d in descr[:n_listed]):
                    raise ValueError('a listed name could not be described (environment crash class)')
                obs = [(d['line'], d['column'], ('__' + d['name']) if any(b[0] == 'dunder-param-renamed' and b[2]['line'] == d['line'] and b[2]['column'] == d['column'] for b in out['bad']) else d['name'])
                       for d in descr[:n_listed] if d is not None]
                defs = {(d['line'], d['column']) for d in descr[:n_listed] if d is not None and d['is_def']}
                out['tokens'] = dict(ok=obs == toks, missing=sorted(set(toks) - set(obs))[:5], extra=sorted(set(obs) - set(toks))[:5],
                                     binds_ok=defs == binds, jedi_only=sorted(defs - binds)[:6], python_only=sorted(binds - defs)[:6],
                                     has_match=has_match,
                                     ff_indent=bool(re.search(r'(?m)^[ \t]*\f[ \t\f]*[^\s#]', code)))
            except (SyntaxError, ValueError, AssertionError, tokenize.TokenError):
                pass
    except Exception as e:
        out['fatal'] = common.exc_sig(e)
    return out


def stream_corpus_names(ctx):
    files = corpus_files()
    chosen = files if not ctx.quick else ctx.rng.sample(files, min(len(files), 20))
    res = common.pmap(_corpus_names_task, [(p, ctx.rng.randrange(1 << 30)) for p in chosen], chunksize=1)
    n_tok = 0
    for r in res:
        if 'fatal' in r and is_env_crash(r['fatal']):
            env_skipped[0] += 1      # K1-K4 (absent typeshed): C01's subject
            continue
        if 'fatal' in r:
            ctx.deviation(dict(stream='corpus', exc=r['fatal']['exc'], site=r['fatal']['site']), dict(path=r['path'], error=r['fatal']),
                          'get_names / position accessors raised %s on %s' % (r['fatal']['exc'], r['path']))
            continue
        for e in r.get('errors', []):
            ctx.deviation(accessor_sig(e),
                          dict(path=r['path'], via=e['via'], error=e['sig'], obj=e['obj']),
                          '%s: a position accessor of a %s result raised %s' % (r['path'], e['via'], e['sig']['exc']))
        ctx.count('corpus', r['path'], nontrivial=r['n_names'] > 0, n=1)
        ctx.count('corpus-objects', None, nontrivial=False, n=r['n_names'] + r['n_api'])
        for clause, detail, obj in r['bad'][:10]:
            sig = dict(stream='oracle', cls=clause)
            if clause == 'dunder-param-renamed':
                sig['predicted'] = True
            ctx.deviation(sig, dict(path=r['path'], object=obj, detail=detail),
                          '%s: %s result %r at (%s, %s): %s (%r)' % (r['path'], obj and obj['via'], obj and obj['name'], obj and obj['line'], obj and obj['column'], clause, detail))
        t = r['tokens']
        if t is not None:
            n_tok += 1
            gap = r.get('has_errors')
            for ok, cls, data in ((t['ok'], 'identifier-tokens', dict(missing=t['missing'], extra=t['extra'])),
                                  (t['binds_ok'], 'is-definition', dict(jedi_only=t['jedi_only'], python_only=t['python_only']))):
                if ok:
                    continue
                if t['has_match']:
                    sig = dict(stream='oracle', cls='match-statement-unsupported', predicted=bool(gap))
                elif gap and t['ff_indent']:
                    sig = dict(stream='oracle', cls='formfeed-indent-parse-error', predicted=True)
                else:
                    sig = dict(stream='oracle', cls=cls)
                ctx.deviation(sig, dict(path=r['path'], **data), '%s: %s oracle fails: %r' % (r['path'], cls, data))
    ctx.stat('corpus_names', dict(files=len(chosen), with_token_oracle=n_tok, names=sum(r.get('n_names', 0) for r in res),
                                  api_objects=sum(r.get('n_api', 0) for r in res)))
    return []


def oracle_names(ctx, label, src_lf, vname, code, r, info):
    """tokens / binds / text / line-code / range oracles on one analysed source.
    Returns {(line, col): token_text} for objects with a classified known renaming."""
    lines = oracle_lines(code)
    overrides = {}
    where = dict(source=code, variant=vname, label=label)
    if r['code_lines'] != lines:
        ctx.deviation(dict(stream='oracle', cls='code-lines-not-python-lines'), dict(where, impl=r['code_lines'][:50]),
                      'Script._code_lines differ from the lines of the text')
    if not r['get_code_ok']:
        ctx.deviation(dict(stream='oracle', cls='get_code-differs'), where, 'module.get_code() != source')
    ff_indent = bool(re.search(r'(?m)^[ \t]*\f[ \t\f]*[^\s#]', src_lf)) if src_lf else False
    parse_gap = r['has_errors'] and info.get('python_valid')
    for d in r['details'] + r.get('api', []):
        if d['where'] == 'buffer':
            ls = lines
        elif d['where'] == 'aux':
            ls = info['aux_lines']
        elif d['where'] == 'file':
            try:
                ls = file_lines(d['module_path'])
            except OSError:
                continue
        else:
            continue
        for clause, detail in check_described(d, ls):
            sig = dict(stream='oracle', cls=clause)
            if clause == 'dunder-param-renamed':
                sig['predicted'] = True     # the token text is "__" + reported name and the object is a parameter
                if d['where'] == 'buffer':
                    overrides[(d['line'], d['column'])] = '__' + d['name']
            elif clause == 'bom-first-line':
                sig['predicted'] = bool(info.get('model_inconsistent', False))
            ctx.deviation(sig, dict(where, object={k: d[k] for k in ('via', 'where', 'line', 'column', 'name', 'type', 'def_start', 'def_end', 'module_path')},
                                    detail=detail, line_text=ls[d['line'] - 1] if 1 <= d['line'] <= len(ls) else None),
                          '%s result %r at (%s, %s): %s (%r)' % (d['via'], d['name'], d['line'], d['column'], clause, detail))
    if info.get('tokens') is not None:
        toks = info['tokens']
        ttt = r['names'][(True, True, True)]
        obs = [(t[0], t[1], overrides.get((t[0], t[1]), t[2])) for t in ttt]

        def gap_sig(cls):
            if info.get('has_match'):
                return dict(stream='oracle', cls='match-statement-unsupported', predicted=bool(r['has_errors']))
            if parse_gap and ff_indent:
                return dict(stream='oracle', cls='formfeed-indent-parse-error', predicted=True)
            return dict(stream='oracle', cls=cls)

        if obs != toks:
            missing = sorted(set(toks) - set(obs))[:5]
            extra = sorted(set(obs) - set(toks))[:5]
            ctx.deviation(gap_sig('identifier-tokens'),
                          dict(where, missing=missing, extra=extra, duplicates=len(obs) != len(set(obs)), order_differs=sorted(obs) != obs),
                          'get_names(all_scopes, definitions, references) is not the list of identifier tokens: missing %r extra %r' % (missing, extra))
        binds = info['binds']
        defs = {(t[0], t[1]) for t in ttt if t[3]}
        if defs != binds:
            ctx.deviation(gap_sig('is-definition'), dict(where, jedi_only=sorted(defs - binds)[:8], python_only=sorted(binds - defs)[:8]),
                          'is_definition() differs from the binding tokens: only jedi %r, only Python %r' % (
                              sorted(defs - binds)[:4], sorted(binds - defs)[:4]))
        for (a, d_, r_) in COMBOS:
            if not a:
                continue
            want = [(l, c) for (l, c, s) in toks if (d_ and (l, c) in binds) or (r_ and (l, c) not in binds)]
            got = [(t[0], t[1]) for t in r['names'][(a, d_, r_)]]
            if got != want and defs == binds and obs == toks:
                ctx.deviation(dict(stream='oracle', cls='definitions-references-filter'),
                              dict(where, definitions=d_, references=r_, got=got[:20], want=want[:20]),
                              'get_names(all_scopes=True, definitions=%s, references=%s) is not the matching subset of tokens' % (d_, r_))
    return overrides


def pending_sources(ctx, label, items, nshards):
    """items: list of (meta, code, result, overrides) with result['tree'] present."""
    cases = [build_src_case(code, r, ov) for (meta, code, r, ov) in items]

    def on_fail(fails):
        for i in fails[:4]:
            meta, code, r, ov = items[i]
            shown = common.coq_show(IMPORTS, ['src_checks %s' % cases[i]], defs=DEFS)
            bools = re.findall(r'\b(true|false)\b', shown.split('=', 1)[-1])
            failed = [CLAUSES[k] for k, b in enumerate(bools[:len(CLAUSES)]) if b == 'false']
            ctx.violation('obligation', dict(what='correspondence %s: model and implementation differ on: %s' % (label, '; '.join(failed) or shown[-300:]),
                                             stream=label, meta=meta, source=code, clauses=failed,
                                             observed_names=r['names'][(True, True, True)][:60]), nofail=True)
    return Pending(label, 'src_ok', cases, shard_for(cases, nshards), on_fail)


def stream_generated(ctx):
    """tree + names + tokens streams on generated valid programs in all line-ending variants."""
    nprog = ctx.n(10, 60)
    tasks, metas, sizes = [], [], []
    discarded = 0
    for pi in range(nprog):
        src, tries = gen_valid_program(ctx.rng, ctx.rng.randint(2, 5))
        while len(src) > 2000:
            src, t2 = gen_valid_program(ctx.rng, ctx.rng.randint(1, 3))
            tries += t2
        discarded += tries
        toks = identifier_tokens(src)
        binds = binding_tokens(src, toks)
        nlines = src.count('\n')
        for vi, (vname, code) in enumerate(variants(ctx.rng, src)):
            in_coq = (not ctx.quick) or vi in (pi % 5, (pi + 2) % 5)
            probes = [(ctx.rng.randint(1, max(1, nlines)), ctx.rng.randint(0, 3), ctx.rng.randint(0, 3)) for _ in range(3)]
            tasks.append(dict(sid=len(tasks), code=code, tree=in_coq, api=False, line_code_probes=probes))
            metas.append(dict(program=pi, variant=vname, src_lf=src, tokens=toks, binds=binds, python_valid=True))
            sizes.append(len(code))
    small = [p for p in corpus_files() if os.path.getsize(p) < 2500]
    for p in ctx.rng.sample(small, min(len(small), ctx.n(3, 40))):
        code = read_source(p)
        info = dict(program=os.path.relpath(p, common.REPO), variant='corpus', src_lf=None, tokens=None, binds=None)
        try:
            if '\r' not in code and '\f' not in code:
                tree = ast.parse(code)
                info.update(tokens=identifier_tokens(code), python_valid=True, src_lf=code)
                info['binds'] = binding_tokens(code, info['tokens'])
                info['has_match'] = any(isinstance(n, ast.Match) for n in ast.walk(tree))
        except (SyntaxError, ValueError, AssertionError, tokenize.TokenError):
            info.update(tokens=None, binds=None)
        tasks.append(dict(sid=len(tasks), code=code, tree=True, api=False, line_code_probes=[(1, 1, 1)]))
        metas.append(info)
    ctx.stat('generated', dict(programs=nprog, sources=len(tasks), chars=sum(sizes), discarded_invalid=discarded,
                               max_chars=max(sizes) if sizes else 0))
    results = common.pmap(analyse, tasks, chunksize=2)
    items = []
    nerr = 0
    for t, m, r in zip(tasks, metas, results):
        if 'fatal' in r and is_env_crash(r['fatal']):
            env_skipped[0] += 1      # K1-K4 (absent typeshed): C01's subject
            continue
        if 'fatal' in r:
            ctx.deviation(dict(stream='names', exc=r['fatal']['exc'], site=r['fatal']['site']),
                          dict(source=t['code'], error=r['fatal']), 'get_names / position accessors raised %s' % r['fatal']['exc'])
            continue
        for e in r['errors']:
            ctx.deviation(accessor_sig(e),
                          dict(source=t['code'], via=e['via'], error=e['sig'], obj=e['obj']),
                          'a position accessor of a %s result raised %s' % (e['via'], e['sig']['exc']))
        nerr += bool(r['has_errors'])
        n_names = len(r['names'][(True, True, True)])
        ctx.count('names', (t['code'],), nontrivial=n_names > 0)
        if m['tokens'] is not None:
            ctx.count('tokens', (t['code'],), nontrivial=n_names > 0)
        ov = oracle_names(ctx, 'names', m['src_lf'], m['variant'], t['code'], r, m)
        if t['tree']:
            ctx.count('tree', ('gen', t['code']), nontrivial=n_names > 0)
            items.append((dict(program=m['program'], variant=m['variant']), t['code'], r, ov))
    ctx.stat('generated_with_parso_error_nodes', nerr)
    ctx.stat('generated_in_coq', dict(sources=len(items), chars=sum(len(c) for (_, c, _, _) in items)))
    if items:
        meta, code, r, ov = items[0]
        ctx.sample(dict(stream='names', variant=meta['variant'], source_head=code[:160],
                        names=r['names'][(True, True, True)][:8]))
    return [pending_sources(ctx, 'names', items, ctx.n(6, 32))]


def stream_api(ctx):
    nprog = ctx.n(10, 40)
    tasks, metas = [], []
    for pi in range(nprog):
        d = os.path.join(ctx.tmp, 'proj%d' % pi)
        os.makedirs(d)
        auxsrc, aux = gen_aux_module(ctx.rng)
        if pi % 3 == 2:      # a random program instead of the template, same probes
            src, _ = gen_valid_program(ctx.rng, ctx.rng.randint(2, 4))
            while len(src) > 1500:
                src, _ = gen_valid_program(ctx.rng, ctx.rng.randint(1, 3))
            complete_src = src
        else:
            src = gen_api_program(ctx.rng, aux)
            complete_src = src[:src.rindex('\n', 0, -1) + 1]      # without the open call
        vs = variants(ctx.rng, src)
        vname, code = vs[pi % len(vs)]
        avs = variants(ctx.rng, auxsrc)
        auxcode = avs[(pi + 2) % len(avs)][1]
        aux_path = os.path.join(d, AUX_NAME + '.py')
        with open(aux_path, 'w', newline='', encoding='utf8') as f:
            f.write(auxcode)
        path = os.path.join(d, 'main.py')
        with open(path, 'w', newline='', encoding='utf8') as f:
            f.write(code)
        toks = identifier_tokens(complete_src)
        chosen = ctx.rng.sample(toks, min(ctx.n(12, 40), len(toks)))
        probes = [(l, c + ctx.rng.randint(0, len(s)), 'name') for (l, c, s) in chosen]
        probes += [(l, c + len(s), 'complete') for (l, c, s) in ctx.rng.sample(toks, min(4, len(toks)))]
        calls = [(li + 1, m.end()) for li, t in enumerate(src.split('\n')) for m in re.finditer(r'\w\(', t)]
        probes += [(l, c, 'call') for (l, c) in ctx.rng.sample(calls, min(5, len(calls)))]
        distinct = sorted({s for (_, _, s) in toks})
        words = ctx.rng.sample(distinct, min(3, len(distinct)))
        tasks.append(dict(sid=pi, code=code, path=path, aux_path=aux_path, probes=probes, api=True, tree=True, search=words,
                          line_code_probes=[(ctx.rng.randint(1, 6), 2, 1)]))
        info = dict(program=pi, variant=vname, src_lf=src, tokens=None, binds=None, aux_lines=oracle_lines(auxcode), python_valid=True)
        if complete_src is src:
            info.update(tokens=toks, binds=binding_tokens(src, toks))
        metas.append(info)
    results = common.pmap(analyse, tasks, chunksize=1)
    items, via_counts, where_counts, skipped = [], {}, {}, {}
    for t, m, r in zip(tasks, metas, results):
        if 'fatal' in r and is_env_crash(r['fatal']):
            env_skipped[0] += 1      # K1-K4 (absent typeshed): C01's subject
            continue
        if 'fatal' in r:
            ctx.deviation(dict(stream='api', exc=r['fatal']['exc'], site=r['fatal']['site']),
                          dict(source=t['code'], error=r['fatal']), 'Script / get_names raised %s' % r['fatal']['exc'])
            continue
        for e in r['errors']:
            ctx.deviation(accessor_sig(e),
                          dict(source=t['code'], via=e['via'], error=e['sig'], obj=e['obj']),
                          'a position accessor of a %s result raised %s' % (e['via'], e['sig']['exc']))
        for d in r['api']:
            via_counts[d['via']] = via_counts.get(d['via'], 0) + 1
            where_counts[d['where']] = where_counts.get(d['where'], 0) + 1
            ctx.count('api', (t['code'], d['via'], d['where'], d['line'], d['column'], d['name']),
                      nontrivial=d['line'] is not None and d['where'] != 'none')
        for k, v in (r.get('skipped_sites') or {}).items():
            skipped[k] = skipped.get(k, 0) + v
        ov = oracle_names(ctx, 'api', m['src_lf'], m['variant'], t['code'], r, m)
        items.append((dict(program=m['program'], variant=m['variant'], probes=t['probes'][:5]), t['code'], r, ov))
    ctx.stat('api_results_by_method', via_counts)
    ctx.stat('api_results_by_target', where_counts)
    ctx.stat('api_queries_skipped_after_exception(C01 subject)', skipped)
    if items:
        meta, code, r, ov = items[0]
        ex = [d for d in r['api'] if d['where'] in ('buffer', 'aux') and d['line']][:3]
        ctx.sample(dict(stream='api', variant=meta['variant'], results=[{k: d[k] for k in ('via', 'where', 'line', 'column', 'name', 'def_start', 'def_end')} for d in ex]))
    return [pending_sources(ctx, 'api', items, ctx.n(5, 16))]


MATCH_SRC = '''def handle(command):
    match command:
        case [first, second]:
            return first
        case {"k": value, **rest}:
            return value
        case Point(x=px) as whole:
            return whole
        case _:
            return command
'''


def stream_special(ctx):
    """Known refutations, reproduced on the implementation with the model's verdict:
    a buffer starting with U+FEFF, a match statement, a `__x` parameter."""
    srcs = [BOM + 'x = 1\ny = x\n', BOM + 'def f(a):\r\n    return a\r\n', BOM + 'import os\rz = os\r']
    tasks = [dict(sid=i, code=s, tree=True, api=False) for i, s in enumerate(srcs)]
    tasks.append(dict(sid=len(tasks), code=MATCH_SRC, tree=True, api=False))
    tasks.append(dict(sid=len(tasks), code='def f(__a, b, __c__=1):\n    return __a\n', tree=True, api=False))
    results = [analyse(t) for t in tasks]
    trees = ['consistent (%s)' % r['tree'] for r in results[:len(srcs)] if 'tree' in r]
    shown = common.coq_show(IMPORTS, trees, defs=DEFS)
    verdicts = re.findall(r'=\s*(true|false)', shown)
    for t, r, v in zip(tasks[:len(srcs)], results, verdicts + ['?'] * len(tasks)):
        if 'fatal' in r and is_env_crash(r['fatal']):
            env_skipped[0] += 1      # K1-K4 (absent typeshed): C01's subject
            continue
        if 'fatal' in r:
            ctx.deviation(dict(stream='special', exc=r['fatal']['exc']), dict(source=t['code'], error=r['fatal']), 'Script raised')
            continue
        ctx.count('special', t['code'])
        info = dict(tokens=None, binds=None, model_inconsistent=(v == 'false'))
        oracle_names(ctx, 'special-bom', None, 'bom', t['code'], r, info)
    r = results[len(srcs)]
    if 'fatal' not in r:
        # `match` / `case` occur in MATCH_SRC only as (soft) keywords
        toks = [(l, c, s) for (l, c, s) in identifier_tokens(MATCH_SRC) if s not in ('match', 'case')]
        binds = binding_tokens(MATCH_SRC, toks)
        ctx.count('special', MATCH_SRC)
        oracle_names(ctx, 'special-match', MATCH_SRC, 'lf', MATCH_SRC, r,
                     dict(tokens=toks, binds=binds, has_match=True, python_valid=True))
    r = results[len(srcs) + 1]
    if 'fatal' not in r:
        src = tasks[len(srcs) + 1]['code']
        toks = identifier_tokens(src)
        ctx.count('special', src)
        oracle_names(ctx, 'special-dunder', src, 'lf', src, r, dict(tokens=toks, binds=binding_tokens(src, toks), python_valid=True))
    return []


def _edited_task(t):
    """One process, one path, successive versions of the buffer (each through a NEW Script, immediately after the
    other): every Signature / Name returned for version k must be faithful to the text of version k."""
    import jedi
    out = []
    for step, (code, probes) in enumerate(t['versions']):
        s = jedi.Script(code, path=t['path'])
        lines = code.split('\n')
        for (m, ln, col) in probes:
            try:
                res = getattr(s, m)(ln, col)
            except Exception as e:
                continue                      # C01's subject
            for r in res:
                try:
                    mp = r.module_path
                    if mp is None or str(mp) != t['path'] or r.line is None:
                        continue
                    l, c, name = r.line, r.column, r.name
                    text = lines[l - 1][c:c + len(name)] if 1 <= l <= len(lines) else None
                    lc = r.get_line_code()
                    want_lc = (lines[l - 1] + ('\n' if l < len(lines) else '')) if 1 <= l <= len(lines) else None
                    if text != name or lc != want_lc:
                        out.append(dict(step=step, method=m, at=(ln, col), name=name, line=l, column=c,
                                        text_at_position=text, line_code=lc, line_of_current_text=want_lc))
                except Exception as e:
                    out.append(dict(step=step, method=m, at=(ln, col), error=repr(e)[:200]))
    return out


def stream_edited(ctx):
    """A definition that MOVES between versions of a buffer with a path while the call line keeps its text and
    its bracket position (what the time-limited signature cache is keyed on)."""
    rng = ctx.rng
    tasks = []
    for k in range(ctx.n(16, 80)):
        fname = rng.choice(['target', 'compute', 'area'])
        params = rng.choice(['a', 'a, b', 'width, height=2'])
        pad = ['' for _ in range(rng.randint(1, 4))]
        filler = ['other_%d = %d' % (i, i) for i in range(rng.randint(1, 3))]
        call = '%s(' % fname
        d = ['def %s(%s):' % (fname, params), '    return 1']
        v1 = d + ['', call]
        v2 = pad + filler + d + [''] * (len(v1) - 1 - len(pad) - len(filler) - len(d)) + [call]
        if len(v2) != len(v1):
            # keep the call on the same line: put the moved definition into the lines available, else extend v1
            n = max(len(v1), len(pad) + len(filler) + len(d) + 1)
            v1 = d + [''] * (n - len(d) - 1) + [call]
            v2 = pad + filler + d + [''] * (n - len(pad) - len(filler) - len(d) - 1) + [call]
        v3 = [''] + ['def %s(%s):' % (fname, params + ', extra'), '    return 2'] + [''] * (len(v1) - 4) + [call]
        vs = []
        for v in (v1, v2, v3):
            code = '\n'.join(v)
            vs.append((code, [('get_signatures', len(v), len(call)), ('goto', len(v), 1), ('infer', len(v), 1)]))
        tasks.append(dict(path=os.path.join(ctx.tmp, 'edited_%d.py' % k), versions=vs))
    res = common.pmap(_edited_task, tasks, chunksize=2)
    for t, bad in zip(tasks, res):
        for step in range(len(t['versions'])):
            ctx.count('edited', (t['versions'][step][0], step), nontrivial=step > 0)
        for b in bad[:3]:
            ctx.deviation(dict(stream='edited', cls='position-not-faithful-to-the-present-text', method=b.get('method')),
                          dict(path_reused=True, versions=[v[0] for v in t['versions'][:b['step'] + 1]], observed=b),
                          'after the buffer was edited (same path) %s reports %r at %r where the present text has %r' % (
                              b.get('method'), b.get('name'), (b.get('line'), b.get('column')), b.get('text_at_position')))
    ctx.stat('edited_sessions', len(tasks))
    return []


# ---------------------------------------------------------------------------------------

def run(ctx):
    from concurrent.futures import ThreadPoolExecutor
    common.setup_jedi(os.path.join(ctx.tmp, 'cache'))
    ctx.proofs()
    ctx.cov['fingerprints'] = common.fingerprint(FP)
    ctx.cov['rule'] = ('split: exhaustive strings over {a,\\n,\\r,\\f,\\x85,U+2028,\\t} up to length 4 (5 thorough) + seeded longer; '
                       'tree: seeded windows of corpus files (all windows in thorough) + generated sources; '
                       'names/tokens: seeded valid programs x {LF, CRLF, CR, mixed, no final newline} + small corpus files '
                       '(oracles on all variants, model on 2 of 5 variants per program in quick, all in thorough); '
                       'corpus: get_names + oracles on sampled (thorough: all) corpus files; '
                       'api: seeded two-file projects x name/complete/call probes x all query methods; '
                       'non-trivial = string with a break-like character / source with >= 1 name / result with a position; distinct by input')
    ctx.assumptions += [
        'parso (tokeniser, parser, is_definition/get_definition) is modelled, not verified: `consistent`, names_wf and the is_definition flags are inputs checked on every serialised tree',
        'the module-scope flag of a name is recomputed by the harness (position-based transcription of get_parent_scope)',
        'CPython tokenize/ast are the oracle for identifier tokens and binding tokens on syntactically valid sources; attribute targets count as binding, global/nonlocal declarations do not (language reference 4.2.1)',
        'exceptions raised by the query methods themselves are skipped here (C01); exceptions of position accessors on returned objects are reported']
    pend = []
    for f in (stream_split, stream_special, stream_corpus_windows, stream_corpus_names, stream_generated, stream_api, stream_edited):
        t = time.time()
        pend += f(ctx) or []
        ctx.stat('wall_' + f.__name__, round(time.time() - t, 1))
    t = time.time()

    def ev(p):
        return common.coq_failing(IMPORTS, p.fn, p.cases, shard=p.shard, defs=DEFS, timeout=1200)
    with ThreadPoolExecutor(max_workers=max(1, len(pend))) as ex:
        outs = list(ex.map(ev, pend))
    for p, (fails, err) in zip(pend, outs):
        if err:
            raise RuntimeError('coq evaluation failed (%s): %s' % (p.label, err))
        p.on_fail(fails)
    ctx.stat('wall_coq_evaluation', round(time.time() - t, 1))
    ctx.stat('sources_skipped_for_environment_crash_classes', env_skipped[0])
    ctx.stat('coq_cases', {p.label: len(p.cases) for p in pend})


def replay(ctx, path):
    rec = json.load(open(path, encoding='utf8'))
    print(json.dumps(rec, indent=1, ensure_ascii=False)[:4000])
    common.setup_jedi(os.path.join(ctx.tmp, 'cache'))
    if (rec.get('sig') or {}).get('stream') == 'edited' and rec.get('versions'):
        vs = []
        for code in rec['versions']:
            ls = code.split('\n')
            call = ls[-1]
            vs.append((code, [('get_signatures', len(ls), len(call)), ('goto', len(ls), 1), ('infer', len(ls), 1)]))
        bad = _edited_task(dict(path=os.path.join(ctx.tmp, 'edited_replay.py'), versions=vs))
        print('implementation now: %d unfaithful positions' % len(bad))
        for b in bad[:5]:
            print('  ', b)
        return 0
    src = rec.get('source') or rec.get('string')
    if src is None and rec.get('path'):
        src = read_source(os.path.join(common.REPO, rec['path']))
    if src is None:
        return 0
    if rec.get('stream') == 'split' or 'string' in rec:
        from parso.utils import split_lines
        print('parso   :', split_lines(src, keepends=True))
        print('oracle  :', oracle_lines(src))
        print('model   :', common.coq_show(IMPORTS, ['split_lines %s' % g_str(src)]))
        return 0
    r = analyse(dict(sid=0, code=src, tree=len(src) < 4000, api=False))
    if 'fatal' in r:
        print('implementation raises:', r['fatal'])
        return 0
    lines = oracle_lines(src)
    print('get_names(all_scopes, definitions, references) now:')
    for d in r['details']:
        bad = check_described(d, lines)
        if bad or len(r['details']) < 80:
            print('  ', (d['line'], d['column'], d['name'], d['type'], d['is_def'], d['def_start'], d['def_end']),
                  'FAILS: %r' % bad if bad else '')
    try:
        toks = identifier_tokens(src.replace('\r\n', '\n').replace('\r', '\n'))
        print('identifier tokens (tokenize):', toks[:80])
    except Exception as e:
        print('tokenize:', e)
    if 'tree' in r:
        shown = common.coq_show(IMPORTS, ['(consistent (%s), map obs_name (script_names (%s) true true true))' % (r['tree'], r['tree'])], defs=DEFS)
        print('model:', shown[-3000:])
    return 0
