#!/venv/bin/python -S
"""C14: fault-injecting stand-in for the helper's python executable.

jedi starts `<executable> __main__.py <parso dir> <version>`; when <executable> is
this file it starts the real interpreter with the same arguments and relays the
two pickle streams frame by frame (byte-exact: frame boundaries are found with
pickletools, nothing is re-serialised).  Control comes from the JSON file named
by $C14_CTL, re-read at every request:

    {"faults": {"<gen>": [k, phase, cut]}, "states": true, "log": "<path>"}

gen   = 1-based number of this proxy start (counted in <ctl>.gen)
k     = 0-based index of the request of this generation that gets the fault
phase = "before" the helper is dead before request k is written (stdin is closed
                 before reply k-1 is handed over, so the parent's write hits EPIPE;
                 for k = 0, or on SIGTERM, the proxy simply dies without reading)
        "after"  request k is relayed to the helper, which then dies without replying
        "trunc"  the helper computes the reply, `cut` bytes of it are relayed
                 (cut < 0: len+cut, 0 < cut < 1: fraction), then it dies
        "raise"  the reply is replaced by (True, traceback, ZeroDivisionError) — the
                 helper function raised; not applied to deletion requests
Every relayed request is logged (one JSON line) to "log" with the helper-side
inference-state ids after it, asked of the helper through its own request channel.
"""
import io
import json
import os
import pickle
import pickletools
import signal
import subprocess
import sys

REAL = os.environ.get('C14_REAL_PYTHON', '/venv/bin/python')
CTL = os.environ.get('C14_CTL', '')

STATES_EXPR = "sorted(__import__('sys')._getframe(1).f_locals['self']._inference_states)"


def read_ctl():
    try:
        with open(CTL) as f:
            return json.load(f)
    except Exception:
        return {}


def next_gen():
    if not CTL:
        return 0
    fd = os.open(CTL + '.gen', os.O_WRONLY | os.O_APPEND | os.O_CREAT, 0o644)
    os.write(fd, b'%d\n' % os.getpid())
    os.close(fd)
    with open(CTL + '.gen') as f:
        lines = f.read().split()
    return lines.index(str(os.getpid())) + 1


class Tee:
    """File wrapper recording every byte handed out (for pickletools.genops)."""

    def __init__(self, raw):
        self.raw, self.buf = raw, bytearray()

    def read(self, n):
        out = bytearray()
        while len(out) < n:
            b = self.raw.read(n - len(out))
            if not b:
                break
            out += b
        self.buf += out
        return bytes(out)

    def readline(self):
        b = self.raw.readline()
        self.buf += b
        return b


def read_frame(raw):
    """Exact bytes of the next pickle on `raw`; None at a clean EOF."""
    t = Tee(raw)
    try:
        for _ in pickletools.genops(t):
            pass
    except Exception:
        return None
    return bytes(t.buf)


class _Stub:
    def __init__(self, *a, **k):
        pass

    def __setstate__(self, s):
        pass


class _Lenient(pickle.Unpickler):
    def find_class(self, module, name):
        return type(str(name), (_Stub,), {'_m': module})


def describe(frame):
    try:
        ident, fn, args, kwargs = _Lenient(io.BytesIO(frame)).load()
        return ident, (None if fn is None else fn.__name__)
    except Exception as e:
        return 'undecodable', repr(e)


def main():
    gen = next_gen()
    ctl = read_ctl()
    env = dict(os.environ)
    child = subprocess.Popen([REAL] + sys.argv[1:], stdin=subprocess.PIPE, stdout=subprocess.PIPE, env=env)
    inp = os.fdopen(0, 'rb', buffering=0)
    out = os.fdopen(1, 'wb', buffering=0)

    def die():
        try:
            child.kill()
            child.wait()
        finally:
            os._exit(1)

    signal.signal(signal.SIGTERM, lambda *a: die())
    logf = open(ctl['log'], 'a') if ctl.get('log') else None

    def log(**rec):
        if logf:
            logf.write(json.dumps(dict(gen=gen, **rec)) + '\n')
            logf.flush()

    def fault_for(i, c):
        f = (c.get('faults') or {}).get(str(gen))
        if f and int(f[0]) == i:
            return f[1], (f[2] if len(f) > 2 else 0.5)
        return None, None

    log(ev='start', pid=os.getpid())
    i = 0
    ph, _ = fault_for(0, ctl)
    if ph == 'before':
        log(ev='fault', i=0, phase='before')
        die()
    while True:
        req = read_frame(inp)
        if not req:
            child.kill()
            child.wait()
            os._exit(0)
        ctl = read_ctl()
        ident, fn = describe(req)
        phase, cut = fault_for(i, ctl)
        if phase == 'before':  # armed too late for the EPIPE variant: die without relaying
            log(ev='fault', i=i, phase='before-late', id=ident, fn=fn)
            die()
        child.stdin.write(req)
        child.stdin.flush()
        if phase == 'after':
            log(ev='fault', i=i, phase='after', id=ident, fn=fn)
            die()
        rep = read_frame(child.stdout)
        if not rep:
            log(ev='helper-eof', i=i, id=ident, fn=fn)
            die()
        states = None
        if ctl.get('states'):
            pickle.dump((None, eval, (STATES_EXPR,), {}), child.stdin, 4)
            child.stdin.flush()
            srep = read_frame(child.stdout)
            try:
                states = pickle.loads(srep)[2]
            except Exception as e:
                states = repr(e)
        is_delete = fn is None and ident not in (None, 'undecodable')
        try:
            is_exc = bool(_Lenient(io.BytesIO(rep)).load()[0])
        except Exception:
            is_exc = None
        log(ev='req', i=i, id=ident, fn=fn, states=states, phase=phase, exc=is_exc, nrep=len(rep))
        if phase == 'trunc':
            n = len(rep)
            c = cut
            if isinstance(c, float) and 0 < c < 1:
                c = int(n * c)
            c = int(c)
            if c < 0:
                c = n + c
            c = max(0, min(n - 1, c))
            out.write(rep[:c])
            die()
        if phase == 'raise' and not is_delete and fn != '_get_info':
            rep = pickle.dumps((True, 'Traceback (c14 injected)\nZeroDivisionError: c14-injected\n',
                                ZeroDivisionError('c14-injected')), 4)
        nph, _ = fault_for(i + 1, ctl)
        if nph == 'before':
            # the helper is dead before the next request is written: make the write fail
            log(ev='fault', i=i + 1, phase='before')
            os.close(0)
            out.write(rep)
            die()
        out.write(rep)
        i += 1


if __name__ == '__main__':
    main()
