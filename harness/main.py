import argparse
import importlib
import os
import sys
import traceback

sys.path.insert(0, os.path.dirname(os.path.abspath(__file__)))
import common


def main():
    ap = argparse.ArgumentParser()
    ap.add_argument('pid')
    ap.add_argument('--tier', default=os.environ.get('VERIF_TIER') or 'quick', choices=['quick', 'thorough'])
    ap.add_argument('--replay', default=None)
    a = ap.parse_args()
    try:
        seed = int(os.environ.get('VERIF_SEED', '') or 20260923)
    except ValueError:
        seed = 20260923
    pid = a.pid.upper()
    if a.replay:
        a.replay = os.path.abspath(a.replay)      # ./check has cd'ed to /verif; we chdir to a scratch dir below
    ctx = common.Ctx(pid, a.tier, seed, a.replay)
    mod = importlib.import_module(pid.lower())
    # a path-less Script takes the current directory as its project (searched by get_references,
    # rewritten by refactorings): never let that be /verif or /repo
    os.makedirs(os.path.join(ctx.tmp, 'cwd'), exist_ok=True)
    os.chdir(os.path.join(ctx.tmp, 'cwd'))
    if a.replay:
        # a replay re-executes one recorded case and prints what it sees; it is not a check run: it writes no
        # evidence and decides nothing
        try:
            rc = mod.replay(ctx, a.replay)
        except Exception:
            traceback.print_exc()
            rc = 2
        import shutil
        shutil.rmtree(ctx.tmp, ignore_errors=True)
        sys.exit(rc or 0)
    try:
        mod.run(ctx)
    except SystemExit:
        raise
    except BaseException as e:
        # fail closed: a crash of the machinery means the property is not shown
        ctx.violation('obligation', dict(what='check machinery failed: %r' % (e,),
                                         traceback=traceback.format_exc()[-3000:]), nofail=True)
    sys.exit(ctx.finish())


if __name__ == '__main__':
    main()
