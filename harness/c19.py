"""C19 — Project search finds every definition and honours ignore rules.

Streams
  gitignore  references.gitignored_paths on generated .gitignore texts vs model parse_gitignore
  expand     references.expand_relative_ignore_paths on generated (folder, name) sets vs model expand
  walk       generated project trees on disk: recurse_find_python_folders_and_files (ordered output)
             vs model `walk` evaluated in Coq on the same tree with the same listing order; and vs an
             independent component-wise oracle of the ignore rules (set of visible files / folders)
  search     Project.search / complete_search for every identifier defined in the generated tree
             (all_scopes on/off, type prefixes, modules / packages / namespace folders, dotted)
             vs the known content of the tree: everything visible is found, nothing hidden is reported
  script     Script.search / complete_search on a buffer vs filtering Script.get_names (oracle) and vs
             model script_search
  split      helpers.split_search_string vs model
  dedupe     project._try_to_skip_duplicates driven with stub definitions vs model dedupe
  limits     references.search_in_file_ios with a stubbed _check_fs vs model scan (30 parsed / 2000 opened)
"""
import json
import os
import re
import shutil
import time

import common
from common import g_str, g_bool, g_list, g_opt, g_N

IMPORTS = 'From JV Require Import Base.Str Model.C19_Walk.\n'

FP = [('jedi/inference/references.py', 'gitignored_paths'),
      ('jedi/inference/references.py', 'expand_relative_ignore_paths'),
      ('jedi/inference/references.py', 'recurse_find_python_folders_and_files'),
      ('jedi/inference/references.py', 'search_in_file_ios'),
      ('jedi/inference/references.py', '_check_fs'),
      ('jedi/file_io.py', 'FolderIO.walk'),
      ('jedi/api/project.py', '_try_to_skip_duplicates'),
      ('jedi/api/project.py', 'Project._search_func'),
      ('jedi/api/completion.py', 'search_in_module'),
      ('jedi/api/helpers.py', 'split_search_string'),
      ('jedi/api/helpers.py', 'get_module_names'),
      ('jedi/api/__init__.py', 'Script._search_func')]

IGN = ('.tox', '.venv', '.mypy_cache', 'venv', '__pycache__')
FAKE_ROOT = '/R'

DEFS = '''
Definition entry_eqb (a b : entry) : bool :=
  match a, b with
  | EAbs x, EAbs y => str_eqb x y
  | ERel x, ERel y => str_eqb x y
  | _, _ => false
  end.
Fixpoint entries_eqb (a b : list entry) : bool :=
  match a, b with
  | [], [] => true
  | x :: a', y :: b' => entry_eqb x y && entries_eqb a' b'
  | _, _ => false
  end.
Fixpoint strs_eqb (a b : list str) : bool :=
  match a, b with
  | [], [] => true
  | x :: a', y :: b' => str_eqb x y && strs_eqb a' b'
  | _, _ => false
  end.
Definition subset (a b : list str) : bool := forallb (fun x => str_in x b) a.
Definition seteq (a b : list str) : bool := subset a b && subset b a.
Definition entry_in (e : entry) (l : list entry) : bool := existsb (entry_eqb e) l.
Definition entries_seteq (a b : list entry) : bool :=
  forallb (fun x => entry_in x b) a && forallb (fun x => entry_in x a) b.
Definition ns_eqb (a b : list N) : bool := strs_eqb (map (fun x => [x]) a) (map (fun x => [x]) b).
'''


# ----------------------------------------------------------------------------
# generated project trees

DIR_NAMES = ['a', 'ab', 'abc', 'a.b', 'b', 'foo', 'foo.py', 'pkg', 'sub', 'zq_pk', 'zq_ns', 'lib',
             'venv', '.venv', '__pycache__', '.tox', '.mypy_cache', 'venv2', 'Venv', 'build', 'gen', 'é']
FILE_NAMES = ['m.py', 'n.py', 's.pyi', 'x.txt', '.py', 'a.pyc', 'foo.py', 'gen.py', '__init__.py', 'venv.py',
              'b.py.bak', '..py', 'é.py', 'py', 'm.pyi', 'build.py', 'a.py', 'ab.py', 'README', 'x.pyx', 'venv']


class Node:
    """A directory of the generated tree."""

    def __init__(self, comps):
        self.comps = comps
        self.files = {}      # name -> content (str)
        self.subs = {}       # name -> Node
        self.order_files = None
        self.order_subs = None

    def all_dirs(self):
        yield self
        for s in self.subs.values():
            yield from s.all_dirs()


def gen_gitignore(rng, node, all_rel_paths):
    """Lines of a .gitignore for `node`; many of them name things that exist."""
    lines = []
    below = [p[len(node.comps):] for p in all_rel_paths
             if len(p) > len(node.comps) and p[:len(node.comps)] == node.comps]
    for _ in range(rng.randint(1, 5)):
        k = rng.random()
        if below and k < 0.55:
            p = rng.choice(below)
            form = rng.random()
            if form < 0.35:
                ent = p[-1]                                   # bare name: applies at and below
            elif form < 0.6:
                ent = '/' + '/'.join(p)                       # anchored with leading slash
            elif form < 0.8:
                ent = '/'.join(p) if len(p) > 1 else '/' + p[0]   # anchored because of an inner slash
            elif form < 0.9:
                ent = p[-1][:-1] if len(p[-1]) > 1 else p[-1]     # a string prefix of an existing name
            else:
                ent = p[-1] + rng.choice(['x', '2', '.py'])
        elif k < 0.8:
            n = rng.choice(DIR_NAMES + FILE_NAMES)
            ent = rng.choice([n, '/' + n, 'sub/' + n, n + '/m.py', '/m.py', 'a/' + n, n + '/' + n])
        else:
            n = rng.choice(DIR_NAMES + FILE_NAMES)
            ent = rng.choice(['', ' ', '#' + n, '!' + n, '*.pyc', n + '*', '*', n + ' ', ' ' + n, '//' + n,
                              './' + n, '../' + n, '/', '///', 'a/../' + n, n + '\x0b', n + '\x0c' + n,
                              n + '\x1c', n + '\x85', '\\' + n, n + '/.', '#', '!', '?' + n, '[' + n[0] + ']' + n[1:]])
        deco = rng.random()
        if deco < 0.25:
            ent = ent + '/'
        elif deco < 0.3:
            ent = ent + '//'
        lines.append(ent)
    text = ''
    for i, l in enumerate(lines):
        eol = rng.choice(['\n', '\n', '\n', '\r\n', '\r', '\n\n'])
        if i == len(lines) - 1 and rng.random() < 0.3:
            eol = ''
        text += l + eol
    return text


def gen_tree(rng, max_files=30, py_content=None):
    """Returns the root Node.  py_content(rng, comps, name) gives the text of python files."""
    root = Node([])
    dirs = [root]
    for _ in range(rng.randint(2, 10)):
        parent = rng.choice(dirs)
        if len(parent.comps) >= 4:
            continue
        n = rng.choice(DIR_NAMES)
        if n in parent.subs or n in parent.files:
            continue
        if rng.random() < 0.35 and parent.subs:   # a sibling whose name is a string prefix/extension of another
            base = rng.choice(sorted(parent.subs))
            n = rng.choice([base + 'b', base[:-1] or base, base + '_', base + '.x'])
            if n in parent.subs or n in parent.files:
                continue
        node = Node(parent.comps + [n])
        parent.subs[n] = node
        dirs.append(node)
    nfiles = 0
    for d in dirs:
        for f in rng.sample(FILE_NAMES, rng.randint(0, 4)):
            if nfiles >= max_files or f in d.subs:
                continue
            if py_content is not None and f.endswith(('.py', '.pyi')):
                d.files[f] = py_content(rng, d.comps, f)
            else:
                d.files[f] = 'zq_txt_%d = 1\n' % nfiles
            nfiles += 1
    all_paths = []
    for d in dirs:
        if d.comps:
            all_paths.append(d.comps)
        for f in d.files:
            all_paths.append(d.comps + [f])
    for d in dirs:
        if rng.random() < (0.6 if d is root else 0.35):
            d.files['.gitignore'] = gen_gitignore(rng, d, all_paths)
    if rng.random() < 0.1 and dirs[-1] is not root:      # .gitignore that is a directory
        if '.gitignore' not in dirs[-1].files:
            dirs[-1].subs['.gitignore'] = Node(dirs[-1].comps + ['.gitignore'])
            dirs[-1].subs['.gitignore'].files['m.py'] = 'zq_in_gi = 1\n'
    return root


def write_tree(node, path):
    os.makedirs(path, exist_ok=True)
    for n, c in node.files.items():
        with open(os.path.join(path, n), 'w', encoding='utf8', newline='') as f:
            f.write(c)
    for n, s in node.subs.items():
        write_tree(s, os.path.join(path, n))


def read_order(node, path):
    """The listing order os.walk will see (os.scandir)."""
    ds, fs = [], []
    with os.scandir(path) as it:
        for e in it:
            (ds if e.is_dir() else fs).append(e.name)
    assert sorted(ds) == sorted(node.subs) and sorted(fs) == sorted(node.files), (path, ds, fs)
    node.order_subs, node.order_files = ds, fs
    for n in ds:
        read_order(node.subs[n], os.path.join(path, n))


def g_tree(node):
    fs = g_list(node.order_files,
                lambda n: '(%s, %s)' % (g_str(n), g_str(node.files[n]) if n == '.gitignore' else '(@nil N)'),
                'str * str')
    ss = g_list(node.order_subs, lambda n: '(%s, %s)' % (g_str(n), g_tree(node.subs[n])), 'str * tree')
    return '(Dir %s %s)' % (fs, ss)


def g_items(items):
    return g_list(items, lambda t: '(%s, %s)' % (g_bool(t[0]), g_str(t[1])), 'bool * str')


# independent oracle of the ignore rules: lexically scoped, component-wise ----------------
def oracle_entries(text):
    """(anchored component lists, bare names) of a .gitignore, read the documented way:
    blank lines, comments, negations and wildcard lines are skipped; a trailing slash is
    dropped; an entry with a slash is anchored at the folder of the .gitignore."""
    anchored, bare = [], []
    for raw in re.split(r'\r\n|\r|\n', text):
        if raw == '' or raw[0] in '#!' or '*' in raw:
            continue
        e = raw
        while e.endswith('/'):
            e = e[:-1]
        if '/' in e:
            while e.startswith('/'):
                e = e[1:]
            anchored.append(e.split('/'))
        else:
            bare.append(e)
    return anchored, bare


def oracle_visible(root):
    """-> (visible python files, visible folders, hidden python files, hidden folders) as component tuples."""
    vis_f, vis_d, hid_f, hid_d = set(), set(), set(), set()

    def is_py(n):
        stem, dot, ext = n.rpartition('.')
        return dot == '.' and stem != '' and ext in ('py', 'pyi')

    def go(node, rules, hidden):
        if '.gitignore' in node.files:
            a, b = oracle_entries(node.files['.gitignore'])
            rules = rules + [(node.comps, a, b)]

        def ignored(name, isdir):
            full = node.comps + [name]
            for (anc, anchored, bare) in rules:
                if name in bare:
                    return True
                for e in anchored:
                    if anc + e == full:
                        return True
            return isdir and name in IGN

        for n in node.files:
            if is_py(n):
                (hid_f if hidden or ignored(n, False) else vis_f).add(tuple(node.comps + [n]))
        for n, s in node.subs.items():
            h = hidden or ignored(n, True)
            (hid_d if h else vis_d).add(tuple(s.comps))
            go(s, rules, h)

    go(root, [], False)
    return vis_f, vis_d, hid_f, hid_d


def real_walk(path):
    from jedi.file_io import FolderIO
    from jedi.inference.references import recurse_find_python_folders_and_files
    out = []
    for folder_io, file_io in recurse_find_python_folders_and_files(FolderIO(path)):
        if file_io is None:
            out.append((True, str(folder_io.path)))
        else:
            out.append((False, str(file_io.path)))
    return out


def canon(path, real_root):
    assert path == real_root or path.startswith(real_root + os.sep), (path, real_root)
    return FAKE_ROOT + path[len(real_root):]


def tree_json(node):
    return dict(files={n: node.files[n] for n in (node.order_files or node.files)},
                subs={n: tree_json(node.subs[n]) for n in (node.order_subs or node.subs)})


def tree_from_json(j, comps=()):
    node = Node(list(comps))
    node.files = dict(j['files'])
    for n, s in j['subs'].items():
        node.subs[n] = tree_from_json(s, list(comps) + [n])
    return node


def stream_walk(ctx):
    n = ctx.n(260, 2500)
    cases, metas = [], []
    stats = dict(trees=0, with_gitignore=0, hidden_files=0, hidden_dirs=0, visible_files=0, files=0,
                 file_entries_hit=0, prefix_siblings=0)
    for it in range(n):
        root = gen_tree(ctx.rng)
        path = os.path.join(ctx.tmp, 'w%d' % it)
        write_tree(root, path)
        read_order(root, path)
        try:
            obs = real_walk(path)
        except Exception as e:
            ctx.deviation(dict(stream='walk', **{k: v for k, v in common.exc_sig(e).items() if k in ('exc', 'site')}),
                          dict(tree=tree_json(root), error=common.exc_sig(e)),
                          'recurse_find_python_folders_and_files raised %r' % (e,))
            shutil.rmtree(path, ignore_errors=True)
            continue
        shutil.rmtree(path, ignore_errors=True)
        obs = [(d, canon(p, path)) for d, p in obs]
        vis_f, vis_d, hid_f, hid_d = oracle_visible(root)
        got_f = {tuple(p[len(FAKE_ROOT) + 1:].split('/')) for d, p in obs if not d}
        got_d = {tuple(p[len(FAKE_ROOT) + 1:].split('/')) for d, p in obs if d}
        stats['trees'] += 1
        stats['with_gitignore'] += any('.gitignore' in d.files for d in root.all_dirs())
        stats['hidden_files'] += len(hid_f)
        stats['hidden_dirs'] += len(hid_d)
        stats['visible_files'] += len(vis_f)
        stats['files'] += sum(len(d.files) for d in root.all_dirs())
        ctx.count('walk', g_tree(root), nontrivial=bool(hid_f or hid_d))
        meta = dict(tree=tree_json(root), observed=obs)
        bad = False
        for what, exp, got, hid in (('file', vis_f, got_f, hid_f), ('folder', vis_d, got_d, hid_d)):
            missing = sorted(exp - got)
            leaked = sorted(got & hid)
            other = sorted(got - exp - hid)
            if missing:
                bad = True
                ctx.deviation(dict(stream='walk', cls='visible-%s-not-walked' % what),
                              dict(missing=['/'.join(m) for m in missing], **meta),
                              'the project walk misses %s(s) %s that no ignore rule names' % (what, ['/'.join(m) for m in missing]))
            if leaked:
                bad = True
                ctx.deviation(dict(stream='walk', cls='ignored-%s-walked' % what),
                              dict(leaked=['/'.join(m) for m in leaked], **meta),
                              'the project walk yields ignored %s(s) %s' % (what, ['/'.join(m) for m in leaked]))
            if other:
                bad = True
                ctx.deviation(dict(stream='walk', cls='non-python-or-unknown-%s-walked' % what),
                              dict(other=['/'.join(m) for m in other], **meta),
                              'the project walk yields %s(s) %s that are not python files / folders of the tree' % (what, other))
        meta['oracle_flagged'] = bad
        cases.append('(%s, %s)' % (g_tree(root), g_items(obs)))
        metas.append(meta)
    ctx.stat('walk', stats)
    fn = "(fun c => items_eqb (walk %s (fst c)) (snd c))" % g_str(FAKE_ROOT)
    fails, err = common.coq_failing(IMPORTS, fn, cases, shard=40, defs=DEFS)
    if err:
        raise RuntimeError('coq evaluation failed (walk): ' + err)
    for i in fails[:5]:
        m = metas[i]
        if m['oracle_flagged']:
            continue   # already reported with a failing input
        model = common.coq_show(IMPORTS, ['walk %s (fst %s)' % (g_str(FAKE_ROOT), cases[i])])
        ctx.violation('obligation', dict(what='correspondence walk: ordered output of recurse_find_python_folders_and_files '
                                              'differs from the model; the set-level ignore oracle accepted the output',
                                         tree=m['tree'], observed=m['observed'], model=model[-1500:]), nofail=True)
    if metas:
        ctx.sample(dict(stream='walk', tree=metas[0]['tree'], observed=metas[0]['observed']))


def run(ctx):
    common.setup_jedi(os.path.join(ctx.tmp, 'cache'))
    ctx.proofs()
    ctx.cov['fingerprints'] = common.fingerprint(FP)
    for f in (stream_walk,):
        t = time.time()
        f(ctx)
        ctx.stat('wall_' + f.__name__, round(time.time() - t, 1))


def replay(ctx, path):
    rec = json.load(open(path))
    print(json.dumps(rec, indent=1, ensure_ascii=False)[:4000])
    return 0
